/-
  RapidProofs.PruneRepeat — prune stability of the `repeat` loop (collections, strings, maps,
  permutations, `T.Repeat`): rejected iterations are absent from the pruned bits; the replay
  runs from a state with the same `count`, no rejections and no forced stop; a forced stop
  recorded the word 0, which reads as "stop" under every positive continue-threshold.
-/
import RapidProofs.PruneLoops

namespace Rapid

/-- number of bits the coin of `more` draws in state `s` -/
def coinBits (c : RCfg) (s : RSt) : Nat :=
  if s.count < c.minC then 53 else if s.force then 0 else 53

/-- the decision of the coin of `more` in state `s` on the recorded word `w` -/
def coinDecision (c : RCfg) (s : RSt) (w : UInt64) : Bool :=
  if s.count < c.minC then decide (thrAlways ≤ w)
  else if s.force then false
  else if s.count ≥ c.maxC then decide (thrNever ≤ w)
  else decide (c.thr ≤ w)

theorem bool_beq_vTrue (b : Bool) : (Val.bool b == vTrue) = b := by
  cases b <;> rfl

theorem coin_run (thr : UInt64) (kk : Bool → Prog) (src : Src) (ts : TS) :
    (coin thr kk).run src ts =
      match src.next 53 with
      | none => { Out.ofRes (.error (.invalid "overrun")) src ts with overran := true, toks := [.opn coinLabel false, .abort] }
      | some (w, src') => ((kk (decide (thr ≤ w))).run src' ts).after [w] [w] [.opn coinLabel false, .w w, .cls false] [] false := by
  simp only [coin, run_draw_group]
  cases src.next 53 with
  | none => rfl
  | some r => simp [bool_beq_vTrue]

theorem moreCoin_run (c : RCfg) (s : RSt) (kk : Bool → Prog) (src : Src) (ts : TS) :
    (moreCoin c s kk).run src ts =
      match src.next (coinBits c s) with
      | none => { Out.ofRes (.error (.invalid "overrun")) src ts with overran := true, toks := [.opn coinLabel false, .abort] }
      | some (w, src') =>
        ((kk (coinDecision c s w)).run src' ts).after [w] [w] [.opn coinLabel false, .w w, .cls false] [] false := by
  simp only [moreCoin, coinBits, coinDecision]
  by_cases h1 : s.count < c.minC
  · simp only [h1, if_true, coin_run]
  · simp only [h1, if_false]
    by_cases h2 : s.force = true
    · simp only [h2, if_true, run_draw_group]
      cases src.next 0 with
      | none => rfl
      | some r => simp
    · simp only [h2, if_false, Bool.false_eq_true]
      by_cases h3 : s.count ≥ c.maxC
      · simp only [h3, if_true, coin_run]
      · simp only [h3, if_false, coin_run]

theorem mask_zero (w : UInt64) : mask 0 w = 0 := by
  simp [mask, bitmask64]

/-- a zero-bit draw records the word 0 -/
theorem next_zero {s s' : Src} {u : UInt64} (h : s.next 0 = some (u, s')) : u = 0 := by
  cases s with
  | buf ws =>
    cases ws with
    | nil => simp [Src.next] at h
    | cons w ws => simp only [Src.next, Option.some.injEq, Prod.mk.injEq] at h; rw [← h.1]; exact mask_zero w
  | rng x =>
    simp only [Src.next, Nat.zero_le, if_true, Option.some.injEq, Prod.mk.injEq] at h
    rw [← h.1]; exact mask_zero _

theorem u64_not_le_zero_of_pos {t : UInt64} (h : 0 < t) : ¬ t ≤ 0 := by
  rw [UInt64.lt_iff_toNat_lt] at h; rw [UInt64.le_iff_toNat_le]; simp at h ⊢; omega

/-- the replay state: same count, nothing rejected yet, not forced -/
structure ReplayOf (s s' : RSt) : Prop where
  count : s'.count = s.count
  force : s'.force = false

/-- the coin of the replay reads the recorded word and decides like the original -/
theorem coin_agrees (c : RCfg) (s s' : RSt) (hthr : s.force = true → 0 < c.thr) (hr : ReplayOf s s') (hf : s.force = true → s.count ≥ c.minC)
    {src src' : Src} {w : UInt64} (hn : src.next (coinBits c s) = some (w, src')) (rest : List UInt64) :
    (Src.buf (w :: rest)).next (coinBits c s') = some (w, .buf rest) ∧ coinDecision c s' w = coinDecision c s w := by
  simp only [coinBits, coinDecision, hr.count, hr.force, Bool.false_eq_true, if_false] at *
  by_cases h1 : s.count < c.minC
  · simp only [h1, if_true] at hn ⊢
    exact ⟨buf_next_cons (next_masked hn) rest, trivial⟩
  · simp only [h1, if_false] at hn ⊢
    by_cases h2 : s.force = true
    · simp only [h2, if_true] at hn ⊢
      have hw := next_zero hn
      subst hw
      refine ⟨buf_next_cons (by simp [mask]) rest, ?_⟩
      by_cases h3 : s.count ≥ c.maxC
      · simp [h3, thrNever]
      · simp only [h3, if_false]; simpa using u64_not_le_zero_of_pos (hthr h2)
    · simp only [h2, if_false, Bool.false_eq_true] at hn ⊢
      exact ⟨buf_next_cons (next_masked hn) rest, trivial⟩

/-- the loop body followed by the "too many rejections" check of `reject()` -/
def stepG (c : RCfg) (s : RSt) (step : Val → Prog) (acc : Val) : Prog :=
  (step acc) >>- fun r =>
    if r == rRej && tooManyRejections c s then .throw (.invalid tooManyMsg) else .ret r

/-- the body of one iteration -/
def iterBody (c : RCfg) (step : Val → Prog) (s : RSt) (acc : Val) : Prog :=
  moreCoin c s fun cont => if cont then stepG c s step acc else .ret rStop

theorem repeatLoop_succ (c : RCfg) (step : Val → Prog) (k : Val → Prog) (fuel : Nat) (s : RSt) (acc : Val) :
    repeatLoop c step k (fuel + 1) s acc =
      .group (c.label ++ repeatSuffix) true (iterBody c step s acc) (fun r => r == rRej)
        (fun r =>
          match r with
          | .nil => k acc
          | .cons .nil acc' => repeatLoop c step k fuel { s with count := s.count + 1 } acc'
          | _ => repeatLoop c step k fuel { s with rejs := s.rejs + 1, force := s.force || s.rejs + 1 > s.count * 2 } acc) := rfl

/-- what `step` may return -/
def StepShape (step : Val → Prog) : Prop :=
  ∀ acc src ts v, ((step acc).run src ts).res = .ok v → v = rRej ∨ ∃ a, v = rAcc a

theorem guard_ps (c : RCfg) (s : RSt) (r : Val) :
    PS (if r == rRej && tooManyRejections c s then Prog.throw (.invalid tooManyMsg) else .ret r) := by
  split
  · exact ps_throw _
  · exact ps_ret _

theorem ps_stepG (c : RCfg) (s : RSt) (step : Val → Prog) (acc : Val) (h : PS (step acc)) : PS (stepG c s step acc) :=
  ps_bind _ _ h (fun r => guard_ps c s r)

/-- the rejection-count check only matters when the body rejected -/
theorem stepG_indep (c : RCfg) (s s' : RSt) (step : Val → Prog) (acc : Val) (src : Src) (ts : TS)
    (hg : Good ((stepG c s step acc).run src ts)) (hnr : ((stepG c s step acc).run src ts).res ≠ .ok rRej) :
    (stepG c s' step acc).run src ts = (stepG c s step acc).run src ts := by
  simp only [stepG, run_bind, Out.andThen] at hg hnr ⊢
  cases hres : ((step acc).run src ts).res with
  | error e => rfl
  | ok v =>
    simp only [hres] at hg hnr ⊢
    by_cases hv : v = rRej
    · exfalso
      subst hv
      by_cases ht : tooManyRejections c s = true
      · simp only [ht, beq_self_eq_true, Bool.and_self, if_true] at hg
        exact not_good_invalid (m := tooManyMsg) (by simp [Prog.run, Out.ofRes]) hg
      · simp only [ht, Bool.and_false, Bool.false_eq_true, if_false] at hnr
        exact hnr (by simp [Prog.run, Out.ofRes])
    · have : (v == rRej) = false := by simpa using hv
      simp [this]

/-- the iteration body replays from the replay state whenever its result is kept -/
theorem iter_replay (c : RCfg) (step : Val → Prog) (hstep : ∀ acc, PS (step acc))
    (s s' : RSt) (hthr : s.force = true → 0 < c.thr) (hr : ReplayOf s s') (hf : s.force = true → s.count ≥ c.minC) (acc : Val)
    (src : Src) (ts : TS) (xs : List UInt64)
    (hg : Good ((iterBody c step s acc).run src ts))
    (hnr : ((iterBody c step s acc).run src ts).res ≠ .ok rRej)
    (ho : ((iterBody c step s acc).run src ts).overran = true → xs = []) :
    Replayed ((iterBody c step s acc).run src ts)
      ((iterBody c step s' acc).run (.buf (((iterBody c step s acc).run src ts).kept ++ xs)) ts) xs := by
  simp only [iterBody] at hg hnr ho ⊢
  rw [moreCoin_run c s] at hg hnr ho ⊢
  cases hn : src.next (coinBits c s) with
  | none => simp only [hn] at hg; exact absurd hg (not_good_invalid (m := "overrun") rfl)
  | some r =>
    obtain ⟨w, src'⟩ := r
    simp only [hn] at hg hnr ho ⊢
    simp only [after_kept, List.singleton_append, List.cons_append, List.nil_append]
    rw [moreCoin_run c s']
    obtain ⟨hnext, hdec⟩ := coin_agrees c s s' hthr hr hf hn
      (((if coinDecision c s w = true then stepG c s step acc else Prog.ret rStop).run src' ts).kept ++ xs)
    simp only [hnext, hdec]
    by_cases hd : coinDecision c s w = true
    · simp only [hd, if_true] at hg hnr ho ⊢
      have r1 := ps_stepG c s step acc (hstep acc) src' ts xs (good_after hg) (by simpa using ho)
      have hsame := stepG_indep c s s' step acc (.buf (((stepG c s step acc).run src' ts).kept ++ xs)) ts
        (good_of_res r1.res (good_after hg)) (by rw [r1.res]; simpa using hnr)
      rw [hsame]
      exact replayed_cons r1
    · simp only [hd, if_false, Bool.false_eq_true] at hg hnr ho ⊢
      simp only [Prog.run, Out.ofRes, List.nil_append]
      exact ⟨rfl, rfl, rfl, by simp [Out.after], by simp [Out.after]⟩

/-! ### facts about one iteration -/

theorem stepG_res (c : RCfg) (s : RSt) (step : Val → Prog) (acc : Val) (src : Src) (ts : TS) (r : Val)
    (h : ((stepG c s step acc).run src ts).res = .ok r) :
    ((step acc).run src ts).res = .ok r ∧ (r = rRej → tooManyRejections c s = false) ∧
    ((stepG c s step acc).run src ts).ts = ((step acc).run src ts).ts := by
  simp only [stepG, run_bind, Out.andThen] at h ⊢
  cases hres : ((step acc).run src ts).res with
  | error e => simp [hres] at h
  | ok v =>
    simp only [hres] at h ⊢
    by_cases hg : (v == rRej && tooManyRejections c s) = true
    · simp [hg, Prog.run, Out.ofRes] at h
    · simp only [hg, if_false, Bool.false_eq_true] at h ⊢
      simp only [Prog.run, Out.ofRes, after_res, Except.ok.injEq] at h
      subst h
      refine ⟨rfl, ?_, by simp [Prog.run, Out.ofRes]⟩
      intro hv
      subst hv
      simpa using hg

theorem stepG_ts_err (c : RCfg) (s : RSt) (step : Val → Prog) (acc : Val) (src : Src) (ts : TS)
    (hp : TsPure (step acc)) : ((stepG c s step acc).run src ts).ts = ts := by
  simp only [stepG, run_bind, Out.andThen]
  cases hres : ((step acc).run src ts).res with
  | error e => simp only []; exact hp src ts
  | ok v =>
    simp only []
    split <;> simp [Prog.run, Out.ofRes, hp src ts]

structure IterOk (c : RCfg) (s : RSt) (o : Out) (r : Val) : Prop where
  used : o.used ≠ []
  kept : o.kept ≠ []
  shape : r = rStop ∨ r = rRej ∨ ∃ a, r = rAcc a
  rej : r = rRej → tooManyRejections c s = false

theorem iter_ok (c : RCfg) (step : Val → Prog) (hshape : StepShape step) (s : RSt) (acc : Val) (src : Src) (ts : TS) (r : Val)
    (h : ((iterBody c step s acc).run src ts).res = .ok r) : IterOk c s ((iterBody c step s acc).run src ts) r := by
  simp only [iterBody] at h ⊢
  rw [moreCoin_run] at h ⊢
  cases hn : src.next (coinBits c s) with
  | none => simp [hn, Out.ofRes] at h
  | some p =>
    obtain ⟨w, src'⟩ := p
    simp only [hn] at h ⊢
    refine ⟨by simp, by simp, ?_, ?_⟩
    · by_cases hd : coinDecision c s w = true
      · simp only [hd, if_true, after_res] at h
        obtain ⟨h1, _, _⟩ := stepG_res c s step acc src' ts r h
        rcases hshape acc src' ts r h1 with h2 | h2
        · exact Or.inr (Or.inl h2)
        · exact Or.inr (Or.inr h2)
      · simp only [hd, if_false, Bool.false_eq_true, after_res, Prog.run, Out.ofRes, Except.ok.injEq] at h
        exact Or.inl h.symm
    · intro hr
      by_cases hd : coinDecision c s w = true
      · simp only [hd, if_true, after_res] at h
        exact (stepG_res c s step acc src' ts r h).2.1 hr
      · simp only [hd, if_false, Bool.false_eq_true, after_res, Prog.run, Out.ofRes, Except.ok.injEq] at h
        subst hr; cases h

theorem iter_ts (c : RCfg) (step : Val → Prog) (hp : ∀ acc, TsPure (step acc)) (s : RSt) (acc : Val) (src : Src) (ts : TS) :
    ((iterBody c step s acc).run src ts).ts = ts := by
  simp only [iterBody]
  rw [moreCoin_run]
  cases hn : src.next (coinBits c s) with
  | none => rfl
  | some p =>
    obtain ⟨w, src'⟩ := p
    simp only [after_ts]
    split
    · exact stepG_ts_err c s step acc src' ts (hp acc)
    · rfl

theorem rStop_ne_rRej : (Val.nil == Val.bool true) = false := by decide
theorem rAcc_ne_rRej (a : Val) : (Val.cons Val.nil a == Val.bool true) = false := by simp
theorem rRej_beq : (Val.bool true == Val.bool true) = true := by decide

/-- the loop body never calls `reject()` -/
def NoRej (step : Val → Prog) : Prop := ∀ acc src ts, ((step acc).run src ts).res ≠ .ok rRej

/-- **prune stability of the `repeat` loop** -/
theorem ps_repeatLoop (c : RCfg) (step : Val → Prog) (hthr : 0 < c.thr ∨ NoRej step)
    (hstep : ∀ acc, PS (step acc)) (hpure : ∀ acc, TsPure (step acc)) (hshape : StepShape step)
    (k : Val → Prog) (hk : ∀ acc, PS (k acc)) :
    ∀ (n m : Nat), n ≤ m → ∀ (s s' : RSt) (acc : Val), ReplayOf s s' → (s.force = true → s.count ≥ c.minC) →
      (NoRej step → s.force = false) →
      ∀ (src : Src) (ts : TS) (xs : List UInt64),
        Good ((repeatLoop c step k n s acc).run src ts) →
        (((repeatLoop c step k n s acc).run src ts).overran = true → xs = []) →
        Replayed ((repeatLoop c step k n s acc).run src ts)
          ((repeatLoop c step k m s' acc).run (.buf (((repeatLoop c step k n s acc).run src ts).kept ++ xs)) ts) xs := by
  intro n
  induction n with
  | zero => intro m _ s s' acc _ _ _ src ts xs hg _; exact absurd hg (not_good_fuel (by simp [repeatLoop, Prog.run, Out.ofRes]))
  | succ n ih =>
    intro m hm s s' acc hr hf hnf src ts xs hg ho
    obtain ⟨m, rfl⟩ : ∃ m', m = m' + 1 := ⟨m - 1, by omega⟩
    have hthr' : s.force = true → 0 < c.thr := by
      intro hfo
      rcases hthr with h | h
      · exact h
      · rw [hnf h] at hfo; cases hfo
    rw [repeatLoop_succ c step k n s acc] at hg ho ⊢
    simp only [Prog.run] at hg ho ⊢
    cases hres : ((iterBody c step s acc).run src ts).res with
    | error e =>
      simp only [hres] at hg ho ⊢
      have hgi : Good ((iterBody c step s acc).run src ts) := good_of_res (by simp [hres]) hg
      have r := iter_replay c step hstep s s' hthr' hr hf acc src ts xs hgi (by rw [hres]; simp) ho
      rw [repeatLoop_succ c step k m s' acc]
      simp only [Prog.run, r.res, hres]
      exact ⟨by simp [r.res, hres], r.src, r.ts, r.used, r.kept⟩
    | ok rv =>
      simp only [hres] at hg ho ⊢
      have hgi : Good ((iterBody c step s acc).run src ts) := good_ok hres
      have hio := iter_ok c step hshape s acc src ts rv hres
      have hue : ((iterBody c step s acc).run src ts).used.isEmpty = false := by
        simpa [List.isEmpty_iff] using hio.used
      simp only [hue, Bool.and_false, Bool.false_eq_true, if_false] at hg ho ⊢
      simp only [after_overran, Bool.or_eq_true] at ho
      have hts := iter_ts c step hpure s acc src ts
      rcases hio.shape with hrv | hrv | ⟨a, hrv⟩
      · -- stop
        subst hrv
        simp only [rStop, rRej, rStop_ne_rRej, Bool.false_eq_true, if_false] at hg ho hres ⊢
        simp only [after_kept, List.append_assoc]
        have ho1 : ((iterBody c step s acc).run src ts).overran = true →
            ((k acc).run ((iterBody c step s acc).run src ts).src ((iterBody c step s acc).run src ts).ts).kept ++ xs = [] := by
          intro h
          have hs := overran_src _ src ts h
          have := run_empty (k acc) ((iterBody c step s acc).run src ts).ts
          rw [hs, this.2.1, ho (Or.inl h)]; rfl
        have r1 := iter_replay c step hstep s s' hthr' hr hf acc src ts _ hgi (by rw [hres]; simp [rRej]) ho1
        rw [repeatLoop_succ c step k m s' acc]
        simp only [Prog.run, r1.res, hres]
        have hu1 : ((iterBody c step s' acc).run (.buf (((iterBody c step s acc).run src ts).kept ++
            (((k acc).run ((iterBody c step s acc).run src ts).src ((iterBody c step s acc).run src ts).ts).kept ++ xs))) ts).used.isEmpty = false := by
          rw [r1.used]; simpa [List.isEmpty_iff] using hio.kept
        simp only [hu1, rRej, rStop_ne_rRej, Bool.and_false, Bool.false_eq_true, if_false]
        rw [r1.src, r1.ts]
        have r2 := hk acc _ _ xs (good_after hg) (fun h => ho (Or.inr h))
        exact replayed_seq r1.res r1.used r1.kept r2
      · -- rejected: the whole iteration is pruned; the replay has not moved
        subst hrv
        simp only [rRej, rRej_beq, if_true] at hg ho hres ⊢
        simp only [after_kept, List.nil_append]
        have hcond : (({ s with rejs := s.rejs + 1, force := s.force || decide (s.rejs + 1 > s.count * 2) } : RSt).force = true →
            ({ s with rejs := s.rejs + 1, force := s.force || decide (s.rejs + 1 > s.count * 2) } : RSt).count ≥ c.minC) := by
          intro hforce
          simp only [Bool.or_eq_true, decide_eq_true_eq] at hforce
          rcases hforce with h1 | h1
          · exact hf h1
          · have := hio.rej rfl
            simp only [tooManyRejections, Bool.and_eq_false_iff, decide_eq_false_iff_not, Bool.not_eq_false'] at this
            rcases this with h2 | h2
            · exact absurd h1 h2
            · simpa using h2
        have hnorej : NoRej step → ({ s with rejs := s.rejs + 1, force := s.force || decide (s.rejs + 1 > s.count * 2) } : RSt).force = false := by
          intro hno
          exfalso
          -- the body rejected, so `step` returned rRej
          simp only [iterBody] at hres
          rw [moreCoin_run] at hres
          cases hn : src.next (coinBits c s) with
          | none => simp [hn, Out.ofRes] at hres
          | some p =>
            obtain ⟨w, src'⟩ := p
            simp only [hn] at hres
            by_cases hd : coinDecision c s w = true
            · simp only [hd, if_true, after_res] at hres
              exact hno acc src' ts (stepG_res c s step acc src' ts _ hres).1
            · simp [hd, Prog.run, Out.ofRes, rStop] at hres
        have r := ih (m + 1) (by omega) { s with rejs := s.rejs + 1, force := s.force || decide (s.rejs + 1 > s.count * 2) } s' acc
          ⟨hr.count, hr.force⟩ hcond hnorej ((iterBody c step s acc).run src ts).src ((iterBody c step s acc).run src ts).ts xs
          (good_after hg) (fun h => ho (Or.inr h))
        rw [hts] at r ⊢
        exact ⟨by simpa using r.res, r.src, by simpa using r.ts, by simpa using r.used, by simpa using r.kept⟩
      · -- accepted
        subst hrv
        simp only [rAcc, rRej, rAcc_ne_rRej, Bool.false_eq_true, if_false] at hg ho hres ⊢
        simp only [after_kept, List.append_assoc]
        have ho1 : ((iterBody c step s acc).run src ts).overran = true →
            ((repeatLoop c step k n { s with count := s.count + 1 } a).run ((iterBody c step s acc).run src ts).src
              ((iterBody c step s acc).run src ts).ts).kept ++ xs = [] := by
          intro h
          have hs := overran_src _ src ts h
          have := run_empty (repeatLoop c step k n { s with count := s.count + 1 } a) ((iterBody c step s acc).run src ts).ts
          rw [hs, this.2.1, ho (Or.inl h)]; rfl
        have r1 := iter_replay c step hstep s s' hthr' hr hf acc src ts _ hgi (by rw [hres]; simp [rAcc, rRej]) ho1
        rw [repeatLoop_succ c step k m s' acc]
        simp only [Prog.run, r1.res, hres]
        have hu1 : ((iterBody c step s' acc).run (.buf (((iterBody c step s acc).run src ts).kept ++
            (((repeatLoop c step k n { s with count := s.count + 1 } a).run ((iterBody c step s acc).run src ts).src
              ((iterBody c step s acc).run src ts).ts).kept ++ xs))) ts).used.isEmpty = false := by
          rw [r1.used]; simpa [List.isEmpty_iff] using hio.kept
        simp only [hu1, rRej, rAcc_ne_rRej, Bool.and_false, Bool.false_eq_true, if_false]
        rw [r1.src, r1.ts]
        have r2 := ih m (by omega) { s with count := s.count + 1 } { s' with count := s'.count + 1 } a
          ⟨by simp [hr.count], hr.force⟩ (fun h => by have := hf h; simp only; omega) hnf _ _ xs (good_after hg) (fun h => ho (Or.inr h))
        exact replayed_seq r1.res r1.used r1.kept r2

end Rapid
