/-
  RapidProofs.Sim — lock-step simulation of two generator fragments in continuation-passing style.

  `Sim pT pM R`: from every bit source and `*T` state, either both fragments consume the same words,
  record the same tokens and hand on values `b`, `a` related by `R` — whatever the continuation —, or
  both end with the same error without calling the continuation.  Two uses:

    * `Uniform p := Sim p p Eq`: what a primitive does before it calls its continuation does not depend
      on the continuation.  Together with a contract (`Yields p P`) this gives `Sim p p (· = · ∧ P ·)`:
      the continuation is only ever called on values that satisfy the contract;
    * the translated source functions against the model (RapidProofs/TranslatedFloatEq.lean), where the
      two sides encode the values that leave a group differently.
-/
import RapidProofs.Contracts
import RapidProofs.ContractsInt
import RapidProofs.Bind

namespace Rapid

def Sim {β α : Type} (pT : (β → Prog) → Prog) (pM : (α → Prog) → Prog) (R : β → α → Prop) : Prop :=
  ∀ (src : Src) (ts : TS),
    (∃ b a, R b a ∧ ∃ (src' : Src) (u kp : List UInt64) (tk : List Tok) (ov : Bool),
        (∀ k, (pT k).run src ts = ((k b).run src' ts).after u kp tk [] ov) ∧
        (∀ k, (pM k).run src ts = ((k a).run src' ts).after u kp tk [] ov)) ∨
    (∃ o : Out, (∃ e, o.res = .error e) ∧ (∀ k, (pT k).run src ts = o) ∧ (∀ k, (pM k).run src ts = o))

/-- the prefix of `p` does not depend on its continuation -/
def Uniform {α : Type} (p : (α → Prog) → Prog) : Prop := Sim p p (fun b a => b = a)

theorem Sim.mono {β α : Type} {pT : (β → Prog) → Prog} {pM : (α → Prog) → Prog} {R R' : β → α → Prop}
    (h : Sim pT pM R) (hr : ∀ b a, R b a → R' b a) : Sim pT pM R' := by
  intro src ts
  rcases h src ts with ⟨b, a, hR, rest⟩ | h
  · exact Or.inl ⟨b, a, hr b a hR, rest⟩
  · exact Or.inr h

theorem Sim.ret {β α : Type} {R : β → α → Prop} {b : β} {a : α} (h : R b a) :
    Sim (fun k => k b) (fun k => k a) R := by
  intro src ts
  exact Or.inl ⟨b, a, h, src, [], [], [], false, fun k => (after_nil _).symm, fun k => (after_nil _).symm⟩

theorem Sim.throw {β α : Type} (R : β → α → Prop) (e : Err) :
    Sim (fun (_ : β → Prog) => Prog.throw e) (fun (_ : α → Prog) => Prog.throw e) R := by
  intro src ts
  exact Or.inr ⟨_, ⟨e, rfl⟩, fun _ => rfl, fun _ => rfl⟩

theorem Sim.ite {β α : Type} {p1 p2 : (β → Prog) → Prog} {q1 q2 : (α → Prog) → Prog} {R : β → α → Prop}
    (c : Prop) [Decidable c] (h1 : c → Sim p1 q1 R) (h2 : ¬ c → Sim p2 q2 R) :
    Sim (fun k => if c then p1 k else p2 k) (fun k => if c then q1 k else q2 k) R := by
  by_cases hc : c
  · simp only [hc, if_true]; exact h1 hc
  · simp only [hc, if_false]; exact h2 hc

theorem Sim.bind {β α β' α' : Type} {pT : (β → Prog) → Prog} {pM : (α → Prog) → Prog} {R : β → α → Prop}
    {qT : β → (β' → Prog) → Prog} {qM : α → (α' → Prog) → Prog} {S : β' → α' → Prop}
    (hp : Sim pT pM R) (hq : ∀ b a, R b a → Sim (qT b) (qM a) S) :
    Sim (fun k => pT (fun b => qT b k)) (fun k => pM (fun a => qM a k)) S := by
  intro src ts
  rcases hp src ts with ⟨b, a, hR, src', u, kp, tk, ov, h1, h2⟩ | ⟨o, he, h1, h2⟩
  · rcases hq b a hR src' ts with ⟨b', a', hS, src'', u', kp', tk', ov', g1, g2⟩ | ⟨o, ⟨e, he⟩, g1, g2⟩
    · refine Or.inl ⟨b', a', hS, src'', u ++ u', kp ++ kp', tk ++ tk', ov || ov', fun k => ?_, fun k => ?_⟩
      · rw [h1, g1, after_after0]
      · rw [h2, g2, after_after0]
    · refine Or.inr ⟨o.after u kp tk [] ov, ⟨e, by simp [Out.after, he]⟩, fun k => ?_, fun k => ?_⟩
      · rw [h1, g1]
      · rw [h2, g2]
  · exact Or.inr ⟨o, he, fun k => h1 _, fun k => h2 _⟩

/-- the same for fragments whose continuation takes three arguments (`genUintRange`, `genIntRange`) -/
def Sim3 {A B C A' B' C' : Type} (pT : (A → B → C → Prog) → Prog) (pM : (A' → B' → C' → Prog) → Prog)
    (R : A × B × C → A' × B' × C' → Prop) : Prop :=
  Sim (fun k => pT (fun a b c => k (a, b, c))) (fun k => pM (fun a b c => k (a, b, c))) R

theorem Sim3.bind {A B C A' B' C' β' α' : Type} {pT : (A → B → C → Prog) → Prog} {pM : (A' → B' → C' → Prog) → Prog}
    {R : A × B × C → A' × B' × C' → Prop}
    {qT : A → B → C → (β' → Prog) → Prog} {qM : A' → B' → C' → (α' → Prog) → Prog} {S : β' → α' → Prop}
    (hp : Sim3 pT pM R) (hq : ∀ a b c a' b' c', R (a, b, c) (a', b', c') → Sim (qT a b c) (qM a' b' c') S) :
    Sim (fun k => pT (fun a b c => qT a b c k)) (fun k => pM (fun a b c => qM a b c k)) S :=
  Sim.bind (pT := fun k => pT (fun a b c => k (a, b, c))) (pM := fun k => pM (fun a b c => k (a, b, c)))
    (qT := fun x k => qT x.1 x.2.1 x.2.2 k) (qM := fun x k => qM x.1 x.2.1 x.2.2 k) hp
    (fun b a h => hq b.1 b.2.1 b.2.2 a.1 a.2.1 a.2.2 h)

/-- equal runs for related continuations -/
theorem Sim.runEq {β α : Type} {pT : (β → Prog) → Prog} {pM : (α → Prog) → Prog} {R : β → α → Prop}
    (h : Sim pT pM R) (k1 : β → Prog) (k2 : α → Prog)
    (hk : ∀ b a, R b a → ∀ src ts, (k1 b).run src ts = (k2 a).run src ts) (src : Src) (ts : TS) :
    (pT k1).run src ts = (pM k2).run src ts := by
  rcases h src ts with ⟨b, a, hR, src', u, kp, tk, ov, h1, h2⟩ | ⟨o, _, h1, h2⟩
  · rw [h1, h2, hk b a hR]
  · rw [h1, h2]

/-- a group around a single draw -/
theorem Sim.drawGroup {β α : Type} (l : String) (s : Bool) (n : Nat) (f1 f2 : UInt64 → Val) (d1 d2 : Val → Bool)
    (q1 : Val → (β → Prog) → Prog) (q2 : Val → (α → Prog) → Prog) (R : β → α → Prop)
    (hd : ∀ u, d1 (f1 u) = d2 (f2 u)) (hq : ∀ u, Sim (q1 (f1 u)) (q2 (f2 u)) R) :
    Sim (fun k => .group l s (.draw n fun u => .ret (f1 u)) d1 (fun v => q1 v k))
        (fun k => .group l s (.draw n fun u => .ret (f2 u)) d2 (fun v => q2 v k)) R := by
  intro src ts
  simp only [run_draw_group]
  cases src.next n with
  | none => exact Or.inr ⟨_, ⟨_, rfl⟩, fun _ => rfl, fun _ => rfl⟩
  | some r =>
    obtain ⟨u, src'⟩ := r
    simp only [hd u]
    rcases hq u src' ts with ⟨b, a, hR, src'', u', kp', tk', ov', g1, g2⟩ | ⟨o, ⟨e, he⟩, g1, g2⟩
    · refine Or.inl ⟨b, a, hR, src'', [u] ++ u', (if d2 (f2 u) = true then [] else [u]) ++ kp',
        [Tok.opn l s, Tok.w u, Tok.cls (d2 (f2 u))] ++ tk', false || ov', fun k => ?_, fun k => ?_⟩
      · rw [g1, after_after0]
      · rw [g2, after_after0]
    · refine Or.inr ⟨o.after [u] (if d2 (f2 u) = true then [] else [u]) [Tok.opn l s, Tok.w u, Tok.cls (d2 (f2 u))] [] false,
        ⟨e, by simp [Out.after, he]⟩, fun k => ?_, fun k => ?_⟩
      · rw [g1]
      · rw [g2]

/-- a group around any body: the two bodies run in lock-step and hand their results to `.ret` under
    two encodings -/
theorem Sim.group {γ δ β α : Type} (l : String) (s : Bool) {bT : (γ → Prog) → Prog} {bM : (δ → Prog) → Prog}
    {Q : γ → δ → Prop} (hb : Sim bT bM Q) (e1 : γ → Val) (e2 : δ → Val) (d1 d2 : Val → Bool)
    (q1 : Val → (β → Prog) → Prog) (q2 : Val → (α → Prog) → Prog) (R : β → α → Prop)
    (hd : ∀ c c', Q c c' → d1 (e1 c) = d2 (e2 c')) (hq : ∀ c c', Q c c' → Sim (q1 (e1 c)) (q2 (e2 c')) R) :
    Sim (fun k => .group l s (bT fun c => .ret (e1 c)) d1 (fun v => q1 v k))
        (fun k => .group l s (bM fun c => .ret (e2 c)) d2 (fun v => q2 v k)) R := by
  intro src ts
  rcases hb src ts with ⟨c, c', hQ, src', u, kp, tk, ov, h1, h2⟩ | ⟨o, ⟨e, he⟩, h1, h2⟩
  · have r1 := h1 (fun c => .ret (e1 c))
    have r2 := h2 (fun c => .ret (e2 c))
    simp only [Prog.run] at r1 r2
    simp only [Prog.run, r1, r2, after_res, Out.ofRes, after_used, List.append_nil, hd c c' hQ, after_srcproj, after_ts,
      after_kept, after_toks, after_evs, after_overran, Bool.or_false]
    by_cases hg : (!d2 (e2 c') && u.isEmpty) = true
    · simp only [hg, if_true]
      exact Or.inr ⟨_, ⟨_, rfl⟩, fun _ => rfl, fun _ => rfl⟩
    · simp only [hg, if_false, Bool.false_eq_true]
      rcases hq c c' hQ src' ts with ⟨b, a, hR, src'', u', kp', tk', ov', g1, g2⟩ | ⟨o, ⟨e, he⟩, g1, g2⟩
      · refine Or.inl ⟨b, a, hR, src'', u ++ u', (if d2 (e2 c') = true then [] else kp) ++ kp',
          (Tok.opn l s :: (tk ++ [Tok.cls (d2 (e2 c'))])) ++ tk', ov || ov', fun k => ?_, fun k => ?_⟩
        · rw [g1, after_after0]; rfl
        · rw [g2, after_after0]; rfl
      · refine Or.inr ⟨o.after u (if d2 (e2 c') = true then [] else kp) (Tok.opn l s :: (tk ++ [Tok.cls (d2 (e2 c'))])) [] ov,
          ⟨e, by simp [Out.after, he]⟩, fun k => ?_, fun k => ?_⟩
        · rw [g1]; rfl
        · rw [g2]; rfl
  · have r1 := h1 (fun c => .ret (e1 c))
    have r2 := h2 (fun c => .ret (e2 c))
    refine Or.inr ⟨{ o with toks := .opn l s :: o.toks ++ [.abort] }, ⟨e, he⟩, fun k => ?_, fun k => ?_⟩
    · simp only [Prog.run, r1, he]
    · simp only [Prog.run, r2, he]

/-- from equal runs for every continuation and uniformity of the model side -/
theorem Sim.of_runEq {α : Type} {pT pM : (α → Prog) → Prog} (hT : ∀ k src ts, (pT k).run src ts = (pM k).run src ts)
    (hU : Uniform pM) : Sim pT pM (fun b a => b = a) := by
  intro src ts
  rcases hU src ts with ⟨b, a, hR, src', u, kp, tk, ov, h1, h2⟩ | ⟨o, he, h1, h2⟩
  · exact Or.inl ⟨b, a, hR, src', u, kp, tk, ov, fun k => by rw [hT, h1], h2⟩
  · exact Or.inr ⟨o, he, fun k => by rw [hT, h1], h2⟩

/-- a contract of the model side holds of the values handed on -/
theorem Sim.and_yields {β α : Type} {pT : (β → Prog) → Prog} {pM : (α → Prog) → Prog} {R : β → α → Prop} {P : α → Prop}
    (h : Sim pT pM R) (hy : Yields pM P) (enc : α → Val) (hinj : ∀ a a', enc a = enc a' → a = a') :
    Sim pT pM (fun b a => R b a ∧ P a) := by
  intro src ts
  rcases h src ts with ⟨b, a, hR, src', u, kp, tk, ov, h1, h2⟩ | h
  · refine Or.inl ⟨b, a, ⟨hR, ?_⟩, src', u, kp, tk, ov, h1, h2⟩
    have r := h2 (fun a => .ret (enc a))
    rcases hy (fun a => .ret (enc a)) src ts with ⟨a', hP, src'', u', kp', tk', ov', _, heq⟩ | ⟨e, he, _⟩
    · rw [r] at heq
      have := congrArg Out.res heq
      simp only [Prog.run, after_res, Out.ofRes, Except.ok.injEq] at this
      rw [hinj a a' this]; exact hP
    · rw [r] at he
      simp [Prog.run, Out.ofRes] at he
  · exact Or.inr h

end Rapid
