/-
  RapidProofs.Bind — `Prog.bind` is sequencing.
-/
import RapidProofs.Replay

namespace Rapid

/-- run the continuation after a first part `o` -/
def Out.andThen (o : Out) (f : Val → Prog) : Out :=
  match o.res with
  | .ok v => ((f v).run o.src o.ts).after o.used o.kept o.toks o.evs o.overran
  | .error _ => o

theorem after_nil (o : Out) : o.after [] [] [] [] false = o := by
  cases o; simp [Out.after]

theorem andThen_after (o : Out) (f : Val → Prog) (u k : List UInt64) (t : List Tok) (e : List Ev) (ov : Bool) :
    (o.after u k t e ov).andThen f = (o.andThen f).after u k t e ov := by
  simp only [Out.andThen, after_res, after_srcproj, after_ts, after_used, after_kept, after_toks, after_evs, after_overran]
  cases o.res with
  | error e' => rfl
  | ok v => simp [Out.after, List.append_assoc, Bool.or_assoc]

theorem andThen_toks (o : Out) (f : Val → Prog) (t : List Tok) (h : ∃ e, o.res = .error e) :
    ({ o with toks := t } : Out).andThen f = { o.andThen f with toks := t } := by
  obtain ⟨e, he⟩ := h
  simp [Out.andThen, he]

/-- **bind is sequencing** -/
theorem run_bind (p : Prog) : ∀ (f : Val → Prog) (src : Src) (ts : TS),
    (p.bind f).run src ts = (p.run src ts).andThen f := by
  induction p with
  | ret v => intro f src ts; simp [Prog.bind, Prog.run, Out.andThen, Out.ofRes, after_nil]
  | throw e => intro f src ts; simp [Prog.bind, Prog.run, Out.andThen, Out.ofRes]
  | draw n k ih =>
    intro f src ts
    simp only [Prog.bind, Prog.run]
    cases src.next n with
    | none => simp [Out.andThen, Out.ofRes]
    | some r => simp only [ih, andThen_after]
  | group l s b d k _ ihk =>
    intro f src ts
    simp only [Prog.bind, Prog.run]
    cases hb : (b.run src ts).res with
    | error e => simp [Out.andThen, hb]
    | ok v =>
      simp only []
      split
      · simp [Out.andThen]
      · simp only [ihk, andThen_after]
  | catchInv b k _ ihk =>
    intro f src ts
    simp only [Prog.bind, Prog.run]
    cases hb : (b.run src ts).res with
    | ok v => simp only [ihk, andThen_after]
    | error e =>
      cases e with
      | invalid m => simp only [ihk, andThen_after]
      | stop m s => simp [Out.andThen, hb]
      | panic m s => simp [Out.andThen, hb]
      | fuel => simp [Out.andThen, hb]
  | errorf m k ih => intro f src ts; simp only [Prog.bind, Prog.run, ih, andThen_after]
  | failOnError site k ih =>
    intro f src ts
    simp only [Prog.bind, Prog.run]
    cases ts.failed with
    | some m => simp [Out.andThen, Out.ofRes]
    | none => exact ih f src ts
  | tick k ih => intro f src ts; simp only [Prog.bind, Prog.run, ih]
  | cleanup c k ih => intro f src ts; simp only [Prog.bind, Prog.run, ih]
  | ctx k ih =>
    intro f src ts
    simp only [Prog.bind, Prog.run]
    cases ts.ctx with
    | some id => simp only [ih, andThen_after]
    | none => simp only [ih, andThen_after]
  | inner b k _ ihk =>
    intro f src ts
    simp only [Prog.bind, Prog.run]
    cases (cleanupPhase (b.run src TS.fresh).ts).err with
    | some e =>
      simp only []
      cases hb : (b.run src TS.fresh).res with
      | error e0 => by_cases hk : (e.isInvalid && !e0.isInvalid) = true <;> simp [Out.andThen, hk]
      | ok v => simp [Out.andThen]
    | none =>
      simp only []
      cases hb : (b.run src TS.fresh).res with
      | error e => simp [Out.andThen, hb]
      | ok v => simp only [ihk, andThen_after]
  | emit id k ih => intro f src ts; simp only [Prog.bind, Prog.run, ih, andThen_after]

end Rapid
