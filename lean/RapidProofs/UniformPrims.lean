/-
  RapidProofs.UniformPrims — the primitives of utils.go (model) are uniform: what they do before they
  call their continuation does not depend on the continuation (`Uniform`, RapidProofs/Sim.lean).
  With the range contracts this gives simulations that carry the contract to the continuation.
-/
import RapidProofs.Sim

namespace Rapid

theorem uniform_coin (thr : UInt64) : Uniform (coin thr) :=
  Sim.drawGroup coinLabel false 53 _ _ _ _ (fun v k => k (v == vTrue)) (fun v k => k (v == vTrue)) _
    (fun _ => rfl) (fun _ => Sim.ret rfl)

theorem uniform_uintNoReject (max : UInt64) : Uniform (uintNoReject max) :=
  Sim.drawGroup intBitsLabel false (len64 max) _ _ _ _
    (fun v k => k (if vu v > max then max else vu v)) (fun v k => k (if vu v > max then max else vu v)) _
    (fun _ => rfl) (fun _ => Sim.ret rfl)

theorem uniform_uintUnbiased (max : UInt64) (fuel : Nat) : Uniform (fun k => uintUnbiased max k fuel) := by
  induction fuel with
  | zero => exact Sim.throw _ .fuel
  | succ fuel ih =>
    exact Sim.drawGroup intBitsLabel false (len64 max) _ _ _ _
      (fun v k => if vu v ≤ max then k (vu v) else uintUnbiased max k fuel)
      (fun v k => if vu v ≤ max then k (vu v) else uintUnbiased max k fuel) _
      (fun _ => rfl) (fun u => Sim.ite _ (fun _ => Sim.ret rfl) (fun _ => ih))

theorem uniform_uintBiasedLoop (max : UInt64) (n bl : Nat) (fuel : Nat) :
    Uniform (fun (k : UInt64 × Bool × Bool → Prog) => uintBiasedLoop max n bl (fun u l r => k (u, l, r)) fuel) := by
  induction fuel with
  | zero => exact Sim.throw _ .fuel
  | succ fuel ih =>
    exact Sim.drawGroup intBitsLabel false bl _ _ _ _
      (fun v (k : UInt64 × Bool × Bool → Prog) =>
        if (if bl > 64 then max else vu v) ≤ max then
          k ((if bl > 64 then max else vu v), ((if bl > 64 then max else vu v) == 0 && n == 1),
             ((if bl > 64 then max else vu v) == max && bl ≥ n))
        else uintBiasedLoop max n bl (fun u l r => k (u, l, r)) fuel)
      (fun v (k : UInt64 × Bool × Bool → Prog) =>
        if (if bl > 64 then max else vu v) ≤ max then
          k ((if bl > 64 then max else vu v), ((if bl > 64 then max else vu v) == 0 && n == 1),
             ((if bl > 64 then max else vu v) == max && bl ≥ n))
        else uintBiasedLoop max n bl (fun u l r => k (u, l, r)) fuel) _
      (fun _ => rfl) (fun u => Sim.ite _ (fun _ => Sim.ret rfl) (fun _ => ih))

theorem uniform_uintBiased (ft : FT) (max : UInt64) (fuel : Nat) :
    Uniform (fun (k : UInt64 × Bool × Bool → Prog) => uintBiased ft max fuel (fun u l r => k (u, l, r))) :=
  Sim.drawGroup biasLabel false 53 _ _ _ _
    (fun v (k : UInt64 × Bool × Bool → Prog) =>
      uintBiasedLoop max (match v with | .int i => i.toNat | _ => 0)
        (biasedBitlen (len64 max) (match v with | .int i => i.toNat | _ => 0)) (fun u l r => k (u, l, r)) fuel)
    (fun v (k : UInt64 × Bool × Bool → Prog) =>
      uintBiasedLoop max (match v with | .int i => i.toNat | _ => 0)
        (biasedBitlen (len64 max) (match v with | .int i => i.toNat | _ => 0)) (fun u l r => k (u, l, r)) fuel) _
    (fun _ => rfl) (fun _ => uniform_uintBiasedLoop max _ _ fuel)

theorem uniform_uintN (ft : FT) (max : UInt64) (bias : Bool) (fuel : Nat) :
    Uniform (fun (k : UInt64 × Bool × Bool → Prog) => uintN ft max bias fuel (fun u l r => k (u, l, r))) := by
  cases bias with
  | true => simp only [uintN, if_true]; exact uniform_uintBiased ft max fuel
  | false =>
    simp only [uintN, Bool.false_eq_true, if_false]
    exact (Sim.bind (uniform_uintUnbiased max fuel) (S := fun b a => b = a)
      (qT := fun u (k : UInt64 × Bool × Bool → Prog) => k (u, false, false))
      (qM := fun u (k : UInt64 × Bool × Bool → Prog) => k (u, false, false))
      (fun b a h => by subst h; exact Sim.ret rfl))

theorem uniform_uintRange (ft : FT) (min max : UInt64) (bias : Bool) (fuel : Nat) :
    Uniform (fun (k : UInt64 × Bool × Bool → Prog) => uintRange ft min max bias fuel (fun u l r => k (u, l, r))) := by
  simp only [uintRange]
  by_cases h : min > max
  · simp only [h, if_true]; exact Sim.throw _ _
  · simp only [h, if_false]
    exact (Sim.bind (uniform_uintN ft (max - min) bias fuel) (S := fun b a => b = a)
      (qT := fun x (k : UInt64 × Bool × Bool → Prog) => k (min + x.1, x.2.1, x.2.2))
      (qM := fun x (k : UInt64 × Bool × Bool → Prog) => k (min + x.1, x.2.1, x.2.2))
      (fun b a h => by subst h; exact Sim.ret rfl))

theorem uniform_intRange (ft : FT) (min max : Int64) (fuel : Nat) :
    Uniform (fun (k : Int64 × Bool × Bool → Prog) => intRange ft min max fuel (fun i l r => k (i, l, r))) := by
  simp only [intRange]
  by_cases h : min > max
  · simp only [h, if_true]; exact Sim.throw _ _
  · simp only [h, if_false]
    refine Sim.bind (uniform_coin _) (S := fun b a => b = a)
      (qT := fun neg (k : Int64 × Bool × Bool → Prog) =>
        if neg = true then
          uintRange ft (if min ≥ 0 then 0 else if max ≤ 0 then (-max).toUInt64 else 1) (-min).toUInt64 true fuel fun u l r =>
            k (-u.toInt64, r, l && decide (max ≤ 0))
        else uintRange ft (if min ≥ 0 then min.toUInt64 else 0) max.toUInt64 true fuel fun u l r =>
            k (u.toInt64, l && decide (min ≥ 0), r))
      (qM := fun neg (k : Int64 × Bool × Bool → Prog) =>
        if neg = true then
          uintRange ft (if min ≥ 0 then 0 else if max ≤ 0 then (-max).toUInt64 else 1) (-min).toUInt64 true fuel fun u l r =>
            k (-u.toInt64, r, l && decide (max ≤ 0))
        else uintRange ft (if min ≥ 0 then min.toUInt64 else 0) max.toUInt64 true fuel fun u l r =>
            k (u.toInt64, l && decide (min ≥ 0), r)) ?_
    intro b a hba
    subst hba
    refine Sim.ite _ (fun _ => ?_) (fun _ => ?_)
    · exact (Sim.bind (uniform_uintRange ft _ _ true fuel) (S := fun b a => b = a)
        (qT := fun x (k : Int64 × Bool × Bool → Prog) => k (-x.1.toInt64, x.2.2, x.2.1 && decide (max ≤ 0)))
        (qM := fun x (k : Int64 × Bool × Bool → Prog) => k (-x.1.toInt64, x.2.2, x.2.1 && decide (max ≤ 0)))
        (fun b a h => by subst h; exact Sim.ret rfl))
    · exact (Sim.bind (uniform_uintRange ft _ _ true fuel) (S := fun b a => b = a)
        (qT := fun x (k : Int64 × Bool × Bool → Prog) => k (x.1.toInt64, x.2.1 && decide (min ≥ 0), x.2.2))
        (qM := fun x (k : Int64 × Bool × Bool → Prog) => k (x.1.toInt64, x.2.1 && decide (min ≥ 0), x.2.2))
        (fun b a h => by subst h; exact Sim.ret rfl))

end Rapid
