/-
  RapidProofs.TranslatedChoiceEq — `sampledGen.value` (SampledFrom, Just) and `oneOfGen.value` (OneOf) of combinators.go as
  translated from /repo on every run: an index from `genIndex(len, true)` — the model's `index` — then the element at
  it / a draw from the generator at it.  A slice held in a field of the generator is a `List`; `x[i]` out of range is
  Go's runtime panic (`Go.idxP`), never reached because `index` yields `i < len`.
-/
import RapidProofs.TranslatedFindEq
import RapidProofs.TranslatedDataEq
import RapidProofs.UniformPrims
import RapidProofs.Contracts
namespace Rapid
open Rapid.Go

theorem u64_toInt64_toInt_small (u : UInt64) (h : u.toNat < 2 ^ 63) : u.toInt64.toInt = u.toNat := by
  have : u.toInt64.toInt = u.toBitVec.toInt := rfl
  rw [this, BitVec.toInt_eq_toNat_cond]
  simp only [UInt64.toNat_toBitVec]
  have : 2 * u.toNat < 2 ^ 64 := by omega
  simp [this]

theorem u64_toInt64_toInt_big (u : UInt64) (h : ¬ u.toNat < 2 ^ 63) : u.toInt64.toInt < 0 := by
  have : u.toInt64.toInt = u.toBitVec.toInt := rfl
  rw [this, BitVec.toInt_eq_toNat_cond]
  simp only [UInt64.toNat_toBitVec]
  have hlt := u.toNat_lt
  have : ¬ 2 * u.toNat < 2 ^ 64 := by omega
  simp [this]; omega

/-- `x[i]` with an index that came out of `genIndex` as a `uint64` -/
theorem idxP_u64 {α : Type} (l : List α) (hl : l.length < 2 ^ 62) (u : UInt64) (k : α → Prog) :
    Go.idxP l u.toInt64 k = match l[u.toNat]? with
      | some a => k a
      | none => .throw (.panic "index out of range" Go.siteRuntime) := by
  unfold Go.idxP Go.idx Go.pos?
  by_cases h : u.toNat < 2 ^ 63
  · rw [u64_toInt64_toInt_small u h]
    simp only [Int.natCast_nonneg, true_and, Int.toNat_natCast]
    by_cases h2 : u.toNat < l.length
    · simp [h2]
    · simp [h2, List.getElem?_eq_none (Nat.le_of_not_lt h2)]
  · have hneg := u64_toInt64_toInt_big u h
    have h2 : ¬ (0 ≤ u.toInt64.toInt ∧ u.toInt64.toInt.toNat < l.length) := by omega
    rw [if_neg h2]
    have : l.length ≤ u.toNat := by omega
    simp [List.getElem?_eq_none this]

/-- **`SampledFrom` of /repo**: an index from `genIndex(len, bias)` — the model's `index` — and the element at it -/
theorem tr_sampled {E : Type} [Go.Enc E] [Inhabited E] (fe : FEval) (ft : FT) (H : FloatFacts fe ft) (slice : List E)
    (hl : slice.length < 2 ^ 62) (fuel : Nat) (k : E → Prog) :
    RunEq (Translated.sampledGen_value fe slice fuel k)
      (index ft slice.length true fuel fun i => match slice[i]? with
        | some a => k a
        | none => .throw (.panic "index out of range" Go.siteRuntime)) := by
  simp only [Translated.sampledGen_value]
  rw [show Go.glen slice = Int64.ofNat slice.length from rfl]
  apply tr_genIndex fe ft H slice.length hl true fuel
  intro u
  rw [idxP_u64 slice hl u]
  exact RunEq.refl _

/-- **`OneOf` of /repo**: an index from `genIndex(len, bias)`, then a draw from the generator at it -/
theorem tr_oneOf {V : Type} [Go.Enc V] [Inhabited V] (fe : FEval) (ft : FT) (H : FloatFacts fe ft) (gens : List ((V → Prog) → Prog))
    (hl : gens.length < 2 ^ 62) (fuel : Nat) (k : V → Prog) :
    RunEq (Translated.oneOfGen_value fe gens fuel k)
      (index ft gens.length true fuel fun i => match gens[i]? with
        | some g => g k
        | none => .throw (.panic "index out of range" Go.siteRuntime)) := by
  simp only [Translated.oneOfGen_value]
  rw [show Go.glen gens = Int64.ofNat gens.length from rfl]
  apply tr_genIndex fe ft H gens.length hl true fuel
  intro u
  rw [idxP_u64 gens hl u]
  cases gens[u.toNat]? <;> exact RunEq.refl _

theorem uniform_index (ft : FT) (n : Nat) (bias : Bool) (fuel : Nat) : Uniform (index ft n bias fuel) := by
  unfold index
  by_cases h : n = 0
  · simp only [h, if_true]; exact Sim.throw _ _
  · simp only [h, if_false]
    intro src ts
    rcases uniform_uintN ft (UInt64.ofNat (n - 1)) bias fuel src ts with ⟨b, a, hR, src', u, kp, tk, ov, h1, h2⟩ | ⟨o, he, h1, h2⟩
    · subst hR
      exact Or.inl ⟨b.1.toNat, b.1.toNat, rfl, src', u, kp, tk, ov, fun k => h1 (fun x => k x.1.toNat), fun k => h1 (fun x => k x.1.toNat)⟩
    · exact Or.inr ⟨o, he, fun k => h1 (fun x => k x.1.toNat), fun k => h1 (fun x => k x.1.toNat)⟩

/-- what follows `index` matters only at indices below `n` -/
theorem index_congr (ft : FT) (n : Nat) (bias : Bool) (fuel : Nat) (hn : 0 < n) (hsmall : n ≤ 2 ^ 64) (k1 k2 : Nat → Prog)
    (hk : ∀ i, i < n → RunEq (k1 i) (k2 i)) : RunEq (index ft n bias fuel k1) (index ft n bias fuel k2) := by
  have hs := Sim.and_yields (uniform_index ft n bias fuel) (yields_index ft n bias fuel hn hsmall) (fun i => Val.int i)
    (by intro a a' h; simp only [Val.int.injEq] at h; exact Int.ofNat.inj h)
  intro src ts
  exact hs.runEq k1 k2 (fun b a hR => by obtain ⟨rfl, hlt⟩ := hR; exact hk _ hlt) src ts

/-- `SampledFrom` of the source against the `.sampled` case of the model: the model hands on the index, the source the
    element at it -/
theorem tr_sampled_model {E : Type} [Go.Enc E] [Inhabited E] (fe : FEval) (ft : FT) (H : FloatFacts fe ft) (slice : List E)
    (h0 : 0 < slice.length) (hl : slice.length < 2 ^ 62) (fuel : Nat) (k : E → Prog) (kM : Nat → Prog)
    (hk : ∀ i (hi : i < slice.length), RunEq (k slice[i]) (kM i)) :
    RunEq (Translated.sampledGen_value fe slice fuel k) (index ft slice.length true fuel kM) := by
  refine RunEq.trans (tr_sampled fe ft H slice hl fuel k) ?_
  apply index_congr ft slice.length true fuel h0 (by omega)
  intro i hi
  simp only [List.getElem?_eq_getElem hi]
  exact hk i hi

/-- `OneOf` of the source against an `index` whose continuation draws from the chosen generator -/
theorem tr_oneOf_model {V : Type} [Go.Enc V] [Inhabited V] (fe : FEval) (ft : FT) (H : FloatFacts fe ft) (gens : List ((V → Prog) → Prog))
    (h0 : 0 < gens.length) (hl : gens.length < 2 ^ 62) (fuel : Nat) (k : V → Prog) (kM : Nat → Prog)
    (hk : ∀ i (hi : i < gens.length), RunEq (gens[i] k) (kM i)) :
    RunEq (Translated.oneOfGen_value fe gens fuel k) (index ft gens.length true fuel kM) := by
  refine RunEq.trans (tr_oneOf fe ft H gens hl fuel k) ?_
  apply index_congr ft gens.length true fuel h0 (by omega)
  intro i hi
  simp only [List.getElem?_eq_getElem hi]
  exact hk i hi

end Rapid
