/-
  RapidProofs.FloatBits — the arithmetic of floats.go on bit patterns: what `ufloatNNParts` and
  `ufloatNNFromParts` compute as natural numbers, and that the order of the parts
  (exponent, integer significand, fractional significand), taken lexicographically, is the
  order of the magnitudes.
-/
import RapidModel.Float

namespace Rapid

/-! ### words as numbers -/

theorem bitmask64_toNat {n : Nat} (h : n < 64) : (bitmask64 n).toNat = 2 ^ n - 1 := by
  have hn : ¬ n ≥ 64 := by omega
  simp only [bitmask64, hn, if_false]
  have h1 : ((1 : UInt64) <<< n.toUInt64).toNat = 2 ^ n := by
    rw [UInt64.toNat_shiftLeft]
    have : n.toUInt64.toNat = n := by
      simp only [Nat.toUInt64, UInt64.toNat_ofNat']; apply Nat.mod_eq_of_lt; omega
    rw [this, Nat.mod_eq_of_lt h, Nat.shiftLeft_eq]
    simp only [UInt64.toNat_one, Nat.one_mul]
    apply Nat.mod_eq_of_lt
    exact Nat.pow_lt_pow_right (by decide) h
  have hpos : 0 < 2 ^ n := Nat.two_pow_pos n
  rw [UInt64.toNat_sub_of_le]
  · rw [h1]; rfl
  · rw [UInt64.le_iff_toNat_le, h1]; exact hpos

theorem toUInt64_toNat {n : Nat} (h : n < 64) : n.toUInt64.toNat = n := by
  simp only [Nat.toUInt64, UInt64.toNat_ofNat']; apply Nat.mod_eq_of_lt; omega

theorem and_mask_toNat (x : UInt64) {n : Nat} (h : n < 64) : (x &&& bitmask64 n).toNat = x.toNat % 2 ^ n := by
  rw [UInt64.toNat_and, bitmask64_toNat h, Nat.and_two_pow_sub_one_eq_mod]

theorem shr_toNat (x : UInt64) {n : Nat} (h : n < 64) : (x >>> n.toUInt64).toNat = x.toNat / 2 ^ n := by
  rw [UInt64.toNat_shiftRight, toUInt64_toNat h, Nat.mod_eq_of_lt h, Nat.shiftRight_eq_div_pow]

theorem shl_toNat (x : UInt64) {n : Nat} (h : n < 64) (hx : x.toNat * 2 ^ n < 2 ^ 64) :
    (x <<< n.toUInt64).toNat = x.toNat * 2 ^ n := by
  rw [UInt64.toNat_shiftLeft, toUInt64_toNat h, Nat.mod_eq_of_lt h, Nat.shiftLeft_eq, Nat.mod_eq_of_lt hx]

/-- `a·2ⁿ | b = a·2ⁿ + b` for `b < 2ⁿ` -/
theorem or_toNat_of_shl (a b : UInt64) {n : Nat} (h : n < 64) (ha : a.toNat * 2 ^ n < 2 ^ 64) (hb : b.toNat < 2 ^ n) :
    ((a <<< n.toUInt64) ||| b).toNat = a.toNat * 2 ^ n + b.toNat := by
  rw [UInt64.toNat_or, shl_toNat a h ha, ← Nat.shiftLeft_eq, ← Nat.shiftLeft_add_eq_or_of_lt hb]

/-! ### formats -/

/-- a format that fits a 64-bit word with its sign bit -/
structure FFmt.WF (f : FFmt) : Prop where
  hE : 1 ≤ f.E
  hSE : f.S + f.E < 64

theorem wf32 : fmt32.WF := ⟨by decide, by decide⟩
theorem wf64 : fmt64.WF := ⟨by decide, by decide⟩

theorem FFmt.bias_eq (f : FFmt) (h : f.WF) : f.bias = 2 ^ (f.E - 1) - 1 := by
  have := h.hE; have := h.hSE
  simp only [FFmt.bias]; rw [bitmask64_toNat (by omega)]

theorem FFmt.mag_toNat (f : FFmt) (h : f.WF) (b : UInt64) : (f.mag b).toNat = b.toNat % 2 ^ (f.S + f.E) := by
  have := h.hSE
  simp only [FFmt.mag]; rw [and_mask_toNat _ (by omega)]

theorem FFmt.mag_lt (f : FFmt) (h : f.WF) (b : UInt64) : (f.mag b).toNat < 2 ^ (f.S + f.E) := by
  rw [f.mag_toNat h]; exact Nat.mod_lt _ (Nat.two_pow_pos _)

theorem fracBits_le (e : Int) (S : Nat) : fracBits e S ≤ S := by
  unfold fracBits; split
  · exact Nat.le_refl _
  · split <;> omega

/-! ### the parts as numbers -/

/-- the parts of the magnitude `u`, as numbers -/
def nE (f : FFmt) (u : Nat) : Int := ((u / 2 ^ f.S : Nat) : Int) - (f.bias : Int)
def nFrac (f : FFmt) (u : Nat) : Nat := fracBits (nE f u) f.S
def nSI (f : FFmt) (u : Nat) : Nat := (u % 2 ^ f.S) / 2 ^ nFrac f u
def nSF (f : FFmt) (u : Nat) : Nat := (u % 2 ^ f.S) % 2 ^ nFrac f u

theorem parts_spec (f : FFmt) (h : f.WF) (b : UInt64) :
    (f.parts b).1 = nE f (f.mag b).toNat ∧
    (f.parts b).2.1.toNat = nSI f (f.mag b).toNat ∧
    (f.parts b).2.2.toNat = nSF f (f.mag b).toNat := by
  have hS : f.S < 64 := by have := h.hSE; omega
  have h1 : (f.parts b).1 = nE f (f.mag b).toNat := by
    simp only [FFmt.parts, nE]; rw [shr_toNat _ hS]
  have hn : fracBits (f.parts b).1 f.S < 64 := Nat.lt_of_le_of_lt (fracBits_le _ _) hS
  refine ⟨h1, ?_, ?_⟩
  · have : (f.parts b).2.1 = ((f.mag b) &&& bitmask64 f.S) >>> (fracBits (f.parts b).1 f.S).toUInt64 := rfl
    rw [this, shr_toNat _ hn, and_mask_toNat _ hS, h1]; rfl
  · have : (f.parts b).2.2 = ((f.mag b) &&& bitmask64 f.S) &&& bitmask64 (fracBits (f.parts b).1 f.S) := rfl
    rw [this, and_mask_toNat _ hn, and_mask_toNat _ hS, h1]; rfl

/-- the magnitude with exponent `e`, integer significand `si`, fractional significand `sf` -/
def fval (f : FFmt) (e : Int) (si sf : Nat) : Nat :=
  (e + f.bias).toNat * 2 ^ f.S + (si * 2 ^ fracBits e f.S + sf)

/-- parts that denote a magnitude of the format -/
structure PartsOK (f : FFmt) (e : Int) (si sf : Nat) : Prop where
  e_lo : 0 ≤ e + f.bias
  e_hi : (e + f.bias).toNat < 2 ^ f.E
  si_lt : si < 2 ^ (f.S - fracBits e f.S)
  sf_lt : sf < 2 ^ fracBits e f.S

theorem pow_split (S n : Nat) (h : n ≤ S) : 2 ^ (S - n) * 2 ^ n = 2 ^ S := by
  rw [← Nat.pow_add]; congr 1; omega

/-- the significand of valid parts is below `2^S` -/
theorem sig_lt (f : FFmt) {e : Int} {si sf : Nat} (h : PartsOK f e si sf) :
    si * 2 ^ fracBits e f.S + sf < 2 ^ f.S := by
  have hs := pow_split f.S (fracBits e f.S) (fracBits_le _ _)
  have h1 : (si + 1) * 2 ^ fracBits e f.S ≤ 2 ^ (f.S - fracBits e f.S) * 2 ^ fracBits e f.S :=
    Nat.mul_le_mul_right _ h.si_lt
  rw [hs, Nat.add_mul] at h1
  have := h.sf_lt
  omega

theorem fval_lt (f : FFmt) {e : Int} {si sf : Nat} (h : PartsOK f e si sf) : fval f e si sf < 2 ^ (f.S + f.E) := by
  have h1 := sig_lt f h
  have h2 : (e + f.bias).toNat + 1 ≤ 2 ^ f.E := by have := h.e_lo; have := h.e_hi; omega
  have h3 : ((e + f.bias).toNat + 1) * 2 ^ f.S ≤ 2 ^ f.E * 2 ^ f.S := Nat.mul_le_mul_right _ h2
  rw [Nat.add_mul, ← Nat.pow_add, Nat.add_comm f.E f.S] at h3
  unfold fval; omega

/-- the parts of a magnitude are valid and denote it -/
theorem parts_ok (f : FFmt) (u : Nat) (hu : u < 2 ^ (f.S + f.E)) :
    PartsOK f (nE f u) (nSI f u) (nSF f u) ∧ fval f (nE f u) (nSI f u) (nSF f u) = u := by
  have hW : 0 < 2 ^ f.S := Nat.two_pow_pos _
  have hbe : u / 2 ^ f.S < 2 ^ f.E := by
    apply Nat.div_lt_of_lt_mul; rw [← Nat.pow_add]; exact hu
  have hP : 0 < 2 ^ nFrac f u := Nat.two_pow_pos _
  have hsplit := pow_split f.S (nFrac f u) (fracBits_le _ _)
  have he1 : 0 ≤ nE f u + f.bias := by
    simp only [nE]; generalize u / 2 ^ f.S = q; omega
  have he2 : (nE f u + f.bias).toNat = u / 2 ^ f.S := by
    simp only [nE]; generalize u / 2 ^ f.S = q; omega
  refine ⟨⟨he1, by rw [he2]; exact hbe, ?_, ?_⟩, ?_⟩
  · show (u % 2 ^ f.S) / 2 ^ nFrac f u < 2 ^ (f.S - nFrac f u)
    apply Nat.div_lt_of_lt_mul
    rw [Nat.mul_comm, hsplit]; exact Nat.mod_lt _ hW
  · exact Nat.mod_lt _ hP
  · have h1 := he2
    have h2 : nSI f u * 2 ^ fracBits (nE f u) f.S + nSF f u = u % 2 ^ f.S := by
      show (u % 2 ^ f.S) / 2 ^ nFrac f u * 2 ^ nFrac f u + (u % 2 ^ f.S) % 2 ^ nFrac f u = u % 2 ^ f.S
      rw [Nat.mul_comm]; exact Nat.div_add_mod _ _
    unfold fval; rw [h1, h2, Nat.mul_comm]; exact Nat.div_add_mod _ _

/-- the order of the magnitudes is the lexicographic order of (exponent, significand) -/
theorem fval_le_of (f : FFmt) {e e' : Int} {si sf si' sf' : Nat} (h : PartsOK f e si sf) (h' : PartsOK f e' si' sf')
    (hle : e < e' ∨ (e = e' ∧ si * 2 ^ fracBits e f.S + sf ≤ si' * 2 ^ fracBits e' f.S + sf')) :
    fval f e si sf ≤ fval f e' si' sf' := by
  rcases hle with hlt | ⟨heq, hs⟩
  · have h1 := sig_lt f h
    have h2 : (e + f.bias).toNat + 1 ≤ (e' + f.bias).toNat := by have := h.e_lo; omega
    have h3 := Nat.mul_le_mul_right (2 ^ f.S) h2
    rw [Nat.add_mul] at h3
    unfold fval; omega
  · subst heq; unfold fval; omega

/-- from an order of magnitudes back to the parts -/
theorem parts_le_of (f : FFmt) {u u' : Nat} (hle : u ≤ u') :
    nE f u ≤ nE f u' ∧ (nE f u = nE f u' → (nSI f u < nSI f u' ∨ (nSI f u = nSI f u' ∧ nSF f u ≤ nSF f u'))) := by
  have hW : 0 < 2 ^ f.S := Nat.two_pow_pos _
  have hdiv : u / 2 ^ f.S ≤ u' / 2 ^ f.S := Nat.div_le_div_right hle
  refine ⟨by simp only [nE]; generalize u / 2 ^ f.S = q at *; generalize u' / 2 ^ f.S = q' at *; omega, ?_⟩
  intro heq
  have hq : u / 2 ^ f.S = u' / 2 ^ f.S := by
    simp only [nE] at heq; generalize u / 2 ^ f.S = q at *; generalize u' / 2 ^ f.S = q' at *; omega
  have hn : nFrac f u = nFrac f u' := by simp only [nFrac, heq]
  have hm : u % 2 ^ f.S ≤ u' % 2 ^ f.S := by
    have h1 := Nat.div_add_mod u (2 ^ f.S); have h2 := Nat.div_add_mod u' (2 ^ f.S)
    rw [hq] at h1; omega
  simp only [nSI, nSF, hn]
  have hP : 0 < 2 ^ nFrac f u' := Nat.two_pow_pos _
  have hd : u % 2 ^ f.S / 2 ^ nFrac f u' ≤ u' % 2 ^ f.S / 2 ^ nFrac f u' := Nat.div_le_div_right hm
  rcases Nat.lt_or_ge (u % 2 ^ f.S / 2 ^ nFrac f u') (u' % 2 ^ f.S / 2 ^ nFrac f u') with hlt | hge
  · exact Or.inl hlt
  · right
    have hq2 : u % 2 ^ f.S / 2 ^ nFrac f u' = u' % 2 ^ f.S / 2 ^ nFrac f u' := by omega
    refine ⟨hq2, ?_⟩
    have h1 := Nat.div_add_mod (u % 2 ^ f.S) (2 ^ nFrac f u'); have h2 := Nat.div_add_mod (u' % 2 ^ f.S) (2 ^ nFrac f u')
    rw [hq2] at h1; omega

theorem ofInt_add_toNat (e : Int) (b : UInt64) (h0 : 0 ≤ e + b.toNat) (h1 : e + b.toNat < 2 ^ 64) :
    ((Int64.ofInt e).toUInt64 + b).toNat = (e + b.toNat).toNat := by
  have hb := b.toNat_lt
  have ha : (Int64.ofInt e).toUInt64.toNat = (e % 2 ^ 64).toNat := by
    show (BitVec.ofInt 64 e).toNat = _
    rw [BitVec.toNat_ofInt]; rfl
  rw [UInt64.toNat_add, ha]
  omega

/-- `ufloatNNFromParts` on valid parts: the magnitude they denote -/
theorem ufromParts_toNat (f : FFmt) (h : f.WF) {e : Int} {si sf : UInt64} (hok : PartsOK f e si.toNat sf.toNat) :
    (f.ufromParts e si sf).toNat = fval f e si.toNat sf.toNat := by
  have hE := h.hE; have hSE := h.hSE
  have hS : f.S < 64 := by omega
  have hn : fracBits e f.S ≤ f.S := fracBits_le _ _
  have hbias : (bitmask64 (f.E - 1)).toNat = f.bias := rfl
  have hbl : f.bias < 2 ^ 62 := by
    rw [f.bias_eq h]
    have : 2 ^ (f.E - 1) ≤ 2 ^ 62 := Nat.pow_le_pow_right (by decide) (by omega)
    omega
  have hElt : 2 ^ f.E ≤ 2 ^ 63 := Nat.pow_le_pow_right (by decide) (by omega)
  have he := hok.e_lo; have he2 := hok.e_hi
  have hx : ((Int64.ofInt e).toUInt64 + bitmask64 (f.E - 1)).toNat = (e + f.bias).toNat := by
    rw [ofInt_add_toNat e _ (by rw [hbias]; exact he) (by rw [hbias]; omega), hbias]
  have hsig := sig_lt f hok
  have hval := fval_lt f hok
  have hpow : 2 ^ (f.S + f.E) ≤ 2 ^ 63 := Nat.pow_le_pow_right (by decide) (by omega)
  have hS2 : 2 ^ f.S ≤ 2 ^ 63 := Nat.pow_le_pow_right (by decide) (by omega)
  -- the significand word
  have hs : ((si <<< (fracBits e f.S).toUInt64) ||| sf).toNat = si.toNat * 2 ^ fracBits e f.S + sf.toNat := by
    apply or_toNat_of_shl _ _ (by omega) _ hok.sf_lt
    have : si.toNat * 2 ^ fracBits e f.S ≤ si.toNat * 2 ^ fracBits e f.S + sf.toNat := Nat.le_add_right _ _
    omega
  -- exponent word | significand word
  have hall : ((((Int64.ofInt e).toUInt64 + bitmask64 (f.E - 1)) <<< f.S.toUInt64) |||
      ((si <<< (fracBits e f.S).toUInt64) ||| sf)).toNat = fval f e si.toNat sf.toNat := by
    rw [or_toNat_of_shl _ _ hS _ (by rw [hs]; exact hsig), hx, hs]
    · rfl
    · rw [hx]; unfold fval at hval; omega
  unfold FFmt.ufromParts
  by_cases hw : 1 + f.E + f.S ≥ 64
  · have : bitmask64 (1 + f.E + f.S) = 0xFFFFFFFFFFFFFFFF := by simp [bitmask64, hw]
    rw [this]
    have hff : ∀ x : UInt64, x &&& 0xFFFFFFFFFFFFFFFF = x := by
      intro x; apply UInt64.eq_of_toBitVec_eq; simp
      apply BitVec.eq_of_toNat_eq; simp
      have : (18446744073709551615 : Nat) = 2 ^ 64 - 1 := by decide
      rw [this, Nat.and_two_pow_sub_one_eq_mod]; exact Nat.mod_eq_of_lt x.toBitVec.isLt
    rw [hff]; exact hall
  · rw [and_mask_toNat _ (by omega), hall]
    apply Nat.mod_eq_of_lt
    have : 2 ^ (f.S + f.E) ≤ 2 ^ (1 + f.E + f.S) := Nat.pow_le_pow_right (by decide) (by omega)
    omega

/-! ### sign and magnitude -/

theorem FFmt.signBit_toNat (f : FFmt) (h : f.WF) : f.signBit.toNat = 2 ^ (f.S + f.E) := by
  have := h.hSE
  simp only [FFmt.signBit]
  rw [shl_toNat _ (by omega)]
  · simp
  · simp only [UInt64.toNat_one, Nat.one_mul]; exact Nat.pow_lt_pow_right (by decide) (by omega)

theorem FFmt.isNeg_iff (f : FFmt) (h : f.WF) (b : UInt64) : f.isNeg b = b.toNat.testBit (f.S + f.E) := by
  simp only [FFmt.isNeg]
  have h1 : (b &&& f.signBit).toNat = b.toNat &&& 2 ^ (f.S + f.E) := by rw [UInt64.toNat_and, f.signBit_toNat h]
  cases hb : b.toNat.testBit (f.S + f.E)
  · have : b.toNat &&& 2 ^ (f.S + f.E) = 0 := by
      apply Nat.eq_of_testBit_eq; intro i
      simp only [Nat.testBit_and, Nat.testBit_two_pow, Nat.zero_testBit]
      by_cases hi : f.S + f.E = i
      · subst hi; simp [hb]
      · simp [hi]
    have h0 : b &&& f.signBit = 0 := by rw [u64_zero_iff]; rw [h1, this]
    simp [h0]
  · have : (b &&& f.signBit) ≠ 0 := by
      intro h0
      have h2 : (b.toNat &&& 2 ^ (f.S + f.E)).testBit (f.S + f.E) = true := by
        simp [Nat.testBit_and, Nat.testBit_two_pow_self, hb]
      rw [← h1, h0] at h2; simp at h2
    simp [this]
where
  u64_zero_iff {x : UInt64} : x = 0 ↔ x.toNat = 0 := by
    constructor
    · intro h; rw [h]; rfl
    · intro h; apply UInt64.toNat_inj.mp; rw [h]; rfl

theorem FFmt.mag_fneg (f : FFmt) (h : f.WF) (b : UInt64) : f.mag (f.fneg b) = f.mag b := by
  apply UInt64.toNat_inj.mp
  rw [f.mag_toNat h, f.mag_toNat h]
  simp only [FFmt.fneg, UInt64.toNat_xor, f.signBit_toNat h]
  rw [Nat.xor_mod_two_pow, Nat.mod_self, Nat.xor_zero]

theorem FFmt.isNeg_fneg (f : FFmt) (h : f.WF) (b : UInt64) : f.isNeg (f.fneg b) = !f.isNeg b := by
  rw [f.isNeg_iff h, f.isNeg_iff h]
  simp only [FFmt.fneg, UInt64.toNat_xor, f.signBit_toNat h, Nat.testBit_xor, Nat.testBit_two_pow_self]
  cases b.toNat.testBit (f.S + f.E) <;> rfl

theorem FFmt.isNeg_of_lt (f : FFmt) (h : f.WF) {u : UInt64} (hu : u.toNat < 2 ^ (f.S + f.E)) : f.isNeg u = false := by
  rw [f.isNeg_iff h]; exact Nat.testBit_lt_two_pow hu

theorem FFmt.mag_of_lt (f : FFmt) (h : f.WF) {u : UInt64} (hu : u.toNat < 2 ^ (f.S + f.E)) : f.mag u = u := by
  apply UInt64.toNat_inj.mp; rw [f.mag_toNat h]; exact Nat.mod_eq_of_lt hu

/-- `key (−x) = −key x` -/
theorem FFmt.key_fneg (f : FFmt) (h : f.WF) (b : UInt64) : f.key (f.fneg b) = - f.key b := by
  simp only [FFmt.key, f.mag_fneg h, f.isNeg_fneg h]
  cases f.isNeg b <;> simp

/-- pairs (integer, fractional significand) compare like their significands -/
theorem pair_le {P i f i' f' : Nat} (hf : f < P) (h : i < i' ∨ (i = i' ∧ f ≤ f')) : i * P + f ≤ i' * P + f' := by
  rcases h with hlt | ⟨rfl, hle⟩
  · have := Nat.mul_le_mul_right P (show i + 1 ≤ i' from hlt)
    rw [Nat.add_mul] at this; omega
  · omega

end Rapid
