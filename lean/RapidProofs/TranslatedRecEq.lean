/-
  RapidProofs.TranslatedRecEq — the recording calls of data.go (`record`, `beginGroup`, `endGroup`, as translated from
  /repo on every run), replayed over the tokens of any run (`srcRecGo`), build exactly the model's recording
  `recOfToks` — no assertion fires, same data, same group list.  With `TranslatedPruneEq` and `PruneLiteralRun`:
  the source's recording of a run, pruned by the source's `prune()`, is the pruned recording of the theorems.
-/
import RapidModel.SrcRec
import RapidProofs.TranslatedPruneEq
import RapidProofs.PruneLiteralRun

namespace Rapid
open Rapid.Go Forest

theorem goOf_open (l : String) (s : Bool) (o : Nat) :
    goOf ⟨l, s, o, -1, false⟩ = { begin := Int64.ofNat o, end_ := -1, label := l, standalone := s, discard := false } := by
  simp only [goOf, I_nat]; rfl

theorem wfne_of_app (a b : Forest) (h : (a.app b).WFne) : a.WFne ∧ b.WFne := by
  induction a with
  | nil => exact ⟨trivial, h⟩
  | w u t ih => exact ih h
  | grp l s b' d t _ iht => exact ⟨⟨h.1, (iht h.2.1).1, h.2.2⟩, (iht h.2.1).2⟩
  | opn l s t ih => exact ih h

theorem fin_length_le (F : Forest) : ∀ o, (F.fin o).length = (F.fin 0).length := fun o => fin_length F o 0

/-- the source's recording calls, replayed over the tokens of a forest, append its words and its layout -/
theorem srcRecGo_rep {toks : List Tok} {F : Forest} (h : Rep toks F) : F.WFne →
    ∀ (rest : List Tok) (d : List UInt64) (gs : List GI) (st : List Int64),
    d.length + F.size < 2 ^ 62 → gs.length + (F.fin 0).length < 2 ^ 61 →
    srcRecGo (toks ++ rest) d (gs.map goOf) st = srcRecGo rest (d ++ F.words) ((gs ++ F.fin d.length).map goOf) st := by
  induction h with
  | nil => intro _ rest d gs st _ _; simp [Forest.words, Forest.fin]
  | @w u t F _ ih =>
    intro hw rest d gs st hd hg
    simp only [List.cons_append, srcRecGo, tr_record, if_true]
    simp only [size_w] at hd
    simp only [Forest.fin] at hg
    rw [fin_length_le F] at hg
    rw [ih hw rest (d ++ [u]) gs st (by simp; omega) hg]
    simp [Forest.words, Forest.fin]
  | @grp l s dis tb t Fb Ft _ _ ihb iht =>
    intro hw rest d gs st hd hg
    simp only [size_grp] at hd
    simp only [Forest.fin, List.length_cons, List.length_append] at hg
    rw [fin_length_le Ft] at hg
    obtain ⟨g, hbg, hgi⟩ := tr_beginGroup d (gs.map goOf) 0 l s (by omega) (by simp; omega)
    have hg0 : g = goOf ⟨l, s, d.length, -1, false⟩ := by
      -- the new entry is determined by what `beginGroup` wrote
      have h1 := hbg
      simp only [Translated.recordedBits_beginGroup, Bool.not_true, Bool.false_eq_true, if_false, pure, Except.pure, Except.ok.injEq,
        Prod.mk.injEq] at h1
      have := h1.2.2.1
      have h2 := List.append_cancel_left this
      simp only [List.cons.injEq, and_true] at h2
      rw [← h2, goOf_open]; rfl
    simp only [List.cons_append, List.append_assoc, srcRecGo, hbg]
    rw [hg0, show gs.map goOf ++ [goOf (⟨l, s, d.length, -1, false⟩ : GI)] = (gs ++ [(⟨l, s, d.length, -1, false⟩ : GI)]).map goOf by simp]
    rw [List.length_map, ihb hw.1 _ d (gs ++ [(⟨l, s, d.length, -1, false⟩ : GI)]) _ (by omega) (by simp; omega)]
    -- the closing call
    have hlen : ((gs ++ [(⟨l, s, d.length, -1, false⟩ : GI)] ++ Fb.fin d.length).map goOf).length < 2 ^ 62 := by
      simp; rw [fin_length_le Fb]; omega
    have hi : gs.length < ((gs ++ [(⟨l, s, d.length, -1, false⟩ : GI)] ++ Fb.fin d.length).map goOf).length := by simp
    have hend := tr_endGroup (d ++ Fb.words) ((gs ++ [(⟨l, s, d.length, -1, false⟩ : GI)] ++ Fb.fin d.length).map goOf) 0 gs.length dis hi hlen
    have hgeti : ((gs ++ [(⟨l, s, d.length, -1, false⟩ : GI)] ++ Fb.fin d.length).map goOf)[gs.length]'hi = goOf ⟨l, s, d.length, -1, false⟩ := by
      simp [List.getElem_append_left, List.getElem_append_right]
    have hcond : (dis || decide (Go.glen (d ++ Fb.words) > (goOf ⟨l, s, d.length, -1, false⟩).begin)) = true := by
      cases dis with
      | true => rfl
      | false =>
        have hpos : 0 < Fb.size := hw.2.2 rfl
        simp only [Bool.false_or, goOf, I_nat]
        rw [show Go.glen (d ++ Fb.words) = Int64.ofNat (d ++ Fb.words).length from rfl,
          i64_gt_ofNat (by simp [Forest.size] at hd ⊢; omega) _ (by omega)]
        simp [Forest.size] at hpos ⊢; omega
    rw [hgeti, hcond] at hend
    simp only [if_true] at hend
    simp only [srcRecGo, hend]
    have hmod : ((gs ++ [(⟨l, s, d.length, -1, false⟩ : GI)] ++ Fb.fin d.length).map goOf).modify gs.length
        (fun g => { g with end_ := Go.glen (d ++ Fb.words), discard := dis }) =
        (gs ++ [(⟨l, s, d.length, ((d.length + Fb.size : Nat) : Int), dis⟩ : GI)] ++ Fb.fin d.length).map goOf := by
      rw [show gs ++ [(⟨l, s, d.length, -1, false⟩ : GI)] ++ Fb.fin d.length = gs ++ (⟨l, s, d.length, -1, false⟩ : GI) :: Fb.fin d.length by simp]
      rw [List.map_append, List.map_cons, show gs.length = (gs.map goOf).length by simp, modify_mid]
      simp only [List.map_append, List.map_cons, List.map_nil, List.append_assoc, List.cons_append, List.nil_append]
      congr 2
      simp only [goOf, I_nat, Go.glen, List.length_append, Forest.size]
    rw [hmod]
    rw [iht hw.2.1 rest (d ++ Fb.words) _ st (by simp [Forest.size] at hd ⊢; omega)
      (by simp; rw [fin_length_le Fb]; omega)]
    simp [Forest.words, Forest.fin, Forest.size]
  | @abt l s tb t Fb Ft _ _ ihb iht =>
    intro hw rest d gs st hd hg
    have hwb : Fb.WFne ∧ Ft.WFne := wfne_of_app Fb Ft hw
    simp only [size_opn, size_app] at hd
    simp only [Forest.fin, List.length_cons, fin_app, List.length_append] at hg
    rw [fin_length_le Ft] at hg
    obtain ⟨g, hbg, hgi⟩ := tr_beginGroup d (gs.map goOf) 0 l s (by omega) (by simp; omega)
    have hg0 : g = goOf ⟨l, s, d.length, -1, false⟩ := by
      have h1 := hbg
      simp only [Translated.recordedBits_beginGroup, Bool.not_true, Bool.false_eq_true, if_false, pure, Except.pure, Except.ok.injEq,
        Prod.mk.injEq] at h1
      have := h1.2.2.1
      have h2 := List.append_cancel_left this
      simp only [List.cons.injEq, and_true] at h2
      rw [← h2, goOf_open]; rfl
    simp only [List.cons_append, List.append_assoc, srcRecGo, hbg]
    rw [hg0, show gs.map goOf ++ [goOf (⟨l, s, d.length, -1, false⟩ : GI)] = (gs ++ [(⟨l, s, d.length, -1, false⟩ : GI)]).map goOf by simp]
    rw [List.length_map, ihb hwb.1 _ d (gs ++ [(⟨l, s, d.length, -1, false⟩ : GI)]) _ (by omega) (by simp; omega)]
    simp only [srcRecGo, List.tail_cons]
    rw [iht hwb.2 rest (d ++ Fb.words) _ st (by simp [Forest.size] at hd ⊢; omega)
      (by simp; rw [fin_length_le Fb]; omega)]
    simp [Forest.words, Forest.fin, fin_app, Forest.size]

theorem fin_bounds (F : Forest) : ∀ p, ∀ e ∈ F.fin p, e.begin ≤ p + F.size ∧ -1 ≤ e.end_ := by
  induction F with
  | nil => intro p e he; cases he
  | w u t ih =>
    intro p e he
    have := ih (p + 1) e he
    simp only [size_w]; omega
  | grp l s b d t ihb iht =>
    intro p e he
    simp only [Forest.fin, List.mem_cons, List.mem_append] at he
    simp only [size_grp]
    rcases he with rfl | he | he
    · simp only; omega
    · have := ihb p e he; omega
    · have := iht (p + b.size) e he; omega
  | opn l s t ih =>
    intro p e he
    simp only [Forest.fin, List.mem_cons] at he
    simp only [size_opn]
    rcases he with rfl | he
    · simp only; omega
    · exact ih p e he

/-- the recording of a run is `Small` as soon as its two lengths are -/
theorem small_of_run (p : Prog) (src : Src) (ts : TS)
    (hd : (recOfToks (p.run src ts).toks).data.length < 2 ^ 62) (hg : (recOfToks (p.run src ts).toks).groups.length < 2 ^ 61) :
    (recOfToks (p.run src ts).toks).Small := by
  obtain ⟨F, hrep, _, _⟩ := run_rep p src ts
  have hrec : recOfToks (p.run src ts).toks = ⟨F.words, F.fin 0⟩ := by
    have := recGo_rep hrep [] .empty []
    simpa [recOfToks, recGo, Rec.empty] using this
  rw [hrec] at hd hg ⊢
  refine ⟨hd, hg, ?_⟩
  intro g hgm
  have h1 := fin_bounds F 0 g hgm
  have h2 := fin_end_le F 0 g hgm
  simp only [Forest.size] at h1 h2
  simp only at hd
  exact ⟨by omega, h1.2, by omega⟩

/-- **the source's recording calls on the tokens of any run give the model's recording** (`recOfToks`): `record`,
    `beginGroup`, `endGroup` as translated from /repo, replayed in the order of the run, never stop at an assertion
    and leave the data and the group list of the model -/
theorem srcRecGo_of_run (p : Prog) (src : Src) (ts : TS)
    (hd : (recOfToks (p.run src ts).toks).data.length < 2 ^ 62) (hg : (recOfToks (p.run src ts).toks).groups.length < 2 ^ 61) :
    srcRecGo (p.run src ts).toks [] [] [] =
      some ((recOfToks (p.run src ts).toks).data, (recOfToks (p.run src ts).toks).groups.map goOf) := by
  obtain ⟨F, hrep, hwf, _⟩ := run_rep p src ts
  have hrec : recOfToks (p.run src ts).toks = ⟨F.words, F.fin 0⟩ := by
    have := recGo_rep hrep [] .empty []
    simpa [recOfToks, recGo, Rec.empty] using this
  rw [hrec] at hd hg ⊢
  have := srcRecGo_rep hrep hwf [] [] [] [] (by simpa [Forest.size] using hd) (by simpa using hg)
  simpa [srcRecGo] using this

end Rapid
