/-
  RapidProofs.PruneCustomAssert — `prune()`'s assertion ("no group is empty") never fires for
  property functions over generators with quiet Custom functions nested to any depth: `PruneOK`,
  the hypothesis of the refinement of the shrinker's passes, holds for them too.
-/
import RapidProofs.PruneAssert
import RapidProofs.PruneCustom

namespace Rapid

theorem gk_customTry {body : Prog} (hb : GK body) : GK (customTry body) :=
  GK.inner _ _ (GK.catchInv _ _ hb (fun _ _ => GK.ret _)) (fun _ => GK.ret _)

theorem gk_custom (e : Env) (lab : Bool) {body : Prog} (h : CustomOK body) (hb : GK body) :
    GK (Gen.body e lab (.custom body)) := by
  simp only [Gen.body]
  rw [customTry_eq body _ (fun o d => by cases o <;> rfl)]
  exact gk_findLoop' _ _ _ (gk_customTry hb) (fun src ts v hr ha hu => keeps_customTry h src ts v hr ha hu)
    (fun r => by cases r <;> exact GK.ret _) 5

theorem quietProg_gk {e : Env} {G : Gen → Prop} (hG : ∀ g, G g → GenGood (g.value e)) (hGk : ∀ g, G g → GK (g.value e))
    {p : Prog} (h : QuietProgOver e G p) : GK p := by
  induction h with
  | ret v => exact GK.ret v
  | skip m => exact GK.throw _
  | panic m s => exact GK.throw _
  | draw g k hg _ ih => exact gk_bind (hGk g hg) (fun v => GK.tick _ (ih v))
  | emit id k _ ih => exact GK.emit _ _ ih
  | ctx k _ ih => exact GK.ctx _ ih
  | cleanup c k _ _ ih => exact GK.cleanup _ _ ih

theorem genLvl_gk (e : Env) (hrt : RTPos e) : ∀ (d : Nat) (g : Gen) (lab : Bool), GenLvl e d g → GK (g.body e lab) := by
  intro d
  induction d with
  | zero => intro g lab h; exact gen_gk e hrt g lab h
  | succ d ih =>
    intro g lab h
    have hG : ∀ g, GenLvl e d g → GenGood (g.value e) := fun g hg => genLvl_value_good e hrt d g hg
    have hGk : ∀ g, GenLvl e d g → GK (g.value e) := fun g hg =>
      gk_wrapValue _ (ih g _ hg) (genLvl_good e hrt d g _ hg).fk
    exact gen_gkB e hrt _
      (fun body lab hb => gg_custom e lab (customOK_of_quiet hG hb))
      (fun body lab hb => gk_custom e lab (customOK_of_quiet hG hb) (quietProg_gk hG hGk hb)) g lab h

theorem propProgC_gk (e : Env) (hrt : RTPos e) {d : Nat} {p : Prog} (h : PropProgC e d p) : GK p := by
  induction h with
  | ret v => exact GK.ret v
  | throw er => exact GK.throw er
  | draw g k hg _ ih =>
    exact gk_bind (gk_wrapValue _ (genLvl_gk e hrt d g _ hg) (genLvl_good e hrt d g _ hg).fk) (fun v => GK.tick _ (ih v))
  | errorf m k _ ih => exact GK.errorf _ _ ih
  | emit id k _ ih => exact GK.emit _ _ ih
  | cleanup c k _ ih => exact GK.cleanup _ _ ih
  | ctx k _ ih => exact GK.ctx _ ih
  | failOnError site k _ ih => exact GK.failOnError _ _ ih

/-- **`PruneOK` for properties over generators with quiet Custom functions** -/
theorem pruneOK_of_propProgC (e : Env) (hrt : RTPos e) {d : Nat} {p : Prog} (h : PropProgC e d p) : PruneOK p :=
  pruneOK_of_gk (propProgC_gk e hrt h)

end Rapid
