/-
  RapidProofs.ReachFloat — every float a range allows is produced by some bit stream
  (`Float32Range`/`Float64Range`), and so is every value of a small signed integer range (the
  exponent draw).  The words: sign coin; for the exponent a sign coin, a bias word whose geometric
  draw exceeds the bit length of the exponent range (so that neither overflow flag is raised) and
  the offset; the integer significand; `maxR` (no low bit is cleared); the fractional significand.
-/
import RapidProofs.ReachComp
import RapidProofs.ContractsFloat

namespace Rapid

/-! ### bias words for small ranges -/

/-- for bit length `b` the geometric draw `b + 2` is hit by a 53-bit bias word -/
def tableReach2 (tbl : List UInt64) (b : Nat) : Bool :=
  geomN tbl (geomWitness tbl (b + 2)) == b + 2 && decide (geomWitness tbl (b + 2) < thrNever)

/-- … for every bit length up to 12 (exponent ranges have at most 2^11 values) -/
def smallReach (ft : FT) : Bool := (List.range 13).all fun b => tableReach2 (ft.geom b) b

theorem smallReach_spec (ft : FT) (h : smallReach ft = true) (b : Nat) (hb : b ≤ 12) :
    ∃ w, w < thrNever ∧ geomN (ft.geom b) w = b + 2 := by
  simp only [smallReach, List.all_eq_true, List.mem_range] at h
  have := h b (by omega)
  simp only [tableReach2, Bool.and_eq_true, beq_iff_eq, decide_eq_true_eq] at this
  exact ⟨_, this.2, this.1⟩

/-- biased `genUintN(max)` for `max < 2^12`: every `u ≤ max`, with both flags false -/
theorem uintNBiased_small_reaches (ft : FT) (hs : smallReach ft = true) (max u : UInt64) (hu : u ≤ max)
    (hb : len64 max ≤ 12) (fuel : Nat) :
    Reaches (fun (k : UInt64 × Bool × Bool → Prog) => uintN ft max true (fuel + 1) (fun x l r => k (x, l, r))) (u, false, false) := by
  obtain ⟨w, hw, hg⟩ := smallReach_spec ft hs (len64 max) hb
  have := overflowAt_ge (len64 max)
  exact uintBiased_reaches_noflags ft max u w _ hu hw hg (Nat.le_refl _) (by omega) fuel

/-- biased `genUintRange(min, max)` for a range of fewer than 2^12 values -/
theorem uintRangeBiased_small_reaches (ft : FT) (hs : smallReach ft = true) (min max v : UInt64) (h1 : min ≤ v) (h2 : v ≤ max)
    (hb : len64 (max - min) ≤ 12) (fuel : Nat) :
    Reaches (fun (k : UInt64 × Bool × Bool → Prog) => uintRange ft min max true (fuel + 1) (fun x l r => k (x, l, r)))
      (v, false, false) := by
  have hmm : min ≤ max := by rw [UInt64.le_iff_toNat_le] at h1 h2 ⊢; omega
  have hng : ¬ min > max := by rw [gt_iff_lt, UInt64.lt_iff_toNat_lt]; rw [UInt64.le_iff_toNat_le] at hmm; omega
  have hsub : v - min ≤ max - min := by
    rw [UInt64.le_iff_toNat_le, UInt64.toNat_sub_of_le _ _ h1, UInt64.toNat_sub_of_le _ _ hmm]
    rw [UInt64.le_iff_toNat_le] at h1 h2; omega
  have hadd : min + (v - min) = v := by
    apply UInt64.toNat_inj.mp
    rw [UInt64.toNat_add, UInt64.toNat_sub_of_le _ _ h1]
    rw [UInt64.le_iff_toNat_le] at h1
    have := v.toNat_lt
    rw [Nat.mod_eq_of_lt (by omega)]; omega
  have h := (uintNBiased_small_reaches ft hs (max - min) (v - min) hsub hb fuel).map
    (fun (x : UInt64 × Bool × Bool) => (min + x.1, x.2.1, x.2.2))
  simp only [hadd] at h
  obtain ⟨ws, hw⟩ := h
  refine ⟨ws, fun k rest ts => ?_⟩
  simp only [uintRange, hng, if_false]
  exact hw k rest ts

/-! ### small signed ranges (`genIntRange` as the exponent draw uses it) -/

theorem ofInt_toInt_small {a : Int} (h : -2 ^ 62 ≤ a ∧ a ≤ 2 ^ 62) : (Int64.ofInt a).toInt = a :=
  Int64.toInt_ofInt_of_le (by omega) (by omega)

theorem ofInt_toUInt64_toNat {a : Int} (h0 : 0 ≤ a) (h1 : a ≤ 2 ^ 62) : (Int64.ofInt a).toUInt64.toNat = a.toNat := by
  have : (Int64.ofInt a).toUInt64.toNat = (a % 2 ^ 64).toNat := by
    show (BitVec.ofInt 64 a).toNat = _
    rw [BitVec.toNat_ofInt]; rfl
  rw [this]; omega

theorem toInt64_toInt_small {u : UInt64} (h : u.toNat ≤ 2 ^ 62) : u.toInt64.toInt = u.toNat := by
  show u.toBitVec.toInt = _
  rw [BitVec.toInt_eq_toNat_of_lt (by show 2 * u.toNat < 2 ^ 64; omega)]; rfl

theorem toInt64_eq_ofInt {u : UInt64} {c : Int} (hc0 : 0 ≤ c) (hc1 : c ≤ 2 ^ 62) (hu : u.toNat = c.toNat) :
    u.toInt64 = Int64.ofInt c := by
  apply Int64.toInt_inj.mp
  rw [toInt64_toInt_small (by omega), ofInt_toInt_small (by omega)]; omega

theorem neg_toInt64_eq_ofInt {u : UInt64} {c : Int} (hc0 : c ≤ 0) (hc1 : -2 ^ 62 ≤ c) (hu : u.toNat = (-c).toNat) :
    -(u.toInt64) = Int64.ofInt c := by
  apply Int64.toInt_inj.mp
  rw [Int64.toInt_neg, toInt64_toInt_small (by omega), ofInt_toInt_small (by omega)]
  have : ((-(u.toNat : Int)).bmod (2 ^ 64)) = -(u.toNat : Int) := by
    apply Int.bmod_eq_of_le <;> omega
  rw [this]; omega

theorem len64_le_of_lt {u : UInt64} {k : Nat} (h : u.toNat < 2 ^ k) : len64 u ≤ k := by
  unfold len64
  by_cases hu : u = 0
  · simp [hu]
  · have hun : u.toNat ≠ 0 := fun h0 => hu (UInt64.toNat_inj.mp (by simpa using h0))
    simp only [hu, if_false]
    have := (Nat.log2_lt hun).mpr h
    omega

theorem ofNat_toNat_small {n : Nat} (h : n < 2 ^ 64) : (UInt64.ofNat n).toNat = n := by
  simp only [UInt64.toNat_ofNat']; exact Nat.mod_eq_of_lt h

/-- **every value of a small signed range** is handed on by `genIntRange` with both overflow flags
    false (bounds within ±2^40, fewer than 2^12 values) -/
theorem intRange_small_reaches (ft : FT) (hs : smallReach ft = true) (hc : 0 < ft.coinHalf ∧ ft.coinHalf < thrNever)
    (a b c : Int) (hac : a ≤ c) (hcb : c ≤ b) (hsm : -2 ^ 40 ≤ a ∧ b ≤ 2 ^ 40) (hw : b - a < 4096) (fuel : Nat) :
    Reaches (fun (k : Int64 × Bool × Bool → Prog) => intRange ft (Int64.ofInt a) (Int64.ofInt b) (fuel + 1) (fun i l r => k (i, l, r)))
      (Int64.ofInt c, false, false) := by
  have ta := ofInt_toInt_small (a := a) (by omega)
  have tb := ofInt_toInt_small (a := b) (by omega)
  have hng : ¬ Int64.ofInt a > Int64.ofInt b := by
    rw [gt_iff_lt, Int64.lt_iff_toInt_lt, ta, tb]; omega
  have hge0 : (Int64.ofInt a ≥ 0) ↔ 0 ≤ a := by
    rw [ge_iff_le, Int64.le_iff_toInt_le, ta, Int64.toInt_zero]
  have hle0 : (Int64.ofInt b ≤ 0) ↔ b ≤ 0 := by
    rw [Int64.le_iff_toInt_le, tb, Int64.toInt_zero]
  -- the unsigned sub-range has fewer than 2^12 values
  have hlen : ∀ (lo hi : UInt64), lo.toNat ≤ hi.toNat → hi.toNat - lo.toNat < 4096 → len64 (hi - lo) ≤ 12 := by
    intro lo hi h1 h2
    apply len64_le_of_lt
    rw [UInt64.toNat_sub_of_le _ _ (UInt64.le_iff_toNat_le.mpr h1)]
    exact h2
  have key : ∀ (neg : Bool) (thr : UInt64), Reaches (coin thr) neg →
      Reaches (fun (k : Int64 × Bool × Bool → Prog) =>
        if neg = true then
          uintRange ft (if Int64.ofInt a ≥ 0 then 0 else if Int64.ofInt b ≤ 0 then (-Int64.ofInt b).toUInt64 else 1)
            (-Int64.ofInt a).toUInt64 true (fuel + 1) fun u l r => k (-(u.toInt64), r, (l && decide (Int64.ofInt b ≤ 0)))
        else
          uintRange ft (if Int64.ofInt a ≥ 0 then (Int64.ofInt a).toUInt64 else 0) (Int64.ofInt b).toUInt64 true (fuel + 1)
            fun u l r => k (u.toInt64, (l && decide (Int64.ofInt a ≥ 0)), r)) (Int64.ofInt c, false, false) →
      Reaches (fun (k : Int64 × Bool × Bool → Prog) =>
        coin thr fun neg' =>
          if neg' = true then
            uintRange ft (if Int64.ofInt a ≥ 0 then 0 else if Int64.ofInt b ≤ 0 then (-Int64.ofInt b).toUInt64 else 1)
              (-Int64.ofInt a).toUInt64 true (fuel + 1) fun u l r => k (-(u.toInt64), r, (l && decide (Int64.ofInt b ≤ 0)))
          else
            uintRange ft (if Int64.ofInt a ≥ 0 then (Int64.ofInt a).toUInt64 else 0) (Int64.ofInt b).toUInt64 true (fuel + 1)
              fun u l r => k (u.toInt64, (l && decide (Int64.ofInt a ≥ 0)), r)) (Int64.ofInt c, false, false) := by
    intro neg thr hcoin hbr
    exact Reaches.bind (q := fun neg' k =>
      if neg' = true then
        uintRange ft (if Int64.ofInt a ≥ 0 then 0 else if Int64.ofInt b ≤ 0 then (-Int64.ofInt b).toUInt64 else 1)
          (-Int64.ofInt a).toUInt64 true (fuel + 1) fun u l r => k (-(u.toInt64), r, (l && decide (Int64.ofInt b ≤ 0)))
      else
        uintRange ft (if Int64.ofInt a ≥ 0 then (Int64.ofInt a).toUInt64 else 0) (Int64.ofInt b).toUInt64 true (fuel + 1)
          fun u l r => k (u.toInt64, (l && decide (Int64.ofInt a ≥ 0)), r)) hcoin hbr
  -- the positive branch: magnitudes `[lo, b]`, target `c ≥ 0`
  have pos : ∀ (lo : UInt64) (bb : Bool) (hlo : lo.toNat ≤ c.toNat) (hc0 : 0 ≤ c) (hlow : (b.toNat : Int) - lo.toNat < 4096),
      Reaches (fun (k : Int64 × Bool × Bool → Prog) =>
        uintRange ft lo (Int64.ofInt b).toUInt64 true (fuel + 1) fun u l r => k (u.toInt64, (l && bb), r))
        (Int64.ofInt c, false, false) := by
    intro lo bb hlo hc0 hlow
    have hbn : (Int64.ofInt b).toUInt64.toNat = b.toNat := ofInt_toUInt64_toNat (by omega) (by omega)
    have hv : (UInt64.ofNat c.toNat).toNat = c.toNat := ofNat_toNat_small (by omega)
    have h := (uintRangeBiased_small_reaches ft hs lo (Int64.ofInt b).toUInt64 (UInt64.ofNat c.toNat)
      (by rw [UInt64.le_iff_toNat_le, hv]; exact hlo) (by rw [UInt64.le_iff_toNat_le, hv, hbn]; omega)
      (hlen _ _ (by rw [hbn]; omega) (by rw [hbn]; omega)) fuel).map
      (fun (x : UInt64 × Bool × Bool) => (x.1.toInt64, (x.2.1 && bb), x.2.2))
    have e : (UInt64.ofNat c.toNat).toInt64 = Int64.ofInt c := toInt64_eq_ofInt hc0 (by omega) hv
    simp only [e, Bool.false_and] at h
    exact h
  -- the negative branch: magnitudes `[lo, -a]`, target `c ≤ 0`
  have negb : ∀ (lo : UInt64) (bb : Bool) (hlo : lo.toNat ≤ (-c).toNat) (hc0 : c ≤ 0) (ha0 : a ≤ 0) (hlow : ((-a).toNat : Int) - lo.toNat < 4096),
      Reaches (fun (k : Int64 × Bool × Bool → Prog) =>
        uintRange ft lo (-Int64.ofInt a).toUInt64 true (fuel + 1) fun u l r => k (-(u.toInt64), r, (l && bb)))
        (Int64.ofInt c, false, false) := by
    intro lo bb hlo hc0 ha0 hlow
    have han : (-Int64.ofInt a).toUInt64.toNat = (-a).toNat := by
      rw [← Int64.ofInt_neg]; exact ofInt_toUInt64_toNat (by omega) (by omega)
    have hv : (UInt64.ofNat (-c).toNat).toNat = (-c).toNat := ofNat_toNat_small (by omega)
    have h := (uintRangeBiased_small_reaches ft hs lo (-Int64.ofInt a).toUInt64 (UInt64.ofNat (-c).toNat)
      (by rw [UInt64.le_iff_toNat_le, hv]; exact hlo) (by rw [UInt64.le_iff_toNat_le, hv, han]; omega)
      (hlen _ _ (by rw [han]; omega) (by rw [han]; omega)) fuel).map
      (fun (x : UInt64 × Bool × Bool) => (-(x.1.toInt64), x.2.2, (x.2.1 && bb)))
    have e : -((UInt64.ofNat (-c).toNat).toInt64) = Int64.ofInt c := neg_toInt64_eq_ofInt hc0 (by omega) hv
    simp only [e, Bool.false_and] at h
    exact h
  obtain ⟨ws, hws⟩ : Reaches (fun (k : Int64 × Bool × Bool → Prog) =>
      coin (if Int64.ofInt a ≥ 0 then thrNever else if Int64.ofInt b ≤ 0 then thrAlways else ft.coinHalf) fun neg' =>
        if neg' = true then
          uintRange ft (if Int64.ofInt a ≥ 0 then 0 else if Int64.ofInt b ≤ 0 then (-Int64.ofInt b).toUInt64 else 1)
            (-Int64.ofInt a).toUInt64 true (fuel + 1) fun u l r => k (-(u.toInt64), r, (l && decide (Int64.ofInt b ≤ 0)))
        else
          uintRange ft (if Int64.ofInt a ≥ 0 then (Int64.ofInt a).toUInt64 else 0) (Int64.ofInt b).toUInt64 true (fuel + 1)
            fun u l r => k (u.toInt64, (l && decide (Int64.ofInt a ≥ 0)), r)) (Int64.ofInt c, false, false) := by
    by_cases h0 : 0 ≤ a
    · -- non-negative range
      have hg := hge0.mpr h0
      refine key false _ (by simp only [hg, if_true]; exact coin_reaches_false thrNever (by decide)) ?_
      simp only [Bool.false_eq_true, if_false, hg, if_true]
      have han : (Int64.ofInt a).toUInt64.toNat = a.toNat := ofInt_toUInt64_toNat h0 (by omega)
      exact pos _ _ (by rw [han]; omega) (by omega) (by rw [han]; omega)
    · have hg : ¬ (Int64.ofInt a ≥ 0) := fun h => h0 (hge0.mp h)
      by_cases h1 : b ≤ 0
      · -- non-positive range
        have hl := hle0.mpr h1
        refine key true _ (by simp only [hg, if_false, hl, if_true]; exact coin_reaches_true thrAlways (by decide)) ?_
        simp only [if_true, hg, if_false, hl]
        have hbn : (-Int64.ofInt b).toUInt64.toNat = (-b).toNat := by
          rw [← Int64.ofInt_neg]; exact ofInt_toUInt64_toNat (by omega) (by omega)
        exact negb _ _ (by rw [hbn]; omega) (by omega) (by omega) (by rw [hbn]; omega)
      · have hl : ¬ (Int64.ofInt b ≤ 0) := fun h => h1 (hle0.mp h)
        by_cases hc0 : 0 ≤ c
        · refine key false _ (by simp only [hg, if_false, hl]; exact coin_reaches_false _ hc.1) ?_
          simp only [Bool.false_eq_true, if_false, hg]
          exact pos 0 _ (by simp) hc0 (by simp; omega)
        · refine key true _ (by simp only [hg, if_false, hl]; exact coin_reaches_true _ hc.2) ?_
          simp only [if_true, hg, if_false, hl]
          have h1n : (1 : UInt64).toNat = 1 := rfl
          exact negb 1 _ (by rw [h1n]; omega) (by omega) (by omega) (by rw [h1n]; omega)
  refine ⟨ws, fun k rest ts => ?_⟩
  simp only [intRange, hng, if_false]
  exact hws k rest ts

end Rapid
