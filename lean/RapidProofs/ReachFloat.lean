/-
  RapidProofs.ReachFloat — every float a range allows is produced by some bit stream
  (`Float32Range`/`Float64Range`), and so is every value of a small signed integer range (the
  exponent draw).  The words: sign coin; for the exponent a sign coin, a bias word whose geometric
  draw exceeds the bit length of the exponent range (so that neither overflow flag is raised) and
  the offset; the integer significand; `maxR` (no low bit is cleared); the fractional significand.
-/
import RapidProofs.ReachComp
import RapidProofs.ContractsFloat

namespace Rapid

/-! ### bias words for small ranges -/

/-- for bit length `b` the geometric draw `b + 2` is hit by a 53-bit bias word -/
def tableReach2 (tbl : List UInt64) (b : Nat) : Bool :=
  geomN tbl (geomWitness tbl (b + 2)) == b + 2 && decide (geomWitness tbl (b + 2) < thrNever)

/-- … for every bit length up to 12 (exponent ranges have at most 2^11 values) -/
def smallReach (ft : FT) : Bool := (List.range 13).all fun b => tableReach2 (ft.geom b) b

theorem smallReach_spec (ft : FT) (h : smallReach ft = true) (b : Nat) (hb : b ≤ 12) :
    ∃ w, w < thrNever ∧ geomN (ft.geom b) w = b + 2 := by
  simp only [smallReach, List.all_eq_true, List.mem_range] at h
  have := h b (by omega)
  simp only [tableReach2, Bool.and_eq_true, beq_iff_eq, decide_eq_true_eq] at this
  exact ⟨_, this.2, this.1⟩

/-- biased `genUintN(max)` for `max < 2^12`: every `u ≤ max`, with both flags false -/
theorem uintNBiased_small_reaches (ft : FT) (hs : smallReach ft = true) (max u : UInt64) (hu : u ≤ max)
    (hb : len64 max ≤ 12) (fuel : Nat) :
    ReachesVal (fun (k : UInt64 × Bool × Bool → Prog) => uintN ft max true (fuel + 1) (fun x l r => k (x, l, r))) (u, false, false) := by
  obtain ⟨w, hw, hg⟩ := smallReach_spec ft hs (len64 max) hb
  have := overflowAt_ge (len64 max)
  exact uintBiased_reaches_noflags ft max u w _ hu hw hg (Nat.le_refl _) (by omega) fuel

/-- biased `genUintRange(min, max)` for a range of fewer than 2^12 values -/
theorem uintRangeBiased_small_reaches (ft : FT) (hs : smallReach ft = true) (min max v : UInt64) (h1 : min ≤ v) (h2 : v ≤ max)
    (hb : len64 (max - min) ≤ 12) (fuel : Nat) :
    ReachesVal (fun (k : UInt64 × Bool × Bool → Prog) => uintRange ft min max true (fuel + 1) (fun x l r => k (x, l, r)))
      (v, false, false) := by
  have hmm : min ≤ max := by rw [UInt64.le_iff_toNat_le] at h1 h2 ⊢; omega
  have hng : ¬ min > max := by rw [gt_iff_lt, UInt64.lt_iff_toNat_lt]; rw [UInt64.le_iff_toNat_le] at hmm; omega
  have hsub : v - min ≤ max - min := by
    rw [UInt64.le_iff_toNat_le, UInt64.toNat_sub_of_le _ _ h1, UInt64.toNat_sub_of_le _ _ hmm]
    rw [UInt64.le_iff_toNat_le] at h1 h2; omega
  have hadd : min + (v - min) = v := by
    apply UInt64.toNat_inj.mp
    rw [UInt64.toNat_add, UInt64.toNat_sub_of_le _ _ h1]
    rw [UInt64.le_iff_toNat_le] at h1
    have := v.toNat_lt
    rw [Nat.mod_eq_of_lt (by omega)]; omega
  have h := (uintNBiased_small_reaches ft hs (max - min) (v - min) hsub hb fuel).map
    (fun (x : UInt64 × Bool × Bool) => (min + x.1, x.2.1, x.2.2))
  simp only [hadd] at h
  obtain ⟨ws, hw⟩ := h
  refine ⟨ws, fun k rest ts => ?_⟩
  simp only [uintRange, hng, if_false]
  exact hw k rest ts

/-! ### small signed ranges (`genIntRange` as the exponent draw uses it) -/

theorem ofInt_toInt_small {a : Int} (h : -2 ^ 62 ≤ a ∧ a ≤ 2 ^ 62) : (Int64.ofInt a).toInt = a :=
  Int64.toInt_ofInt_of_le (by omega) (by omega)

theorem ofInt_toUInt64_toNat {a : Int} (h0 : 0 ≤ a) (h1 : a ≤ 2 ^ 62) : (Int64.ofInt a).toUInt64.toNat = a.toNat := by
  have : (Int64.ofInt a).toUInt64.toNat = (a % 2 ^ 64).toNat := by
    show (BitVec.ofInt 64 a).toNat = _
    rw [BitVec.toNat_ofInt]; rfl
  rw [this]; omega

theorem toInt64_toInt_small {u : UInt64} (h : u.toNat ≤ 2 ^ 62) : u.toInt64.toInt = u.toNat := by
  show u.toBitVec.toInt = _
  rw [BitVec.toInt_eq_toNat_of_lt (by show 2 * u.toNat < 2 ^ 64; omega)]; rfl

theorem toInt64_eq_ofInt {u : UInt64} {c : Int} (hc0 : 0 ≤ c) (hc1 : c ≤ 2 ^ 62) (hu : u.toNat = c.toNat) :
    u.toInt64 = Int64.ofInt c := by
  apply Int64.toInt_inj.mp
  rw [toInt64_toInt_small (by omega), ofInt_toInt_small (by omega)]; omega

theorem neg_toInt64_eq_ofInt {u : UInt64} {c : Int} (hc0 : c ≤ 0) (hc1 : -2 ^ 62 ≤ c) (hu : u.toNat = (-c).toNat) :
    -(u.toInt64) = Int64.ofInt c := by
  apply Int64.toInt_inj.mp
  rw [Int64.toInt_neg, toInt64_toInt_small (by omega), ofInt_toInt_small (by omega)]
  have : ((-(u.toNat : Int)).bmod (2 ^ 64)) = -(u.toNat : Int) := by
    apply Int.bmod_eq_of_le <;> omega
  rw [this]; omega

theorem len64_le_of_lt {u : UInt64} {k : Nat} (h : u.toNat < 2 ^ k) : len64 u ≤ k := by
  unfold len64
  by_cases hu : u = 0
  · simp [hu]
  · have hun : u.toNat ≠ 0 := fun h0 => hu (UInt64.toNat_inj.mp (by simpa using h0))
    simp only [hu, if_false]
    have := (Nat.log2_lt hun).mpr h
    omega

theorem ofNat_toNat_small {n : Nat} (h : n < 2 ^ 64) : (UInt64.ofNat n).toNat = n := by
  simp only [UInt64.toNat_ofNat']; exact Nat.mod_eq_of_lt h

/-- **every value of a small signed range** is handed on by `genIntRange` with both overflow flags
    false (bounds within ±2^40, fewer than 2^12 values) -/
theorem intRange_small_reaches (ft : FT) (hs : smallReach ft = true) (hc : 0 < ft.coinHalf ∧ ft.coinHalf < thrNever)
    (a b c : Int) (hac : a ≤ c) (hcb : c ≤ b) (hsm : -2 ^ 40 ≤ a ∧ b ≤ 2 ^ 40) (hw : b - a < 4096) (fuel : Nat) :
    ReachesVal (fun (k : Int64 × Bool × Bool → Prog) => intRange ft (Int64.ofInt a) (Int64.ofInt b) (fuel + 1) (fun i l r => k (i, l, r)))
      (Int64.ofInt c, false, false) := by
  have ta := ofInt_toInt_small (a := a) (by omega)
  have tb := ofInt_toInt_small (a := b) (by omega)
  have hng : ¬ Int64.ofInt a > Int64.ofInt b := by
    rw [gt_iff_lt, Int64.lt_iff_toInt_lt, ta, tb]; omega
  have hge0 : (Int64.ofInt a ≥ 0) ↔ 0 ≤ a := by
    rw [ge_iff_le, Int64.le_iff_toInt_le, ta, Int64.toInt_zero]
  have hle0 : (Int64.ofInt b ≤ 0) ↔ b ≤ 0 := by
    rw [Int64.le_iff_toInt_le, tb, Int64.toInt_zero]
  -- the unsigned sub-range has fewer than 2^12 values
  have hlen : ∀ (lo hi : UInt64), lo.toNat ≤ hi.toNat → hi.toNat - lo.toNat < 4096 → len64 (hi - lo) ≤ 12 := by
    intro lo hi h1 h2
    apply len64_le_of_lt
    rw [UInt64.toNat_sub_of_le _ _ (UInt64.le_iff_toNat_le.mpr h1)]
    exact h2
  have key : ∀ (neg : Bool) (thr : UInt64), ReachesVal (coin thr) neg →
      ReachesVal (fun (k : Int64 × Bool × Bool → Prog) =>
        if neg = true then
          uintRange ft (if Int64.ofInt a ≥ 0 then 0 else if Int64.ofInt b ≤ 0 then (-Int64.ofInt b).toUInt64 else 1)
            (-Int64.ofInt a).toUInt64 true (fuel + 1) fun u l r => k (-(u.toInt64), r, (l && decide (Int64.ofInt b ≤ 0)))
        else
          uintRange ft (if Int64.ofInt a ≥ 0 then (Int64.ofInt a).toUInt64 else 0) (Int64.ofInt b).toUInt64 true (fuel + 1)
            fun u l r => k (u.toInt64, (l && decide (Int64.ofInt a ≥ 0)), r)) (Int64.ofInt c, false, false) →
      ReachesVal (fun (k : Int64 × Bool × Bool → Prog) =>
        coin thr fun neg' =>
          if neg' = true then
            uintRange ft (if Int64.ofInt a ≥ 0 then 0 else if Int64.ofInt b ≤ 0 then (-Int64.ofInt b).toUInt64 else 1)
              (-Int64.ofInt a).toUInt64 true (fuel + 1) fun u l r => k (-(u.toInt64), r, (l && decide (Int64.ofInt b ≤ 0)))
          else
            uintRange ft (if Int64.ofInt a ≥ 0 then (Int64.ofInt a).toUInt64 else 0) (Int64.ofInt b).toUInt64 true (fuel + 1)
              fun u l r => k (u.toInt64, (l && decide (Int64.ofInt a ≥ 0)), r)) (Int64.ofInt c, false, false) := by
    intro neg thr hcoin hbr
    exact ReachesVal.bind (q := fun neg' k =>
      if neg' = true then
        uintRange ft (if Int64.ofInt a ≥ 0 then 0 else if Int64.ofInt b ≤ 0 then (-Int64.ofInt b).toUInt64 else 1)
          (-Int64.ofInt a).toUInt64 true (fuel + 1) fun u l r => k (-(u.toInt64), r, (l && decide (Int64.ofInt b ≤ 0)))
      else
        uintRange ft (if Int64.ofInt a ≥ 0 then (Int64.ofInt a).toUInt64 else 0) (Int64.ofInt b).toUInt64 true (fuel + 1)
          fun u l r => k (u.toInt64, (l && decide (Int64.ofInt a ≥ 0)), r)) hcoin hbr
  -- the positive branch: magnitudes `[lo, b]`, target `c ≥ 0`
  have pos : ∀ (lo : UInt64) (bb : Bool) (hlo : lo.toNat ≤ c.toNat) (hc0 : 0 ≤ c) (hlow : (b.toNat : Int) - lo.toNat < 4096),
      ReachesVal (fun (k : Int64 × Bool × Bool → Prog) =>
        uintRange ft lo (Int64.ofInt b).toUInt64 true (fuel + 1) fun u l r => k (u.toInt64, (l && bb), r))
        (Int64.ofInt c, false, false) := by
    intro lo bb hlo hc0 hlow
    have hbn : (Int64.ofInt b).toUInt64.toNat = b.toNat := ofInt_toUInt64_toNat (by omega) (by omega)
    have hv : (UInt64.ofNat c.toNat).toNat = c.toNat := ofNat_toNat_small (by omega)
    have h := (uintRangeBiased_small_reaches ft hs lo (Int64.ofInt b).toUInt64 (UInt64.ofNat c.toNat)
      (by rw [UInt64.le_iff_toNat_le, hv]; exact hlo) (by rw [UInt64.le_iff_toNat_le, hv, hbn]; omega)
      (hlen _ _ (by rw [hbn]; omega) (by rw [hbn]; omega)) fuel).map
      (fun (x : UInt64 × Bool × Bool) => (x.1.toInt64, (x.2.1 && bb), x.2.2))
    have e : (UInt64.ofNat c.toNat).toInt64 = Int64.ofInt c := toInt64_eq_ofInt hc0 (by omega) hv
    simp only [e, Bool.false_and] at h
    exact h
  -- the negative branch: magnitudes `[lo, -a]`, target `c ≤ 0`
  have negb : ∀ (lo : UInt64) (bb : Bool) (hlo : lo.toNat ≤ (-c).toNat) (hc0 : c ≤ 0) (ha0 : a ≤ 0) (hlow : ((-a).toNat : Int) - lo.toNat < 4096),
      ReachesVal (fun (k : Int64 × Bool × Bool → Prog) =>
        uintRange ft lo (-Int64.ofInt a).toUInt64 true (fuel + 1) fun u l r => k (-(u.toInt64), r, (l && bb)))
        (Int64.ofInt c, false, false) := by
    intro lo bb hlo hc0 ha0 hlow
    have han : (-Int64.ofInt a).toUInt64.toNat = (-a).toNat := by
      rw [← Int64.ofInt_neg]; exact ofInt_toUInt64_toNat (by omega) (by omega)
    have hv : (UInt64.ofNat (-c).toNat).toNat = (-c).toNat := ofNat_toNat_small (by omega)
    have h := (uintRangeBiased_small_reaches ft hs lo (-Int64.ofInt a).toUInt64 (UInt64.ofNat (-c).toNat)
      (by rw [UInt64.le_iff_toNat_le, hv]; exact hlo) (by rw [UInt64.le_iff_toNat_le, hv, han]; omega)
      (hlen _ _ (by rw [han]; omega) (by rw [han]; omega)) fuel).map
      (fun (x : UInt64 × Bool × Bool) => (-(x.1.toInt64), x.2.2, (x.2.1 && bb)))
    have e : -((UInt64.ofNat (-c).toNat).toInt64) = Int64.ofInt c := neg_toInt64_eq_ofInt hc0 (by omega) hv
    simp only [e, Bool.false_and] at h
    exact h
  obtain ⟨ws, hws⟩ : ReachesVal (fun (k : Int64 × Bool × Bool → Prog) =>
      coin (if Int64.ofInt a ≥ 0 then thrNever else if Int64.ofInt b ≤ 0 then thrAlways else ft.coinHalf) fun neg' =>
        if neg' = true then
          uintRange ft (if Int64.ofInt a ≥ 0 then 0 else if Int64.ofInt b ≤ 0 then (-Int64.ofInt b).toUInt64 else 1)
            (-Int64.ofInt a).toUInt64 true (fuel + 1) fun u l r => k (-(u.toInt64), r, (l && decide (Int64.ofInt b ≤ 0)))
        else
          uintRange ft (if Int64.ofInt a ≥ 0 then (Int64.ofInt a).toUInt64 else 0) (Int64.ofInt b).toUInt64 true (fuel + 1)
            fun u l r => k (u.toInt64, (l && decide (Int64.ofInt a ≥ 0)), r)) (Int64.ofInt c, false, false) := by
    by_cases h0 : 0 ≤ a
    · -- non-negative range
      have hg := hge0.mpr h0
      refine key false _ (by simp only [hg, if_true]; exact coin_reaches_false thrNever (by decide)) ?_
      simp only [Bool.false_eq_true, if_false, hg, if_true]
      have han : (Int64.ofInt a).toUInt64.toNat = a.toNat := ofInt_toUInt64_toNat h0 (by omega)
      exact pos _ _ (by rw [han]; omega) (by omega) (by rw [han]; omega)
    · have hg : ¬ (Int64.ofInt a ≥ 0) := fun h => h0 (hge0.mp h)
      by_cases h1 : b ≤ 0
      · -- non-positive range
        have hl := hle0.mpr h1
        refine key true _ (by simp only [hg, if_false, hl, if_true]; exact coin_reaches_true thrAlways (by decide)) ?_
        simp only [if_true, hg, if_false, hl]
        have hbn : (-Int64.ofInt b).toUInt64.toNat = (-b).toNat := by
          rw [← Int64.ofInt_neg]; exact ofInt_toUInt64_toNat (by omega) (by omega)
        exact negb _ _ (by rw [hbn]; omega) (by omega) (by omega) (by rw [hbn]; omega)
      · have hl : ¬ (Int64.ofInt b ≤ 0) := fun h => h1 (hle0.mp h)
        by_cases hc0 : 0 ≤ c
        · refine key false _ (by simp only [hg, if_false, hl]; exact coin_reaches_false _ hc.1) ?_
          simp only [Bool.false_eq_true, if_false, hg]
          exact pos 0 _ (by simp) hc0 (by simp; omega)
        · refine key true _ (by simp only [hg, if_false, hl]; exact coin_reaches_true _ hc.2) ?_
          simp only [if_true, hg, if_false, hl]
          have h1n : (1 : UInt64).toNat = 1 := rfl
          exact negb 1 _ (by rw [h1n]; omega) (by omega) (by omega) (by rw [h1n]; omega)
  refine ⟨ws, fun k rest ts => ?_⟩
  simp only [intRange, hng, if_false]
  exact hws k rest ts

/-! ### the parts of a magnitude between `min` and `max` lie inside the bounds of the two switches -/

/-- `pt` is lexicographically between `p0` and `p1` -/
structure Between (p0 p1 pt : Int × UInt64 × UInt64) : Prop where
  lo : p0.1 ≤ pt.1
  lolex : p0.1 = pt.1 → (p0.2.1.toNat < pt.2.1.toNat ∨ (p0.2.1.toNat = pt.2.1.toNat ∧ p0.2.2.toNat ≤ pt.2.2.toNat))
  hi : pt.1 ≤ p1.1
  hilex : pt.1 = p1.1 → (pt.2.1.toNat < p1.2.1.toNat ∨ (pt.2.1.toNat = p1.2.1.toNat ∧ pt.2.2.toNat ≤ p1.2.2.toNat))

theorem si_in_bounds (f : FFmt) (hf : f.WF) {p0 p1 pt : Int × UInt64 × UInt64}
    (hok : PartsOK f pt.1 pt.2.1.toNat pt.2.2.toNat) (hb : Between p0 p1 pt) :
    (siBounds f.S p0 p1 pt.1 false false).1 ≤ pt.2.1 ∧ pt.2.1 ≤ (siBounds f.S p0 p1 pt.1 false false).2 := by
  obtain ⟨E0, I0, F0⟩ := p0
  obtain ⟨E1, I1, F1⟩ := p1
  obtain ⟨E, I, F⟩ := pt
  have h1 := hb.lo; have h2 := hb.lolex; have h3 := hb.hi; have h4 := hb.hilex
  have hI := hok.si_lt
  dsimp only at *
  have hS : f.S - fracBits E f.S < 64 := by have := hf.hSE; omega
  simp only [UInt64.le_iff_toNat_le]
  unfold siBounds
  simp only [Bool.false_eq_true, if_false]
  by_cases c3 : E0 = E1
  · subst c3
    have : E = E0 := by omega
    subst this
    simp only [if_true]
    have a := h2 rfl; have b := h4 rfl
    constructor <;> omega
  · simp only [c3, if_false]
    by_cases c4 : E = E0
    · subst c4
      simp only [if_true]
      rw [bitmask64_toNat hS]
      have a := h2 rfl
      constructor <;> omega
    · simp only [c4, if_false]
      by_cases c5 : E = E1
      · subst c5
        simp only [if_true]
        have b := h4 rfl
        constructor
        · simp
        · omega
      · simp only [c5, if_false]
        rw [bitmask64_toNat hS]
        constructor
        · simp
        · omega

theorem sf_in_bounds (f : FFmt) (hf : f.WF) {p0 p1 pt : Int × UInt64 × UInt64}
    (hok : PartsOK f pt.1 pt.2.1.toNat pt.2.2.toNat) (hb : Between p0 p1 pt) :
    (sfBounds f.S p0 p1 pt.1 false false pt.2.1).1 ≤ pt.2.2 ∧ pt.2.2 ≤ (sfBounds f.S p0 p1 pt.1 false false pt.2.1).2 := by
  obtain ⟨E0, I0, F0⟩ := p0
  obtain ⟨E1, I1, F1⟩ := p1
  obtain ⟨E, I, F⟩ := pt
  have h1 := hb.lo; have h2 := hb.lolex; have h3 := hb.hi; have h4 := hb.hilex
  have hF := hok.sf_lt
  dsimp only at *
  have hS : fracBits E f.S < 64 := by have := hf.hSE; have := fracBits_le E f.S; omega
  simp only [UInt64.le_iff_toNat_le]
  unfold sfBounds
  simp only [Bool.false_eq_true, if_false]
  by_cases c3 : E0 = E1 ∧ I0 = I1
  · obtain ⟨rfl, rfl⟩ := c3
    have : E = E0 := by omega
    subst this
    simp only [and_self, if_true]
    have a := h2 rfl; have b := h4 rfl
    constructor <;> omega
  · simp only [c3, if_false]
    by_cases c4 : E = E0 ∧ I = I0
    · obtain ⟨rfl, rfl⟩ := c4
      simp only [and_self, if_true]
      rw [bitmask64_toNat hS]
      have a := h2 rfl
      constructor <;> omega
    · simp only [c4, if_false]
      by_cases c5 : E = E1 ∧ I = I1
      · obtain ⟨rfl, rfl⟩ := c5
        simp only [and_self, if_true]
        have b := h4 rfl
        constructor
        · simp
        · omega
      · simp only [c5, if_false]
        rw [bitmask64_toNat hS]
        constructor
        · simp
        · omega

/-- the parts of magnitudes `u0 ≤ u ≤ u1` -/
theorem between_of_le (f : FFmt) (hf : f.WF) (lo hi t : UInt64)
    (h1 : (f.mag lo).toNat ≤ (f.mag t).toNat) (h2 : (f.mag t).toNat ≤ (f.mag hi).toNat) :
    Between (f.parts lo) (f.parts hi) (f.parts t) := by
  obtain ⟨a0, b0, c0⟩ := parts_spec f hf lo
  obtain ⟨a1, b1, c1⟩ := parts_spec f hf hi
  obtain ⟨a, b, c⟩ := parts_spec f hf t
  have l1 := parts_le_of f h1
  have l2 := parts_le_of f h2
  refine ⟨?_, ?_, ?_, ?_⟩
  · rw [a0, a]; exact l1.1
  · rw [a0, a, b0, b, c0, c]; exact l1.2
  · rw [a, a1]; exact l2.1
  · rw [a, a1, b, b1, c, c1]; exact l2.2

theorem partsOK_parts (f : FFmt) (hf : f.WF) (t : UInt64) : PartsOK f (f.parts t).1 (f.parts t).2.1.toNat (f.parts t).2.2.toNat := by
  obtain ⟨a, b, c⟩ := parts_spec f hf t
  rw [a, b, c]; exact (parts_ok f _ (f.mag_lt hf t)).1

/-! ### `genUfloatRange` -/

theorem clearLow_zero (sfMin sf : UInt64) (i : Nat) : clearLow sfMin 0 i sf = sf := rfl

/-- the significand group hands on the significand parts of any magnitude of the range whose
    exponent is `e` (no overflow flag raised) -/
theorem ufloatSignif_reaches (ft : FT) (f : FFmt) (hf : f.WF) {p0 p1 pt : Int × UInt64 × UInt64}
    (hok : PartsOK f pt.1 pt.2.1.toNat pt.2.2.toNat) (hb : Between p0 p1 pt) (fuel : Nat) :
    ReachesVal (ufloatSignif ft f.S p0 p1 pt.1 false false (fuel + 1)) (pt.2.1, pt.2.2) := by
  obtain ⟨hsi1, hsi2⟩ := si_in_bounds f hf hok hb
  obtain ⟨hsf1, hsf2⟩ := sf_in_bounds f hf hok hb
  have R1 := uintRangeUnbiased_reaches ft _ _ pt.2.1 hsi1 hsi2 fuel
  have hmaxR : len64 ((sfBounds f.S p0 p1 pt.1 false false pt.2.1).2 - (sfBounds f.S p0 p1 pt.1 false false pt.2.1).1) < 2 ^ 64 := by
    have := len64_le_64 ((sfBounds f.S p0 p1 pt.1 false false pt.2.1).2 - (sfBounds f.S p0 p1 pt.1 false false pt.2.1).1)
    omega
  have R2 := uintNoReject_reaches
    (UInt64.ofNat (len64 ((sfBounds f.S p0 p1 pt.1 false false pt.2.1).2 - (sfBounds f.S p0 p1 pt.1 false false pt.2.1).1)))
    (UInt64.ofNat (len64 ((sfBounds f.S p0 p1 pt.1 false false pt.2.1).2 - (sfBounds f.S p0 p1 pt.1 false false pt.2.1).1)))
    (UInt64.le_refl _)
  have R3 := uintRangeUnbiased_reaches ft _ _ pt.2.2 hsf1 hsf2 fuel
  have R := ReachesVal.bind (q := fun (x : UInt64 × Bool × Bool) (k : UInt64 × UInt64 → Prog) =>
      uintNoReject (UInt64.ofNat (len64 ((sfBounds f.S p0 p1 pt.1 false false x.1).2 - (sfBounds f.S p0 p1 pt.1 false false x.1).1))) fun r' =>
        uintRange ft (sfBounds f.S p0 p1 pt.1 false false x.1).1 (sfBounds f.S p0 p1 pt.1 false false x.1).2 false (fuel + 1) fun sf _ _ =>
          k (x.1, clearLow (sfBounds f.S p0 p1 pt.1 false false x.1).1
            (len64 ((sfBounds f.S p0 p1 pt.1 false false x.1).2 - (sfBounds f.S p0 p1 pt.1 false false x.1).1) - r'.toNat) 0 sf))
    (b := (pt.2.1, pt.2.2)) R1
    (ReachesVal.bind (q := fun (r' : UInt64) (k : UInt64 × UInt64 → Prog) =>
        uintRange ft (sfBounds f.S p0 p1 pt.1 false false pt.2.1).1 (sfBounds f.S p0 p1 pt.1 false false pt.2.1).2 false (fuel + 1) fun sf _ _ =>
          k (pt.2.1, clearLow (sfBounds f.S p0 p1 pt.1 false false pt.2.1).1
            (len64 ((sfBounds f.S p0 p1 pt.1 false false pt.2.1).2 - (sfBounds f.S p0 p1 pt.1 false false pt.2.1).1) - r'.toNat) 0 sf))
      R2 (by
        have := R3.map (fun (y : UInt64 × Bool × Bool) => (pt.2.1, clearLow (sfBounds f.S p0 p1 pt.1 false false pt.2.1).1
          (len64 ((sfBounds f.S p0 p1 pt.1 false false pt.2.1).2 - (sfBounds f.S p0 p1 pt.1 false false pt.2.1).1) -
            (UInt64.ofNat (len64 ((sfBounds f.S p0 p1 pt.1 false false pt.2.1).2 - (sfBounds f.S p0 p1 pt.1 false false pt.2.1).1))).toNat) 0 y.1))
        simp only [ofNat_toNat_small hmaxR, Nat.sub_self, clearLow_zero] at this
        simpa only [ofNat_toNat_small hmaxR, Nat.sub_self, clearLow_zero] using this))
  obtain ⟨ws, hws⟩ := R
  exact ⟨ws, fun k rest ts => hws k rest ts⟩

/-- exponents of formats with at most 11 exponent bits are small -/
theorem parts_exp_small (f : FFmt) (hf : f.WF) (hE : f.E ≤ 11) (t : UInt64) :
    -1024 ≤ (f.parts t).1 ∧ (f.parts t).1 ≤ 2048 ∧ (f.parts t).1 + f.bias < 2048 ∧ 0 ≤ (f.parts t).1 + f.bias := by
  have hok := partsOK_parts f hf t
  have h1 := hok.e_lo; have h2 := hok.e_hi
  have hb : f.bias < 1024 := by
    rw [f.bias_eq hf]
    have : 2 ^ (f.E - 1) ≤ 2 ^ 10 := Nat.pow_le_pow_right (by decide) (by omega)
    omega
  have hp : 2 ^ f.E ≤ 2 ^ 11 := Nat.pow_le_pow_right (by decide) hE
  omega

/-- **`genUfloatRange` hands on the parts of every magnitude between those of its bounds** -/
theorem ufloatRange_reaches (ft : FT) (hs : smallReach ft = true) (hc : 0 < ft.coinHalf ∧ ft.coinHalf < thrNever)
    (f : FFmt) (hf : f.WF) (hE : f.E ≤ 11) (lo hi t : UInt64)
    (hassert : (f.ge0 lo && f.fle lo hi) = true)
    (h1 : (f.mag lo).toNat ≤ (f.mag t).toNat) (h2 : (f.mag t).toNat ≤ (f.mag hi).toNat) (fuel : Nat) :
    ReachesVal (fun (k : Int × UInt64 × UInt64 → Prog) => ufloatRange ft f lo hi (fuel + 1) (fun e si sf => k (e, si, sf)))
      (f.parts t) := by
  have hb := between_of_le f hf lo hi t h1 h2
  have hok := partsOK_parts f hf t
  obtain ⟨l1, l2, l3, l4⟩ := parts_exp_small f hf hE lo
  obtain ⟨u1, u2, u3, u4⟩ := parts_exp_small f hf hE hi
  obtain ⟨t1, t2, _, _⟩ := parts_exp_small f hf hE t
  have RE := (intRange_small_reaches ft hs hc (f.parts lo).1 (f.parts hi).1 (f.parts t).1 hb.lo hb.hi (by omega) (by omega) fuel).group
    floatExpLabel false encTri
  have hte : (Int64.ofInt (f.parts t).1).toInt = (f.parts t).1 := ofInt_toInt_small (by omega)
  have hget : vTriGet (encTri (Int64.ofInt (f.parts t).1, false, false)) = ((f.parts t).1, false, false) := by
    rw [vTriGet_enc, hte]
  have RS := ((ufloatSignif_reaches ft f hf hok hb fuel).group floatSignifLabel false encPair).map
    (fun v2 => ((f.parts t).1, (vPairGet v2).1, (vPairGet v2).2))
  rw [vPairGet_enc] at RS
  have R := ReachesVal.bind (q := fun (v : Val) (k : Int × UInt64 × UInt64 → Prog) =>
      Prog.group floatSignifLabel false
        (ufloatSignif ft f.S (f.parts lo) (f.parts hi) (vTriGet v).1 (vTriGet v).2.1 (vTriGet v).2.2 (fuel + 1)
          fun x => .ret (encPair x))
        (fun _ => false)
        (fun v2 => k ((vTriGet v).1, (vPairGet v2).1, (vPairGet v2).2))) (b := f.parts t) RE (by
      simp only [hget]
      exact RS)
  obtain ⟨ws, hws⟩ := R
  refine ⟨ws, fun k rest ts => ?_⟩
  have := hws k rest ts
  simp only [ufloatRange, hassert, Bool.not_true, Bool.false_eq_true, if_false]
  exact this

/-! ### from the parts back to the bit pattern -/

/-- a word of the format's width is its magnitude plus the sign bit -/
theorem word_decomp (f : FFmt) (hf : f.WF) (t : UInt64) (ht : t.toNat < 2 ^ (f.S + f.E + 1)) :
    t.toNat = (f.mag t).toNat + (if f.isNeg t then 2 ^ (f.S + f.E) else 0) := by
  rw [f.mag_toNat hf, f.isNeg_iff hf, Nat.testBit_eq_decide_div_mod_eq]
  have hd : t.toNat / 2 ^ (f.S + f.E) < 2 := by
    apply Nat.div_lt_of_lt_mul
    rw [Nat.pow_succ] at ht; exact ht
  have hdm := Nat.div_add_mod t.toNat (2 ^ (f.S + f.E))
  generalize t.toNat / 2 ^ (f.S + f.E) = q at hd hdm ⊢
  have hcases : q = 0 ∨ q = 1 := by omega
  rcases hcases with h | h
  · subst h; simp at hdm ⊢; omega
  · subst h; simp at hdm ⊢; omega

theorem word_determined (f : FFmt) (hf : f.WF) (a b : UInt64) (ha : a.toNat < 2 ^ (f.S + f.E + 1)) (hb : b.toNat < 2 ^ (f.S + f.E + 1))
    (hm : f.mag a = f.mag b) (hn : f.isNeg a = f.isNeg b) : a = b := by
  apply UInt64.toNat_inj.mp
  rw [word_decomp f hf a ha, word_decomp f hf b hb, hm, hn]

theorem ufromParts_parts (f : FFmt) (hf : f.WF) (t : UInt64) :
    f.ufromParts (f.parts t).1 (f.parts t).2.1 (f.parts t).2.2 = f.mag t := by
  apply UInt64.toNat_inj.mp
  rw [ufromParts_toNat f hf (partsOK_parts f hf t)]
  obtain ⟨a, b, c⟩ := parts_spec f hf t
  rw [a, b, c]
  exact (parts_ok f _ (f.mag_lt hf t)).2

/-- `floatNNFromParts(sign, parts)` gives the bit pattern back -/
theorem fromParts_parts (f : FFmt) (hf : f.WF) (t : UInt64) (ht : t.toNat < 2 ^ (f.S + f.E + 1)) :
    f.fromParts (f.isNeg t) (f.parts t).1 (f.parts t).2.1 (f.parts t).2.2 = t := by
  simp only [FFmt.fromParts, ufromParts_parts f hf t]
  have hml := f.mag_lt hf t
  have hmm : f.mag (f.mag t) = f.mag t := f.mag_of_lt hf hml
  have hmn : f.isNeg (f.mag t) = false := f.isNeg_of_lt hf hml
  cases hn : f.isNeg t
  · simp only [Bool.false_eq_true, if_false]
    exact word_determined f hf _ _ (Nat.lt_of_lt_of_le hml (Nat.pow_le_pow_right (by decide) (by omega))) ht hmm (by rw [hmn, hn])
  · simp only [if_true]
    have hlt : (f.fneg (f.mag t)).toNat < 2 ^ (f.S + f.E + 1) := by
      simp only [FFmt.fneg, UInt64.toNat_xor, f.signBit_toNat hf]
      apply Nat.xor_lt_two_pow
      · exact Nat.lt_of_lt_of_le hml (Nat.pow_le_pow_right (by decide) (by omega))
      · exact Nat.pow_lt_pow_right (by decide) (by omega)
    exact word_determined f hf _ _ hlt ht (by rw [f.mag_fneg hf, hmm]) (by rw [f.isNeg_fneg hf, hmn, hn]; rfl)

/-! ### `Float32Range` / `Float64Range`: every value of the range is produced -/

theorem R_case1 {n0 n1 : Bool} {m0 m1 mt : Nat} (hge : (!n0 || decide (m0 = 0)) = true)
    (h1 : K n0 m0 ≤ K false mt) (h2 : K false mt ≤ K n1 m1) : m0 ≤ mt ∧ mt ≤ m1 := by
  cases n0 <;> cases n1 <;> simp only [K, Bool.false_eq_true, if_false, if_true] at h1 h2 <;> simp at hge <;> omega

theorem R_case2 {n0 n1 : Bool} {m0 m1 mt : Nat} (hge : (!n0 || decide (m0 = 0)) = false)
    (hle : (n1 || decide (m1 = 0)) = true) (h1 : K n0 m0 ≤ K true mt) (h2 : K true mt ≤ K n1 m1) : m1 ≤ mt ∧ mt ≤ m0 := by
  cases n0 <;> cases n1 <;> simp only [K, Bool.false_eq_true, if_false, if_true] at h1 h2 <;> simp at hge hle <;> omega

theorem R_case3 {n0 n1 nt : Bool} {m0 m1 mt : Nat} (hge : (!n0 || decide (m0 = 0)) = false)
    (hle : (n1 || decide (m1 = 0)) = false) (h1 : K n0 m0 ≤ K nt mt) (h2 : K nt mt ≤ K n1 m1) :
    n0 = true ∧ n1 = false ∧ (nt = false → mt ≤ m1) ∧ (nt = true → mt ≤ m0) := by
  cases n0 <;> cases n1 <;> cases nt <;> simp only [K, Bool.false_eq_true, if_false, if_true] at h1 h2 <;> simp at hge hle <;>
    (refine ⟨rfl, rfl, ?_, ?_⟩ <;> intro h <;> first | omega | cases h)

/-- the values `Float32Range/Float64Range(min, max)` can produce: in range, not NaN, and with the
    sign the range admits (a range on one side of zero produces the zero of that side only) -/
def FloatTarget (f : FFmt) (min max t : UInt64) : Prop :=
  FloatOK f min max t ∧ t.toNat < 2 ^ (f.S + f.E + 1) ∧
  (f.ge0 min = true → f.isNeg t = false) ∧ (f.ge0 min = false → f.le0 max = true → f.isNeg t = true)

/-- **every float the range allows is produced by some bit stream** (formats with at most 11
    exponent bits: float32 and float64) -/
theorem floatValue_reaches (ft : FT) (hs : smallReach ft = true) (hc : 0 < ft.coinHalf ∧ ft.coinHalf < thrNever)
    (f : FFmt) (hf : f.WF) (hE : f.E ≤ 11) (min max t : UInt64) (hok : floatRangeOK f min max = true)
    (ht : FloatTarget f min max t) (fuel : Nat) : ReachesVal (floatValue ft f min max (fuel + 1)) t := by
  obtain ⟨⟨hfle1, hfle2, _⟩, htw, hsg1, hsg2⟩ := ht
  simp only [floatRangeOK, Bool.and_eq_true, Bool.not_eq_true'] at hok
  obtain ⟨_, hfle⟩ := hok
  rw [f.fle_eq] at hfle1 hfle2
  have k1 := of_decide_eq_true hfle1
  have k2 := of_decide_eq_true hfle2
  -- one branch: sign `sg`, bounds `lo`, `hi`
  have branch : ∀ (lo hi : UInt64), (f.ge0 lo && f.fle lo hi) = true →
      (f.mag lo).toNat ≤ (f.mag t).toNat → (f.mag t).toNat ≤ (f.mag hi).toNat →
      ReachesVal (fun (k : UInt64 → Prog) => ufloatRange ft f lo hi (fuel + 1) (fun e si sf => k (f.fromParts (f.isNeg t) e si sf))) t := by
    intro lo hi hassert h1 h2
    have := (ufloatRange_reaches ft hs hc f hf hE lo hi t hassert h1 h2 fuel).map
      (fun (x : Int × UInt64 × UInt64) => f.fromParts (f.isNeg t) x.1 x.2.1 x.2.2)
    rw [fromParts_parts f hf t htw] at this
    exact this
  have R : ReachesVal (fun (k : UInt64 → Prog) =>
      coin (if f.ge0 min then thrNever else if f.le0 max then thrAlways else ft.coinHalf) fun neg =>
        if neg = true then ufloatRange ft f (if f.ge0 min then 0 else if f.le0 max then f.fneg max else 0) (f.fneg min) (fuel + 1)
            (fun e si sf => k (f.fromParts true e si sf))
        else ufloatRange ft f (if f.ge0 min then min else 0) max (fuel + 1) (fun e si sf => k (f.fromParts false e si sf))) t := by
    refine ReachesVal.bind (p := coin _) (a := f.isNeg t) (q := fun neg k =>
      if neg = true then ufloatRange ft f (if f.ge0 min then 0 else if f.le0 max then f.fneg max else 0) (f.fneg min) (fuel + 1)
          (fun e si sf => k (f.fromParts true e si sf))
      else ufloatRange ft f (if f.ge0 min then min else 0) max (fuel + 1) (fun e si sf => k (f.fromParts false e si sf))) ?_ ?_
    · -- the sign coin
      by_cases hge : f.ge0 min = true
      · rw [hsg1 hge]; simp only [hge, if_true]; exact coin_reaches_false thrNever (by decide)
      · simp only [Bool.not_eq_true] at hge
        by_cases hle : f.le0 max = true
        · rw [hsg2 hge hle]; simp only [hge, hle, Bool.false_eq_true, if_false, if_true]; exact coin_reaches_true thrAlways (by decide)
        · simp only [Bool.not_eq_true] at hle
          simp only [hge, hle, Bool.false_eq_true, if_false]
          cases f.isNeg t
          · exact coin_reaches_false _ hc.1
          · exact coin_reaches_true _ hc.2
    · -- the branch taken
      by_cases hge : f.ge0 min = true
      · have hn := hsg1 hge
        rw [hn] at k1 k2
        obtain ⟨a1, a2⟩ := R_case1 (by rw [← f.ge0_eq]; exact hge) k1 k2
        have := branch min max (by simp [hge, hfle]) a1 a2
        rw [hn] at this ⊢
        simpa only [Bool.false_eq_true, if_false, hge, if_true] using this
      · simp only [Bool.not_eq_true] at hge
        by_cases hle : f.le0 max = true
        · have hn := hsg2 hge hle
          rw [hn] at k1 k2
          obtain ⟨a1, a2⟩ := R_case2 (by rw [← f.ge0_eq]; exact hge) (by rw [← f.le0_eq]; exact hle) k1 k2
          have := branch (f.fneg max) (f.fneg min) (by rw [f.ge0_fneg hf, f.fle_fneg hf]; simp [hle, hfle])
            (by rw [f.mag_fneg hf]; exact a1) (by rw [f.mag_fneg hf]; exact a2)
          rw [hn] at this ⊢
          simpa only [if_true, hge, Bool.false_eq_true, if_false, hle] using this
        · simp only [Bool.not_eq_true] at hle
          obtain ⟨h0, h1, b1, b2⟩ := R_case3 (by rw [← f.ge0_eq]; exact hge) (by rw [← f.le0_eq]; exact hle) k1 k2
          cases hn : f.isNeg t
          · have := branch 0 max (by rw [f.ge0_eq, f.fle_eq, f.isNeg_zero, f.mag_zero, h1]; simp [K])
              (by rw [f.mag_zero]; simp) (b1 hn)
            rw [hn] at this
            simpa only [Bool.false_eq_true, if_false, hge] using this
          · have := branch 0 (f.fneg min) (by rw [f.ge0_eq, f.fle_eq, f.isNeg_zero, f.mag_zero, f.isNeg_fneg hf, f.mag_fneg hf, h0]; simp [K])
              (by rw [f.mag_zero]; simp) (by rw [f.mag_fneg hf]; exact b2 hn)
            rw [hn] at this
            simpa only [if_true, hge, Bool.false_eq_true, if_false, hle] using this
  obtain ⟨ws, hws⟩ := R
  refine ⟨ws, fun k rest ts => ?_⟩
  have := hws k rest ts
  simp only [floatValue, floatRange]
  exact this

end Rapid
