/-
  RapidProofs.ContractsInt — `genIntRange`: the sign split, the magnitudes and the negation
  (including `-MinInt64`) hand on a value inside `[min, max]`, for every bit source.
-/
import RapidProofs.Contracts

namespace Rapid

/-! ### the 64-bit sign arithmetic -/

theorem bv_neg_case (mn mx u : BitVec 64) (h1 : mn.toInt < 0) (h2 : mx.toInt ≤ 0) (h3 : mn.toInt ≤ mx.toInt)
    (hu1 : (-mx).toNat ≤ u.toNat) (hu2 : u.toNat ≤ (-mn).toNat) : mn.toInt ≤ (-u).toInt ∧ (-u).toInt ≤ mx.toInt := by
  simp only [BitVec.toInt_eq_toNat_cond, BitVec.toNat_neg] at *
  have := mn.isLt; have := mx.isLt; have := u.isLt
  omega

theorem bv_neg_case2 (mn mx u : BitVec 64) (h1 : mn.toInt < 0) (h2 : 0 < mx.toInt)
    (hu1 : 1 ≤ u.toNat) (hu2 : u.toNat ≤ (-mn).toNat) : mn.toInt ≤ (-u).toInt ∧ (-u).toInt ≤ mx.toInt := by
  simp only [BitVec.toInt_eq_toNat_cond, BitVec.toNat_neg] at *
  have := mn.isLt; have := mx.isLt; have := u.isLt
  omega

theorem bv_pos_case (mn mx u : BitVec 64) (h1 : 0 ≤ mn.toInt) (h3 : mn.toInt ≤ mx.toInt)
    (hu1 : mn.toNat ≤ u.toNat) (hu2 : u.toNat ≤ mx.toNat) : mn.toInt ≤ u.toInt ∧ u.toInt ≤ mx.toInt := by
  simp only [BitVec.toInt_eq_toNat_cond] at *
  have := mn.isLt; have := mx.isLt; have := u.isLt
  omega

theorem bv_pos_case2 (mn mx u : BitVec 64) (h1 : mn.toInt < 0) (h2 : 0 < mx.toInt)
    (hu2 : u.toNat ≤ mx.toNat) : mn.toInt ≤ u.toInt ∧ u.toInt ≤ mx.toInt := by
  simp only [BitVec.toInt_eq_toNat_cond] at *
  have := mn.isLt; have := mx.isLt; have := u.isLt
  omega

/-! ### the coin -/

theorem bitmask53 : bitmask64 53 = 0x1FFFFFFFFFFFFF := by decide

theorem mask53_lt (w : UInt64) : mask 53 w < thrNever := by
  have h : mask 53 w ≤ bitmask64 53 := UInt64.and_le_right
  rw [bitmask53] at h
  rw [UInt64.lt_iff_toNat_lt]
  rw [UInt64.le_iff_toNat_le] at h
  have : thrNever.toNat = 0x20000000000000 := rfl
  have h2 : (0x1FFFFFFFFFFFFF : UInt64).toNat = 0x1FFFFFFFFFFFFF := rfl
  omega

theorem next53_lt {src src' : Src} {u : UInt64} (h : src.next 53 = some (u, src')) : u < thrNever := by
  cases src with
  | buf ws =>
    cases ws with
    | nil => simp [Src.next] at h
    | cons w ws => simp only [Src.next, Option.some.injEq, Prod.mk.injEq] at h; rw [← h.1]; exact mask53_lt w
  | rng x =>
    simp only [Src.next, show (53 : Nat) ≤ 64 by decide, if_true, Option.some.injEq, Prod.mk.injEq] at h
    rw [← h.1]; exact mask53_lt _

/-- `flipBiasedCoin`: with `p = 0` it is never true, with `p = 1` always -/
theorem yields_coin (thr : UInt64) :
    Yields (coin thr) (fun b => (thr = thrNever → b = false) ∧ (thr = thrAlways → b = true)) := by
  intro k src ts
  simp only [coin, run_draw_group]
  cases h : src.next 53 with
  | none => right; exact ⟨_, rfl, Or.inl rfl, rfl⟩
  | some r =>
    obtain ⟨u, src'⟩ := r
    left
    refine ⟨(Val.bool (decide (thr ≤ u)) == vTrue), ⟨?_, ?_⟩, src', _, _, _, _, by simp, rfl⟩
    · intro ht
      subst ht
      have := next53_lt h
      have hn : ¬ thrNever ≤ u := by rw [UInt64.le_iff_toNat_le]; rw [UInt64.lt_iff_toNat_lt] at this; omega
      simp [hn, vTrue]
    · intro ht
      subst ht
      have : thrAlways ≤ u := by rw [UInt64.le_iff_toNat_le]; simp [thrAlways]
      simp [this, vTrue]

/-! ### `genIntRange` -/

theorem i64_toInt (x : Int64) : x.toInt = x.toBitVec.toInt := rfl
theorem u64_toNat (x : UInt64) : x.toNat = x.toBitVec.toNat := rfl

theorem i64_round (x : Int64) : x.toUInt64.toInt64 = x := by
  apply Int64.toBitVec_inj.mp; simp

theorem i64_neg_neg (x : Int64) : -(-x) = x := by
  apply Int64.toBitVec_inj.mp; simp

/-- **`genIntRange`**: a value in `[min, max]` or no value; a raised overflow flag means the
    value is that end of the range -/
theorem yields_intRange_flags (ft : FT) (min max : Int64) (fuel : Nat) (hmm : min ≤ max) :
    Yields (fun (k : Int64 × Bool × Bool → Prog) => intRange ft min max fuel (fun i l r => k (i, l, r)))
      (fun x => (min ≤ x.1 ∧ x.1 ≤ max) ∧ (x.2.1 = true → x.1 = min) ∧ (x.2.2 = true → x.1 = max)) := by
  intro k src ts
  have hng : ¬ min > max := by
    rw [gt_iff_lt, Int64.lt_iff_toInt_lt]; rw [Int64.le_iff_toInt_le] at hmm; omega
  have hmm' : min.toBitVec.toInt ≤ max.toBitVec.toInt := Int64.le_iff_toInt_le.mp hmm
  simp only [intRange, hng, if_false]
  generalize hfl : decide (min ≥ 0) = fl
  generalize hfr : decide (max ≤ 0) = fr
  rcases yields_coin _ (fun neg =>
      if neg then
        uintRange ft (if min ≥ 0 then 0 else if max ≤ 0 then (-max).toUInt64 else 1) (-min).toUInt64 true fuel fun u l r =>
          k (-(u.toInt64), r, (l && fr))
      else
        uintRange ft (if min ≥ 0 then min.toUInt64 else 0) max.toUInt64 true fuel fun u l r =>
          k (u.toInt64, (l && fl), r)) src ts with ⟨neg, ⟨hnev, halw⟩, src1, u1, k1, t1, ov1, hne1, hrun⟩ | ⟨e, he, hk, hev⟩
  · rw [hrun]
    by_cases hmin : min ≥ 0
    · -- non-negative range: the coin is never true
      have hneg : neg = false := hnev (by simp [hmin])
      subst hneg
      simp only [Bool.false_eq_true, if_false, hmin, if_true]
      have hmin0 : 0 ≤ min.toBitVec.toInt := by
        have : (0 : Int64).toInt ≤ min.toBitVec.toInt := Int64.le_iff_toInt_le.mp hmin
        rwa [Int64.toInt_zero] at this
      have hle : min.toUInt64 ≤ max.toUInt64 := by
        rw [UInt64.le_iff_toNat_le, u64_toNat, u64_toNat, Int64.toBitVec_toUInt64, Int64.toBitVec_toUInt64]
        simp only [BitVec.toInt_eq_toNat_cond] at hmin0 hmm'
        have := min.toBitVec.isLt; have := max.toBitVec.isLt
        omega
      rcases yields_uintRange_flags ft min.toUInt64 max.toUInt64 true fuel hle
          (fun x => k (x.1.toInt64, (x.2.1 && fl), x.2.2)) src1 ts with ⟨a, ⟨⟨ha1, ha2⟩, hafl, hafr⟩, src2, u2, k2, t2, ov2, _, hr2⟩ | ⟨e, he, hk, hev⟩
      · left
        refine ⟨(a.1.toInt64, _, _), ⟨?_, ?_, ?_⟩, src2, _, _, _, _, ?_, by have h := hr2; dsimp only at h; rw [h, after_after0]⟩
        rotate_left
        · intro hl; simp only [Bool.and_eq_true] at hl; rw [hafl hl.1]; exact i64_round min
        · intro hr; rw [hafr hr]; exact i64_round max
        · simp [hne1]
        have h1 : min.toBitVec.toNat ≤ a.1.toBitVec.toNat := by
          have := UInt64.le_iff_toNat_le.mp ha1
          rwa [u64_toNat, u64_toNat, Int64.toBitVec_toUInt64] at this
        have h2 : a.1.toBitVec.toNat ≤ max.toBitVec.toNat := by
          have := UInt64.le_iff_toNat_le.mp ha2
          rwa [u64_toNat, u64_toNat, Int64.toBitVec_toUInt64] at this
        have := bv_pos_case min.toBitVec max.toBitVec a.1.toBitVec hmin0 hmm' h1 h2
        simp only [Int64.le_iff_toInt_le, i64_toInt, UInt64.toBitVec_toInt64]
        exact this
      · right
        exact ⟨e, by have h := he; dsimp only at h; simp only [after_res]; exact h, hk, by have h := hev; dsimp only at h; simp only [after_evs, h, List.append_nil]⟩
    · simp only [hmin, if_false]
      have hminneg : min.toBitVec.toInt < 0 := by
        have : ¬ (0 : Int64).toInt ≤ min.toBitVec.toInt := fun h => hmin (Int64.le_iff_toInt_le.mpr h)
        rw [Int64.toInt_zero] at this; omega
      by_cases hmax : max ≤ 0
      · -- non-positive range: the coin is always true
        have hneg : neg = true := halw (by simp [hmin, hmax])
        subst hneg
        simp only [if_true, hmax]
        have hmax0 : max.toBitVec.toInt ≤ 0 := by
          have : max.toBitVec.toInt ≤ (0 : Int64).toInt := Int64.le_iff_toInt_le.mp hmax
          rwa [Int64.toInt_zero] at this
        have hle : (-max).toUInt64 ≤ (-min).toUInt64 := by
          rw [UInt64.le_iff_toNat_le, u64_toNat, u64_toNat, Int64.toBitVec_toUInt64, Int64.toBitVec_toUInt64,
            Int64.toBitVec_neg, Int64.toBitVec_neg]
          simp only [BitVec.toInt_eq_toNat_cond, BitVec.toNat_neg] at *
          have := min.toBitVec.isLt; have := max.toBitVec.isLt
          omega
        rcases yields_uintRange_flags ft (-max).toUInt64 (-min).toUInt64 true fuel hle
            (fun x => k (-(x.1.toInt64), x.2.2, (x.2.1 && fr))) src1 ts with ⟨a, ⟨⟨ha1, ha2⟩, hafl, hafr⟩, src2, u2, k2, t2, ov2, _, hr2⟩ | ⟨e, he, hk, hev⟩
        · left
          refine ⟨(-(a.1.toInt64), _, _), ⟨?_, ?_, ?_⟩, src2, _, _, _, _, ?_, by have h := hr2; dsimp only at h; rw [h, after_after0]⟩
          rotate_left
          · intro hl; rw [hafr hl]; dsimp only; rw [i64_round]; exact i64_neg_neg min
          · intro hr; simp only [Bool.and_eq_true] at hr; rw [hafl hr.1]; dsimp only; rw [i64_round]; exact i64_neg_neg max
          · simp [hne1]
          have h1 : (-max.toBitVec).toNat ≤ a.1.toBitVec.toNat := by
            have := UInt64.le_iff_toNat_le.mp ha1
            rwa [u64_toNat, u64_toNat, Int64.toBitVec_toUInt64, Int64.toBitVec_neg] at this
          have h2 : a.1.toBitVec.toNat ≤ (-min.toBitVec).toNat := by
            have := UInt64.le_iff_toNat_le.mp ha2
            rwa [u64_toNat, u64_toNat, Int64.toBitVec_toUInt64, Int64.toBitVec_neg] at this
          have := bv_neg_case min.toBitVec max.toBitVec a.1.toBitVec hminneg hmax0 hmm' h1 h2
          simp only [Int64.le_iff_toInt_le, i64_toInt, Int64.toBitVec_neg, UInt64.toBitVec_toInt64]
          exact this
        · right
          exact ⟨e, by have h := he; dsimp only at h; simp only [after_res]; exact h, hk, by have h := hev; dsimp only at h; simp only [after_evs, h, List.append_nil]⟩
      · simp only [hmax, if_false]
        have hmaxpos : 0 < max.toBitVec.toInt := by
          have : ¬ max.toBitVec.toInt ≤ (0 : Int64).toInt := fun h => hmax (Int64.le_iff_toInt_le.mpr h)
          rw [Int64.toInt_zero] at this; omega
        cases neg
        · simp only [Bool.false_eq_true, if_false]
          have hle : (0 : UInt64) ≤ max.toUInt64 := by rw [UInt64.le_iff_toNat_le]; simp
          rcases yields_uintRange_flags ft 0 max.toUInt64 true fuel hle
              (fun x => k (x.1.toInt64, (x.2.1 && fl), x.2.2)) src1 ts with ⟨a, ⟨⟨_, ha2⟩, hafl, hafr⟩, src2, u2, k2, t2, ov2, _, hr2⟩ | ⟨e, he, hk, hev⟩
          · left
            refine ⟨(a.1.toInt64, _, _), ⟨?_, ?_, ?_⟩, src2, _, _, _, _, ?_, by have h := hr2; dsimp only at h; rw [h, after_after0]⟩
            rotate_left
            · intro hl; simp only [Bool.and_eq_true] at hl
              have : fl = false := by rw [← hfl]; simp [hmin]
              rw [this] at hl; exact absurd hl.2 (by simp)
            · intro hr; rw [hafr hr]; exact i64_round max
            · simp [hne1]
            have h2 : a.1.toBitVec.toNat ≤ max.toBitVec.toNat := by
              have := UInt64.le_iff_toNat_le.mp ha2
              rwa [u64_toNat, u64_toNat, Int64.toBitVec_toUInt64] at this
            have := bv_pos_case2 min.toBitVec max.toBitVec a.1.toBitVec hminneg hmaxpos h2
            simp only [Int64.le_iff_toInt_le, i64_toInt, UInt64.toBitVec_toInt64]
            exact this
          · right
            exact ⟨e, by have h := he; dsimp only at h; simp only [after_res]; exact h, hk, by have h := hev; dsimp only at h; simp only [after_evs, h, List.append_nil]⟩
        · simp only [if_true]
          have hle : (1 : UInt64) ≤ (-min).toUInt64 := by
            have h1 : (1 : UInt64).toNat = 1 := rfl
            have h2 : (-min).toUInt64.toNat = (-min.toBitVec).toNat := by
              rw [u64_toNat, Int64.toBitVec_toUInt64, Int64.toBitVec_neg]
            rw [UInt64.le_iff_toNat_le, h1, h2]
            simp only [BitVec.toInt_eq_toNat_cond, BitVec.toNat_neg] at *
            have := min.toBitVec.isLt
            omega
          rcases yields_uintRange_flags ft 1 (-min).toUInt64 true fuel hle
              (fun x => k (-(x.1.toInt64), x.2.2, (x.2.1 && fr))) src1 ts with ⟨a, ⟨⟨ha1, ha2⟩, hafl, hafr⟩, src2, u2, k2, t2, ov2, _, hr2⟩ | ⟨e, he, hk, hev⟩
          · left
            refine ⟨(-(a.1.toInt64), _, _), ⟨?_, ?_, ?_⟩, src2, _, _, _, _, ?_, by have h := hr2; dsimp only at h; rw [h, after_after0]⟩
            rotate_left
            · intro hl; rw [hafr hl]; dsimp only; rw [i64_round]; exact i64_neg_neg min
            · intro hr; simp only [Bool.and_eq_true] at hr
              have : fr = false := by rw [← hfr]; simp [hmax]
              rw [this] at hr; exact absurd hr.2 (by simp)
            · simp [hne1]
            have h1 : 1 ≤ a.1.toBitVec.toNat := by
              have := UInt64.le_iff_toNat_le.mp ha1
              rwa [u64_toNat, u64_toNat] at this
            have h2 : a.1.toBitVec.toNat ≤ (-min.toBitVec).toNat := by
              have := UInt64.le_iff_toNat_le.mp ha2
              rwa [u64_toNat, u64_toNat, Int64.toBitVec_toUInt64, Int64.toBitVec_neg] at this
            have := bv_neg_case2 min.toBitVec max.toBitVec a.1.toBitVec hminneg hmaxpos h1 h2
            simp only [Int64.le_iff_toInt_le, i64_toInt, Int64.toBitVec_neg, UInt64.toBitVec_toInt64]
            exact this
          · right
            exact ⟨e, by have h := he; dsimp only at h; simp only [after_res]; exact h, hk, by have h := hev; dsimp only at h; simp only [after_evs, h, List.append_nil]⟩
  · right
    exact ⟨e, he, hk, hev⟩

theorem yields_intRange (ft : FT) (min max : Int64) (fuel : Nat) (hmm : min ≤ max) :
    Yields (fun (k : Int64 × Bool × Bool → Prog) => intRange ft min max fuel (fun i l r => k (i, l, r)))
      (fun x => min ≤ x.1 ∧ x.1 ≤ max) := (yields_intRange_flags ft min max fuel hmm).mono fun _ h => h.1

end Rapid
