/-
  RapidProofs.PruneProp — from generators to property functions and to the engine:
  a property function that draws from (Custom-free) generators and otherwise uses the `*T`
  API is prune-stable; a prune-stable property whose failing runs end in a value or failure of
  the body satisfies the engine-level `PruneStable` used by the C01 theorems.
-/
import RapidProofs.PruneGen
import RapidProofs.Shrink

namespace Rapid

/-- property functions: draws of generators, the `*T` API, any branching on drawn values -/
inductive PropProg (e : Env) : Prog → Prop
  | ret (v : Val) : PropProg e (.ret v)
  | throw (er : Err) : PropProg e (.throw er)
  | draw (g : Gen) (k : Val → Prog) : g.NoCustom → (∀ v, PropProg e (k v)) → PropProg e (g.draw e k)
  | errorf (m : String) (k : Prog) : PropProg e k → PropProg e (.errorf m k)
  | emit (id : Nat) (k : Prog) : PropProg e k → PropProg e (.emit id k)
  | cleanup (c : CTree) (k : Prog) : PropProg e k → PropProg e (.cleanup c k)
  | ctx (k : Prog) : PropProg e k → PropProg e (.ctx k)
  | failOnError (site : Nat) (k : Prog) : PropProg e k → PropProg e (.failOnError site k)

/-- **L-PS for property functions** -/
theorem propProg_ps (e : Env) (hrt : RTPos e) {p : Prog} (h : PropProg e p) : PS p := by
  induction h with
  | ret v => exact ps_ret v
  | throw er => exact ps_throw er
  | draw g k hg _ ih =>
    exact ps_bind _ _ (gen_value_good e hrt g hg).ps (fun v => ps_tick _ (ih v))
  | errorf m k _ ih => exact ps_errorf m k ih
  | emit id k _ ih => exact ps_emit id k ih
  | cleanup c k _ ih => exact ps_cleanup c k ih
  | ctx k _ ih => exact ps_ctx k ih
  | failOnError site k _ ih => exact ps_failOnError site k ih

/-- every failing test case ends with the body producing a value or a failure (not with the body
    skipping while a non-fatal failure is pending, and not out of model fuel) -/
def BodyGood (p : Prog) : Prop :=
  ∀ src e, (checkOnce p src TS.fresh).err = some e → e.isInvalid = false → Good (p.run src TS.fresh)

/-- from L-PS to the hypothesis of the C01 theorems -/
theorem pruneStable_of_ps {p : Prog} (hps : PS p) (hbg : BodyGood p) : PruneStable p := by
  intro src ⟨e, he, hinv⟩
  have hgood := hbg src e he hinv
  have e2 : ({ TS.fresh with ctxCount := 0 } : TS) = TS.fresh := rfl
  have r := hps src TS.fresh [] hgood (fun _ => rfl)
  simp only [List.append_nil] at r
  simp only [checkOnce_def, bodyOf, e2]
  rw [r.res, r.ts]

/-- a property that never touches the `*T` except by failing fatally (Fatal*/panic) and whose
    loops do not run out of model fuel -/
theorem bodyGood_of_pure {p : Prog} (hp : TsPure p) (hfuel : ∀ src, (p.run src TS.fresh).res ≠ .error .fuel) : BodyGood p := by
  intro src e he hinv
  have e2 : ({ TS.fresh with ctxCount := 0 } : TS) = TS.fresh := rfl
  simp only [checkOnce_def, bodyOf, e2, hp src TS.fresh] at he
  have hc : (cleanupPhase TS.fresh).err = none ∧ (cleanupPhase TS.fresh).ts.failed = none := by decide
  simp only [hc.1, hc.2] at he
  intro e' he'
  rw [he'] at he
  simp only [Option.some.injEq] at he
  subst he
  exact ⟨hinv, fun h => hfuel src (by rw [he', h])⟩

end Rapid
