/-
  RapidProofs.ScriptExec — running a `Script` (a pass of the shrinker: `get` the shrinker's state, `try_` a candidate)
  against an arbitrary shrinker: a state `σ`, what a pass can see of it, and what `accept` answers.  `Script.run p`
  (RapidModel/Passes.lean) is the instance for rapid's `accept` on a property `p`.

  `Agree` is the relation between a pass as translated from the source (`Go.SM`: a script whose result is a value or
  a Go panic) and the hand-written pass of the model: they ask the same questions in the same states and end in the
  same state — unless the translated loop ran out of fuel, which is a deadline cut (any prefix of a pass is a legal run).
-/
import RapidModel.GoScript
import RapidModel.Passes

namespace Rapid

open Rapid.Go

structure Oracle (σ : Type) where
  view : σ → View
  accept : σ → List UInt64 → Option (Bool × σ)     -- `none`: accept does not return (it panics with the mismatch)

inductive Res (σ α : Type) where
  | done (a : α) (s : σ)
  | oob (s : σ)                            -- an index or slice expression out of range
  | stop (s : σ) (buf : List UInt64)       -- `accept` did not return on `buf` in state `s`

def Script.exec {σ α : Type} (o : Oracle σ) : Script α → σ → Res σ α
  | .ret a, s => .done a s
  | .get k, s => (k (o.view s)).exec o s
  | .try_ buf k, s =>
    match o.accept s buf with
    | none => .stop s buf
    | some (b, s') => (k b).exec o s'
  | .oob, s => .oob s

def Res.bind {σ α β : Type} (r : Res σ α) (f : α → σ → Res σ β) : Res σ β :=
  match r with
  | .done a s => f a s
  | .oob s => .oob s
  | .stop s b => .stop s b

@[simp] theorem Res.bind_done {σ α β : Type} (a : α) (s : σ) (f : α → σ → Res σ β) : (Res.done a s).bind f = f a s := rfl
@[simp] theorem Res.bind_oob {σ α β : Type} (s : σ) (f : α → σ → Res σ β) : (Res.oob s : Res σ α).bind f = .oob s := rfl
@[simp] theorem Res.bind_stop {σ α β : Type} (s : σ) (b : List UInt64) (f : α → σ → Res σ β) :
    (Res.stop s b : Res σ α).bind f = .stop s b := rfl

theorem Script.exec_bind {σ α β : Type} (o : Oracle σ) (x : Script α) (f : α → Script β) (s : σ) :
    (x.bind f).exec o s = (x.exec o s).bind fun a s' => (f a).exec o s' := by
  induction x generalizing s with
  | ret a => rfl
  | get k ih => simp only [Script.bind, Script.exec]; exact ih _ s
  | try_ buf k ih =>
    simp only [Script.bind, Script.exec]
    cases o.accept s buf with
    | none => rfl
    | some r => exact ih _ _
  | oob => rfl

@[simp] theorem Script.exec_bind' {σ α β : Type} (o : Oracle σ) (x : Script α) (f : α → Script β) (s : σ) :
    (x >>= f).exec o s = (x.exec o s).bind fun a s' => (f a).exec o s' := Script.exec_bind o x f s

@[simp] theorem Script.exec_pure {σ α : Type} (o : Oracle σ) (a : α) (s : σ) : (pure a : Script α).exec o s = .done a s := rfl
@[simp] theorem Script.exec_ret {σ α : Type} (o : Oracle σ) (a : α) (s : σ) : (Script.ret a : Script α).exec o s = .done a s := rfl
@[simp] theorem Script.exec_getV {σ : Type} (o : Oracle σ) (s : σ) : getV.exec o s = .done (o.view s) s := rfl
@[simp] theorem Script.exec_oobS {σ α : Type} (o : Oracle σ) (s : σ) : (oobS : Script α).exec o s = .oob s := rfl
@[simp] theorem Script.exec_orOob_some {σ α : Type} (o : Oracle σ) (a : α) (s : σ) : (orOob (some a)).exec o s = .done a s := rfl
@[simp] theorem Script.exec_orOob_none {σ α : Type} (o : Oracle σ) (s : σ) : (orOob (none : Option α)).exec o s = .oob s := rfl
theorem Script.exec_tryBuf {σ : Type} (o : Oracle σ) (buf : List UInt64) (s : σ) :
    (tryBuf buf).exec o s = match o.accept s buf with | none => .stop s buf | some (b, s') => .done b s' := by
  simp only [tryBuf, Script.exec]

/-! ### the translated side: `Go.SM` -/

/-- a translated script run against the shrinker `o` -/
def SM.exec {σ α : Type} (o : Oracle σ) (x : SM α) (s : σ) : Res σ (Except Panic α) := Script.exec o x s

/-- sequencing in `Go.SM`: a panic ends the script -/
def Res.bindE {σ α β : Type} (r : Res σ (Except Panic α)) (f : α → σ → Res σ (Except Panic β)) : Res σ (Except Panic β) :=
  match r with
  | .done (.ok a) s => f a s
  | .done (.error e) s => .done (.error e) s
  | .oob s => .oob s
  | .stop s b => .stop s b

@[simp] theorem Res.bindE_ok {σ α β : Type} (a : α) (s : σ) (f : α → σ → Res σ (Except Panic β)) :
    (Res.done (.ok a) s : Res σ (Except Panic α)).bindE f = f a s := rfl
@[simp] theorem Res.bindE_error {σ α β : Type} (e : Panic) (s : σ) (f : α → σ → Res σ (Except Panic β)) :
    (Res.done (.error e) s : Res σ (Except Panic α)).bindE f = .done (.error e) s := rfl
@[simp] theorem Res.bindE_stop {σ α β : Type} (s : σ) (b : List UInt64) (f : α → σ → Res σ (Except Panic β)) :
    (Res.stop s b : Res σ (Except Panic α)).bindE f = .stop s b := rfl

theorem Res.bindE_assoc {σ α β γ : Type} (r : Res σ (Except Panic α)) (f : α → σ → Res σ (Except Panic β))
    (g : β → σ → Res σ (Except Panic γ)) : (r.bindE f).bindE g = r.bindE fun a s => (f a s).bindE g := by
  cases r with
  | done x s => cases x <;> rfl
  | oob s => rfl
  | stop s b => rfl

theorem Res.bind_assoc {σ α β γ : Type} (r : Res σ α) (f : α → σ → Res σ β) (g : β → σ → Res σ γ) :
    (r.bind f).bind g = r.bind fun a s => (f a s).bind g := by
  cases r <;> rfl

@[simp] theorem SM.exec_bind {σ α β : Type} (o : Oracle σ) (x : SM α) (f : α → SM β) (s : σ) :
    SM.exec o (x >>= f) s = (SM.exec o x s).bindE fun a s' => SM.exec o (f a) s' := by
  have h := Script.exec_bind o (show Script (Except Panic α) from x)
    (fun r => match r with
      | .ok a => (show Script (Except Panic β) from f a)
      | .error e => Script.ret (.error e)) s
  refine Eq.trans h ?_
  show (Script.exec o (show Script (Except Panic α) from x) s).bind _ = (Script.exec o (show Script (Except Panic α) from x) s).bindE _
  cases Script.exec o (show Script (Except Panic α) from x) s with
  | done r s' =>
    cases r with
    | ok a => rfl
    | error e => rfl
  | oob s' => rfl
  | stop s' b => rfl

@[simp] theorem SM.exec_pure {σ α : Type} (o : Oracle σ) (a : α) (s : σ) : SM.exec o (pure a : SM α) s = .done (.ok a) s := rfl
@[simp] theorem SM.exec_ofM {σ α : Type} (o : Oracle σ) (x : M α) (s : σ) : SM.exec o (SM.ofM x) s = .done x s := rfl
@[simp] theorem SM.exec_fuel {σ α : Type} (o : Oracle σ) (s : σ) : SM.exec o (SM.fuel : SM α) s = .done (.error .fuel) s := rfl
@[simp] theorem SM.exec_data {σ : Type} (o : Oracle σ) (s : σ) : SM.exec o SM.data s = .done (.ok (o.view s).rc.data) s := rfl
@[simp] theorem SM.exec_groups {σ γ : Type} (o : Oracle σ) (conv : GI → γ) (s : σ) :
    SM.exec o (SM.groups conv) s = .done (.ok ((o.view s).rc.groups.map conv)) s := rfl
@[simp] theorem SM.exec_shrinks {σ : Type} (o : Oracle σ) (s : σ) :
    SM.exec o SM.shrinks s = .done (.ok (Int64.ofNat (o.view s).shrinks)) s := rfl
theorem SM.exec_accept {σ : Type} (o : Oracle σ) (buf : List UInt64) (s : σ) :
    SM.exec o (SM.accept buf) s = match o.accept s buf with | none => .stop s buf | some (b, s') => .done (.ok b) s' := by
  simp only [SM.exec, SM.accept, Script.exec]

@[simp] theorem SM.exec_andThen {σ : Type} (o : Oracle σ) (a b : SM Bool) (s : σ) :
    SM.exec o (SM.andThen a b) s = (SM.exec o a s).bindE fun x s' => if x then SM.exec o b s' else .done (.ok false) s' := by
  unfold SM.andThen
  rw [SM.exec_bind]
  congr 1; funext x s'; cases x <;> rfl

@[simp] theorem SM.exec_orElse {σ : Type} (o : Oracle σ) (a b : SM Bool) (s : σ) :
    SM.exec o (SM.orElse a b) s = (SM.exec o a s).bindE fun x s' => if x then .done (.ok true) s' else SM.exec o b s' := by
  unfold SM.orElse
  rw [SM.exec_bind]
  congr 1; funext x s'; cases x <;> rfl

@[simp] theorem SM.exec_ite {σ α : Type} (o : Oracle σ) (c : Bool) (x y : SM α) (s : σ) :
    SM.exec o (if c then x else y) s = if c then SM.exec o x s else SM.exec o y s := by
  cases c <;> rfl

/-! ### agreement of a translated pass with the model's pass -/

/-- the translated script `t` and the model's script `m`, run from the same state: a deadline cut (the translated
    loops ran out of fuel) agrees with anything; otherwise both end in the same state with related values, both hit
    an index out of range in the same state, or both are stopped by the same call of `accept` -/
def Agree {σ α β : Type} (R : α → β → Prop) : Res σ (Except Panic α) → Res σ β → Prop
  | .done (.error .fuel) _, _ => True
  | .done (.ok a) s, .done b s' => s = s' ∧ R a b
  | .done (.error .runtime) s, .oob s' => s = s'
  | .stop s b, .stop s' b' => s = s' ∧ b = b'
  | _, _ => False

theorem Agree.fuel {σ α β : Type} (R : α → β → Prop) (s : σ) (r : Res σ β) :
    Agree R (.done (.error .fuel) s : Res σ (Except Panic α)) r := by
  simp [Agree]

theorem Agree.done {σ α β : Type} {R : α → β → Prop} {a : α} {b : β} (s : σ) (h : R a b) :
    Agree R (.done (.ok a) s : Res σ (Except Panic α)) (.done b s) := ⟨rfl, h⟩

theorem Agree.oob {σ α β : Type} (R : α → β → Prop) (s : σ) :
    Agree R (.done (.error .runtime) s : Res σ (Except Panic α)) (.oob s : Res σ β) := by
  simp [Agree]

theorem Agree.stop {σ α β : Type} (R : α → β → Prop) (s : σ) (b : List UInt64) :
    Agree R (.stop s b : Res σ (Except Panic α)) (.stop s b : Res σ β) := ⟨rfl, rfl⟩

/-- sequencing: agreeing first parts, then agreeing continuations on related values -/
theorem Agree.bind {σ α β α' β' : Type} {R : α → β → Prop} {R' : α' → β' → Prop}
    {rt : Res σ (Except Panic α)} {rm : Res σ β}
    {ft : α → σ → Res σ (Except Panic α')} {fm : β → σ → Res σ β'}
    (h : Agree R rt rm) (hk : ∀ a b s, R a b → Agree R' (ft a s) (fm b s)) :
    Agree R' (rt.bindE ft) (rm.bind fm) := by
  cases rt with
  | done r s =>
    cases r with
    | ok a =>
      cases rm with
      | done b s' => obtain ⟨rfl, hr⟩ := h; exact hk a b s hr
      | oob s' => exact absurd h (by simp [Agree])
      | stop s' b' => exact absurd h (by simp [Agree])
    | error e =>
      cases e with
      | fuel => simp [Res.bindE, Agree]
      | runtime =>
        cases rm with
        | done b s' => exact absurd h (by simp [Agree])
        | oob s' => (simp [Res.bindE, Res.bind, Agree] at h ⊢; exact h)
        | stop s' b' => exact absurd h (by simp [Agree])
      | assertion => cases rm <;> exact absurd h (by simp [Agree])
      | mismatch => cases rm <;> exact absurd h (by simp [Agree])
      | invalidData m => cases rm <;> exact absurd h (by simp [Agree])
  | oob s => cases rm <;> exact absurd h (by simp [Agree])
  | stop s b =>
    cases rm with
    | done b' s' => exact absurd h (by simp [Agree])
    | oob s' => exact absurd h (by simp [Agree])
    | stop s' b' => (simp [Res.bindE, Res.bind, Agree] at h ⊢; exact h)

/-- a weaker relation on the values -/
theorem Agree.mono {σ α β : Type} {R R' : α → β → Prop} {rt : Res σ (Except Panic α)} {rm : Res σ β}
    (h : Agree R rt rm) (hr : ∀ a b, R a b → R' a b) : Agree R' rt rm := by
  cases rt with
  | done r s =>
    cases r with
    | ok a =>
      cases rm with
      | done b s' => exact ⟨h.1, hr _ _ h.2⟩
      | oob s' => exact absurd h (by simp [Agree])
      | stop s' b' => exact absurd h (by simp [Agree])
    | error e =>
      cases e with
      | fuel => simp [Agree]
      | runtime => cases rm <;> simpa [Agree] using h
      | assertion => cases rm <;> exact absurd h (by simp [Agree])
      | mismatch => cases rm <;> exact absurd h (by simp [Agree])
      | invalidData m => cases rm <;> exact absurd h (by simp [Agree])
  | oob s => cases rm <;> exact absurd h (by simp [Agree])
  | stop s b => cases rm <;> simpa [Agree] using h

/-- `accept` on both sides -/
theorem Agree.accept {σ : Type} (o : Oracle σ) (buf : List UInt64) (s : σ) :
    Agree (fun (a b : Bool) => a = b) (SM.exec o (SM.accept buf) s) ((tryBuf buf).exec o s) := by
  rw [SM.exec_accept, Script.exec_tryBuf]
  cases o.accept s buf with
  | none => exact ⟨rfl, rfl⟩
  | some r => exact ⟨rfl, rfl⟩

/-- `accept` on both sides, followed by continuations that agree on what it answered -/
theorem Agree.bind_accept {σ α' β' : Type} {R' : α' → β' → Prop} (o : Oracle σ) (buf : List UInt64) (s : σ)
    {ft : Bool → σ → Res σ (Except Panic α')} {fm : Bool → σ → Res σ β'}
    (hk : ∀ b s', o.accept s buf = some (b, s') → Agree R' (ft b s') (fm b s')) :
    Agree R' ((SM.exec o (SM.accept buf) s).bindE ft) (((tryBuf buf).exec o s).bind fm) := by
  rw [SM.exec_accept, Script.exec_tryBuf]
  cases h : o.accept s buf with
  | none => exact ⟨rfl, rfl⟩
  | some r =>
    obtain ⟨b, s'⟩ := r
    exact hk b s' h

end Rapid
