/-
  RapidProofs.PassSafe — no pass of the shrinker indexes or slices out of range: every
  `s.rec.groups[i]`, `buf[i] = u`, `data[a:b]` and `without(…)` it evaluates is in range, for
  every recording the shrinker can hold (groups lie inside the data) and every sequence of
  answers `accept` can give.  (`Safe` fails for the code before the fix of D9: after an
  accepted candidate the recording may be shorter than the position a pass is working on.)
-/
import RapidModel.Passes

namespace Rapid

/-- finished groups lie inside the data -/
def RecWF (r : Rec) : Prop :=
  ∀ g ∈ r.groups, 0 ≤ g.end_ → g.begin ≤ g.end_.toNat ∧ g.end_.toNat ≤ r.data.length

/-- the script never reaches `oob` when started with recording `r`: `get` shows the current
    recording; a rejected candidate leaves it unchanged, an accepted one replaces it by some
    other well-formed recording -/
inductive Safe : {α : Type} → Rec → Script α → Prop
  | ret {α : Type} (r : Rec) (a : α) : Safe r (.ret a)
  | get {α : Type} (r : Rec) (k : View → Script α) : (∀ n, Safe r (k ⟨r, n⟩)) → Safe r (.get k)
  | try_ {α : Type} (r : Rec) (buf : List UInt64) (k : Bool → Script α) :
      Safe r (k false) → (∀ r', RecWF r' → Safe r' (k true)) → Safe r (.try_ buf k)

@[simp] theorem pure_eq {α : Type} (a : α) : (pure a : Script α) = .ret a := rfl
@[simp] theorem bind_eq {α β : Type} (x : Script α) (f : α → Script β) : x >>= f = x.bind f := rfl

/-- safe from every well-formed recording -/
def SafeAll {α : Type} (sc : Script α) : Prop := ∀ r, RecWF r → Safe r sc

theorem safe_bind {α β : Type} {r : Rec} {x : Script α} {f : α → Script β} (hr : RecWF r) (hx : Safe r x)
    (hf : ∀ a, SafeAll (f a)) : Safe r (x.bind f) := by
  induction hx with
  | ret r a => exact hf a r hr
  | get r k _ ih => exact Safe.get _ _ (fun n => ih n hr)
  | try_ r buf k _ _ ih1 ih2 => exact Safe.try_ _ _ _ (ih1 hr) (fun r' hr' => ih2 r' hr' hr')

theorem safe_getV_bind {β : Type} {r : Rec} (f : View → Script β) (h : ∀ n, Safe r (f ⟨r, n⟩)) : Safe r (getV.bind f) :=
  Safe.get _ _ h

theorem safe_tryBuf_bind {β : Type} {r : Rec} (buf : List UInt64) (f : Bool → Script β) (h1 : Safe r (f false))
    (h2 : SafeAll (f true)) : Safe r ((tryBuf buf).bind f) :=
  Safe.try_ _ _ _ h1 h2

theorem safe_tryBuf (r : Rec) (buf : List UInt64) : Safe r (tryBuf buf) :=
  Safe.try_ _ _ _ (Safe.ret _ _) (fun r' _ => Safe.ret _ _)

theorem safe_orOob_bind {α β : Type} {r : Rec} {o : Option α} {a : α} (f : α → Script β) (ho : o = some a)
    (h : Safe r (f a)) : Safe r ((orOob o).bind f) := by
  subst ho; exact h

/-! ### facts about the partial list operations -/

theorem cut?_some {data : List UInt64} {b : Nat} {e : Int} (h0 : 0 ≤ e) (h1 : b ≤ e.toNat) (h2 : e.toNat ≤ data.length) :
    cut? data b e = some (data.take b ++ data.drop e.toNat) := by
  simp [cut?, h0, h1, h2]

theorem without?_single {r : Rec} (hw : RecWF r) {g : GI} (hg : g ∈ r.groups) (h0 : ¬ g.end_ < 0) :
    ∃ buf, without? r.data [g] = some buf := by
  have h0' : 0 ≤ g.end_ := by omega
  obtain ⟨h1, h2⟩ := hw g hg h0'
  refine ⟨r.data.take g.begin ++ r.data.drop g.end_.toNat, ?_⟩
  simp [without?, List.foldlM, cut?_some h0' h1 h2]

theorem without?_single_len {data buf : List UInt64} (hl : buf.length = data.length) {g : GI}
    (h0 : 0 ≤ g.end_) (h1 : g.begin ≤ g.end_.toNat) (h2 : g.end_.toNat ≤ data.length) :
    ∃ c, without? buf [g] = some c := by
  refine ⟨buf.take g.begin ++ buf.drop g.end_.toNat, ?_⟩
  simp [without?, List.foldlM, cut?_some h0 h1 (hl ▸ h2)]

theorem setIdx?_some {data : List UInt64} {i : Nat} (u : UInt64) (h : i < data.length) :
    setIdx? data i u = some (data.set i u) := by simp [setIdx?, h]

theorem getElem?_some_of_lt {α : Type} {l : List α} {i : Nat} (h : i < l.length) : l[i]? = some l[i] :=
  List.getElem?_eq_getElem h

/-! ### `minimize` -/

section minimize
variable {cond : UInt64 → Script Bool} (hc : ∀ x, SafeAll (cond x))
include hc

theorem safe_mAccept (best u : UInt64) : SafeAll (mAccept cond best u) := by
  intro r hr
  unfold mAccept
  split
  · exact Safe.ret _ _
  · simp only [bind_eq, pure_eq]
    exact safe_bind hr (hc u r hr) (fun b r' _ => by cases b <;> exact Safe.ret _ _)

theorem safe_trySmallS (u : UInt64) : ∀ n i, SafeAll (trySmallS cond u n i)
  | 0, _ => fun _ _ => Safe.ret _ _
  | n+1, i => by
    intro r hr
    unfold trySmallS
    split
    · simp only [bind_eq, pure_eq]
      exact safe_bind hr (hc i r hr) (fun b r' hr' => by
        cases b
        · exact safe_trySmallS u n (i + 1) r' hr'
        · exact Safe.ret _ _)
    · exact Safe.ret _ _

theorem safe_rShiftS : ∀ n b, SafeAll (rShiftS cond n b)
  | 0, _ => fun _ _ => Safe.ret _ _
  | n+1, b => by
    intro r hr
    unfold rShiftS
    simp only [bind_eq, pure_eq]
    exact safe_bind hr (safe_mAccept hc _ _ r hr) (fun ⟨b', ok⟩ r' hr' => by
      cases ok
      · exact Safe.ret _ _
      · exact safe_rShiftS n b' r' hr')

theorem safe_unsetBitsS : ∀ n b, SafeAll (unsetBitsS cond n b)
  | 0, _ => fun _ _ => Safe.ret _ _
  | n+1, b => by
    intro r hr
    unfold unsetBitsS
    simp only [bind_eq]
    exact safe_bind hr (safe_mAccept hc _ _ r hr) (fun ⟨b', _⟩ => safe_unsetBitsS n b')

theorem safe_sortInnerS (i : Nat) (h : UInt64) : ∀ n j b, SafeAll (sortInnerS cond i h n j b)
  | 0, _, _ => fun _ _ => Safe.ret _ _
  | n+1, j, b => by
    intro r hr
    unfold sortInnerS
    split
    · dsimp only
      split
      · simp only [bind_eq, pure_eq]
        exact safe_bind hr (safe_mAccept hc _ _ r hr) (fun ⟨b', ok⟩ r' hr' => by
          cases ok
          · exact safe_sortInnerS i h n (j + 1) b' r' hr'
          · exact Safe.ret _ _)
      · exact safe_sortInnerS i h n (j + 1) b r hr
    · exact Safe.ret _ _

theorem safe_sortBitsS : ∀ n b, SafeAll (sortBitsS cond n b)
  | 0, _ => fun _ _ => Safe.ret _ _
  | n+1, b => by
    intro r hr
    unfold sortBitsS
    simp only [bind_eq, pure_eq]
    split
    · exact safe_bind hr (safe_sortInnerS hc _ _ _ _ _ r hr) (fun b' => safe_sortBitsS n b')
    · exact safe_bind hr (Safe.ret _ _) (fun b' => safe_sortBitsS n b')

theorem safe_binLoopS : ∀ n i j b, SafeAll (binLoopS cond n i j b)
  | 0, _, _, _ => fun _ _ => Safe.ret _ _
  | n+1, i, j, b => by
    intro r hr
    unfold binLoopS
    split
    · simp only [bind_eq]
      exact safe_bind hr (safe_mAccept hc _ _ r hr) (fun ⟨b', ok⟩ r' hr' => by
        cases ok
        · exact safe_binLoopS n _ _ b' r' hr'
        · exact safe_binLoopS n _ _ b' r' hr')
    · exact Safe.ret _ _

theorem safe_binSearchS (b : UInt64) : SafeAll (binSearchS cond b) := by
  intro r hr
  unfold binSearchS
  simp only [bind_eq, pure_eq]
  exact safe_bind hr (safe_mAccept hc _ _ r hr) (fun ⟨b', ok⟩ r' hr' => by
    cases ok
    · exact Safe.ret _ _
    · exact safe_binLoopS hc _ _ _ _ r' hr')

theorem safe_minimizeS (u : UInt64) : SafeAll (minimizeS u cond) := by
  intro r hr
  unfold minimizeS
  split
  · exact Safe.ret _ _
  · simp only [bind_eq, pure_eq]
    refine safe_bind hr (safe_trySmallS hc u 5 0 r hr) (fun res r' hr' => ?_)
    cases res with
    | some i => exact Safe.ret _ _
    | none =>
      simp only []
      split
      · exact Safe.ret _ _
      · exact safe_bind hr' (safe_rShiftS hc _ _ r' hr') (fun b1 r1 hr1 =>
          safe_bind hr1 (safe_unsetBitsS hc _ _ r1 hr1) (fun b2 r2 hr2 =>
            safe_bind hr2 (safe_sortBitsS hc _ _ r2 hr2) (fun b3 => safe_binSearchS hc b3)))

end minimize

/-! ### the passes -/

theorem not_skip_end {a : Bool} {x : Int} (h : ¬ (!a || decide (x < 0)) = true) : ¬ x < 0 := by
  simp at h; omega

theorem safe_removeGroups : ∀ f i, SafeAll (removeGroups f i)
  | 0, _ => fun _ _ => Safe.ret _ _
  | f+1, i => by
    intro r hr
    unfold removeGroups
    simp only [bind_eq, pure_eq]
    refine safe_getV_bind _ (fun n => ?_)
    dsimp only
    split
    · rename_i hi
      refine safe_orOob_bind _ (getElem?_some_of_lt hi) ?_
      split
      · exact safe_removeGroups f (i + 1) r hr
      · rename_i hg
        obtain ⟨buf, hb⟩ := without?_single hr (List.getElem_mem hi) (not_skip_end hg)
        refine safe_orOob_bind _ hb ?_
        refine safe_tryBuf_bind _ _ ?_ ?_
        · exact safe_removeGroups f (i + 1) r hr
        · exact safe_removeGroups f i
    · exact Safe.ret _ _

theorem safe_minimizeBlocks : ∀ f i, SafeAll (minimizeBlocks f i)
  | 0, _ => fun _ _ => Safe.ret _ _
  | f+1, i => by
    intro r hr
    unfold minimizeBlocks
    simp only [bind_eq, pure_eq]
    refine safe_getV_bind _ (fun n => ?_)
    dsimp only
    split
    · rename_i hi
      refine safe_orOob_bind _ (getElem?_some_of_lt hi) ?_
      refine safe_bind hr (safe_minimizeS (fun x r2 _ => ?_) _ r hr) (fun _ => safe_minimizeBlocks f (i + 1))
      refine safe_getV_bind _ (fun n2 => ?_)
      dsimp only
      split
      · exact Safe.ret _ _
      · rename_i h2
        exact safe_orOob_bind _ (setIdx?_some x (by omega)) (safe_tryBuf _ _)
    · exact Safe.ret _ _

theorem foldlM_set_some : ∀ (fill : List Nat) (d : List UInt64), (∀ j ∈ fill, j < d.length) →
    ∃ d', fill.foldlM (fun d j => setIdx? d j maxU64) d = some d' ∧ d'.length = d.length
  | [], d, _ => ⟨d, rfl, rfl⟩
  | j :: rest, d, h => by
    have hj : j < d.length := h j (by simp)
    simp only [List.foldlM, setIdx?_some maxU64 hj, Option.bind_eq_bind, Option.bind_some]
    obtain ⟨d', h1, h2⟩ := foldlM_set_some rest (d.set j maxU64) (by
      intro k hk; rw [List.length_set]; exact h k (by simp [hk]))
    exact ⟨d', h1, by rw [h2, List.length_set]⟩

theorem lowerAt?_some {data : List UInt64} {k : Nat} {fill : List Nat} (hk : k < data.length)
    (hf : ∀ j ∈ fill, j < data.length) : ∃ d, lowerAt? data k fill = some d := by
  unfold lowerAt?
  rw [getElem?_some_of_lt hk]
  simp only [setIdx?_some _ hk, Option.bind_some]
  obtain ⟨d', h1, _⟩ := foldlM_set_some fill (data.set k (data[k] - 1)) (by
    intro j hj; rw [List.length_set]; exact hf j hj)
  exact ⟨d', h1⟩

theorem safe_lowerFloatHack : ∀ f i, SafeAll (lowerFloatHack f i)
  | 0, _ => fun _ _ => Safe.ret _ _
  | f+1, i => by
    intro r hr
    unfold lowerFloatHack
    simp only [bind_eq, pure_eq]
    refine safe_getV_bind _ (fun n => ?_)
    dsimp only
    split
    · rename_i hi
      refine safe_orOob_bind _ (getElem?_some_of_lt hi) ?_
      split
      · exact safe_lowerFloatHack f (i + 1) r hr
      · rename_i hg
        have hend : r.groups[i].end_ = (r.groups[i].begin : Int) + 7 := by
          simp at hg; exact hg.2
        have hwf := hr _ (List.getElem_mem hi) (by omega)
        have hlen : r.groups[i].begin + 7 ≤ r.data.length := by have := hwf.2; omega
        obtain ⟨b1, h1⟩ := lowerAt?_some (data := r.data) (k := r.groups[i].begin + 3)
          (fill := [r.groups[i].begin + 4, r.groups[i].begin + 5, r.groups[i].begin + 6]) (by omega) (by simp; omega)
        refine safe_orOob_bind _ h1 ?_
        refine safe_tryBuf_bind _ _ ?_ (fun r' hr' => ?_)
        · simp only [Bool.not_false, if_true]
          refine safe_getV_bind _ (fun n2 => ?_)
          dsimp only
          obtain ⟨b2, h2⟩ := lowerAt?_some (data := r.data) (k := r.groups[i].begin + 4)
            (fill := [r.groups[i].begin + 5, r.groups[i].begin + 6]) (by omega) (by simp; omega)
          refine safe_orOob_bind _ h2 ?_
          refine safe_tryBuf_bind _ _ ?_ (fun r' hr' => ?_)
          · simp only [Bool.not_false, if_true]
            refine safe_getV_bind _ (fun n3 => ?_)
            dsimp only
            obtain ⟨b3, h3⟩ := lowerAt?_some (data := r.data) (k := r.groups[i].begin + 5)
              (fill := [r.groups[i].begin + 6]) (by omega) (by simp; omega)
            refine safe_orOob_bind _ h3 ?_
            exact safe_tryBuf_bind _ _ (safe_lowerFloatHack f (i + 1) r hr) (safe_lowerFloatHack f (i + 1))
          · simp only [Bool.not_true, Bool.false_eq_true, if_false]
            exact safe_lowerFloatHack f (i + 1) r' hr'
        · simp only [Bool.not_true, Bool.false_eq_true, if_false]
          exact safe_lowerFloatHack f (i + 1) r' hr'
    · exact Safe.ret _ _

theorem safe_rglInner (buf : List UInt64) (i : Nat) (r : Rec) (hr : RecWF r) (hl : buf.length = r.data.length) :
    ∀ f j, Safe r (rglInner buf i f j)
  | 0, _ => Safe.ret _ _
  | f+1, j => by
    unfold rglInner
    simp only [bind_eq, pure_eq]
    refine safe_getV_bind _ (fun n => ?_)
    dsimp only
    split
    · rename_i hj
      refine safe_orOob_bind _ (getElem?_some_of_lt hj) ?_
      split
      · exact safe_rglInner buf i r hr hl f (j + 1)
      · rename_i hg
        have h0 : 0 ≤ r.groups[j].end_ := by simp at hg; omega
        have hwf := hr _ (List.getElem_mem hj) h0
        obtain ⟨c, hc⟩ := without?_single_len hl h0 hwf.1 hwf.2
        refine safe_orOob_bind _ hc ?_
        refine safe_tryBuf_bind _ _ ?_ (fun r' _ => ?_)
        · simp only [Bool.false_eq_true, if_false]
          exact safe_rglInner buf i r hr hl f (j + 1)
        · simp only [if_true]
          exact Safe.ret _ _
    · exact Safe.ret _ _

theorem safe_removeGroupsAndLower : ∀ f i, SafeAll (removeGroupsAndLower f i)
  | 0, _ => fun _ _ => Safe.ret _ _
  | f+1, i => by
    intro r hr
    unfold removeGroupsAndLower
    simp only [bind_eq, pure_eq]
    refine safe_getV_bind _ (fun n => ?_)
    dsimp only
    split
    · rename_i hi
      refine safe_orOob_bind _ (getElem?_some_of_lt hi) ?_
      split
      · exact safe_removeGroupsAndLower f (i + 1) r hr
      · refine safe_orOob_bind _ (setIdx?_some _ hi) ?_
        refine safe_bind hr (safe_rglInner _ i r hr (by rw [List.length_set]) _ _) (fun b r' hr' => ?_)
        cases b
        · simp only [Bool.false_eq_true, if_false]
          exact safe_removeGroupsAndLower f (i + 1) r' hr'
        · simp only [if_true]
          exact safe_removeGroupsAndLower f i r' hr'
    · exact Safe.ret _ _

theorem slice?_some {data : List UInt64} {b e : Nat} (h1 : b ≤ e) (h2 : e ≤ data.length) :
    slice? data b e = some ((data.take e).drop b) := by simp [slice?, h1, h2]

theorem swapBuf?_some {data : List UInt64} {g h : GI} (hg0 : 0 ≤ g.end_) (hg1 : g.begin ≤ g.end_.toNat)
    (hg2 : g.end_.toNat ≤ data.length) (hh0 : 0 ≤ h.end_) (hh1 : h.begin ≤ h.end_.toNat)
    (hhg : h.end_.toNat ≤ g.begin) : ∃ buf, swapBuf? data g h = some buf := by
  unfold swapBuf?
  rw [slice?_some (Nat.zero_le _) (by omega), slice?_some hg1 hg2, slice?_some hhg (by omega), slice?_some hh1 (by omega),
    slice?_some hg2 (Nat.le_refl _)]
  exact ⟨_, rfl⟩

theorem safe_sortScan (g : GI) (r : Rec) (hr : RecWF r) (hg : g ∈ r.groups) (hg0 : 0 ≤ g.end_) :
    ∀ n, n ≤ r.groups.length → Safe r (sortScan g n)
  | 0, _ => Safe.ret _ _
  | j+1, hj => by
    unfold sortScan
    simp only [bind_eq, pure_eq]
    refine safe_getV_bind _ (fun n => ?_)
    dsimp only
    have hj' : j < r.groups.length := by omega
    refine safe_orOob_bind _ (getElem?_some_of_lt hj') ?_
    split
    · exact safe_sortScan g r hr hg hg0 j (by omega)
    · rename_i hc
      have hh : 0 ≤ r.groups[j].end_ ∧ r.groups[j].end_ ≤ (g.begin : Int) := by simp at hc; omega
      have hwg := hr g hg hg0
      have hwh := hr _ (List.getElem_mem hj') hh.1
      obtain ⟨buf, hb⟩ := swapBuf?_some (data := r.data) hg0 hwg.1 hwg.2 hh.1 hwh.1 (by omega)
      refine safe_orOob_bind _ hb ?_
      refine safe_tryBuf_bind _ _ ?_ (fun r' _ => ?_)
      · simp only [Bool.false_eq_true, if_false]
        exact safe_sortScan g r hr hg hg0 j (by omega)
      · simp only [if_true]
        exact Safe.ret _ _

theorem safe_sortFrom : ∀ f j, SafeAll (sortFrom f j)
  | 0, _ => fun _ _ => Safe.ret _ _
  | f+1, j => by
    intro r hr
    unfold sortFrom
    simp only [bind_eq, pure_eq]
    refine safe_getV_bind _ (fun n => ?_)
    dsimp only
    split
    · rename_i hj
      refine safe_orOob_bind _ (getElem?_some_of_lt hj.2) ?_
      split
      · exact Safe.ret _ _
      · rename_i hg
        refine safe_bind hr (safe_sortScan _ r hr (List.getElem_mem hj.2) (by have := not_skip_end hg; omega) j (by omega))
          (fun o r' hr' => ?_)
        cases o with
        | some j' => exact safe_sortFrom f j' r' hr'
        | none => exact Safe.ret _ _
    · exact Safe.ret _ _

theorem safe_sortGroups : ∀ f i, SafeAll (sortGroups f i)
  | 0, _ => fun _ _ => Safe.ret _ _
  | f+1, i => by
    intro r hr
    unfold sortGroups
    simp only [bind_eq, pure_eq]
    refine safe_getV_bind _ (fun n => ?_)
    dsimp only
    split
    · exact safe_bind hr (safe_sortFrom (f + 1) i r hr) (fun _ => safe_sortGroups f (i + 1))
    · exact Safe.ret _ _

/-- groups listed last-first, each inside the data and ending before the next begins -/
def RChain : List GI → Nat → Prop
  | [], _ => True
  | g :: rest, L => 0 ≤ g.end_ ∧ g.begin ≤ g.end_.toNat ∧ g.end_.toNat ≤ L ∧ RChain rest g.begin

theorem rchain_mono : ∀ (l : List GI) (L L' : Nat), RChain l L → (∀ g, l.head? = some g → g.end_.toNat ≤ L') → RChain l L'
  | [], _, _, _, _ => trivial
  | g :: rest, _, _, ⟨h0, h1, _, h3⟩, hh => ⟨h0, h1, hh g rfl, h3⟩

theorem rchain_cut : ∀ (l : List GI) (data : List UInt64), RChain l data.length →
    ∃ buf, l.foldlM (fun buf g => cut? buf g.begin g.end_) data = some buf
  | [], data, _ => ⟨data, rfl⟩
  | g :: rest, data, ⟨h0, h1, h2, h3⟩ => by
    simp only [List.foldlM, cut?_some h0 h1 h2, Option.bind_eq_bind, Option.bind_some]
    apply rchain_cut rest
    apply rchain_mono rest _ _ h3
    intro g' hg'
    cases rest with
    | nil => simp at hg'
    | cons x xs =>
      simp only [List.head?_cons, Option.some.injEq] at hg'
      subst hg'
      have := h3.2.2.1
      simp only [List.length_append, List.length_take, List.length_drop]
      omega

theorem safe_spansInner (r : Rec) (hr : RecWF r) : ∀ f (gs : List GI) (lastEnd : Int) j, RChain gs.reverse r.data.length →
    (∀ g, gs.reverse.head? = some g → g.end_ ≤ lastEnd) → Safe r (spansInner f gs lastEnd j)
  | 0, _, _, _, _, _ => Safe.ret _ _
  | f+1, gs, lastEnd, j, hch, hle => by
    unfold spansInner
    simp only [bind_eq, pure_eq]
    refine safe_getV_bind _ (fun n => ?_)
    dsimp only
    split
    · rename_i hj
      refine safe_orOob_bind _ (getElem?_some_of_lt hj) ?_
      split
      · exact safe_spansInner r hr f gs lastEnd (j + 1) hch hle
      · rename_i hc
        have hh : 0 ≤ r.groups[j].end_ ∧ lastEnd ≤ (r.groups[j].begin : Int) := by simp at hc; omega
        have hwh := hr _ (List.getElem_mem hj) hh.1
        have hch' : RChain (gs ++ [r.groups[j]]).reverse r.data.length := by
          simp only [List.reverse_append, List.reverse_cons, List.reverse_nil, List.nil_append, List.cons_append]
          refine ⟨hh.1, hwh.1, hwh.2, rchain_mono _ _ _ hch ?_⟩
          intro g hg
          have h1 := hle g hg
          cases hrev : gs.reverse with
          | nil => rw [hrev] at hg; simp at hg
          | cons x xs =>
            rw [hrev] at hg hch
            simp only [List.head?_cons, Option.some.injEq] at hg
            subst hg
            have := hch.1
            omega
        obtain ⟨buf, hb⟩ := rchain_cut _ _ hch'
        refine safe_orOob_bind _ (by simpa [without?] using hb) ?_
        refine safe_tryBuf_bind _ _ ?_ (fun r' _ => ?_)
        · simp only [Bool.false_eq_true, if_false]
          refine safe_spansInner r hr f _ _ (j + 1) hch' ?_
          intro g hg
          simp only [List.reverse_append, List.reverse_cons, List.reverse_nil, List.nil_append, List.cons_append,
            List.head?_cons, Option.some.injEq] at hg
          subst hg; exact Int.le_refl _
        · simp only [if_true]
          exact Safe.ret _ _
    · exact Safe.ret _ _

theorem safe_removeGroupSpans : ∀ f i, SafeAll (removeGroupSpans f i)
  | 0, _ => fun _ _ => Safe.ret _ _
  | f+1, i => by
    intro r hr
    unfold removeGroupSpans
    simp only [bind_eq, pure_eq]
    refine safe_getV_bind _ (fun n => ?_)
    dsimp only
    split
    · rename_i hi
      refine safe_orOob_bind _ (getElem?_some_of_lt hi) ?_
      split
      · exact safe_removeGroupSpans f (i + 1) r hr
      · rename_i hg
        have h0 : 0 ≤ r.groups[i].end_ := by have := not_skip_end hg; omega
        have hwf := hr _ (List.getElem_mem hi) h0
        refine safe_bind hr (safe_spansInner r hr _ [r.groups[i]] _ _ ⟨h0, hwf.1, hwf.2, trivial⟩ ?_) (fun b r' hr' => ?_)
        · intro g hg'
          simp only [List.reverse_cons, List.reverse_nil, List.nil_append, List.head?_cons, Option.some.injEq] at hg'
          subst hg'; exact Int.le_refl _
        · cases b
          · simp only [Bool.false_eq_true, if_false]
            exact safe_removeGroupSpans f (i + 1) r' hr'
          · simp only [if_true]
            exact safe_removeGroupSpans f i r' hr'
    · exact Safe.ret _ _

theorem safe_rounds (F : Nat) : ∀ f prev, SafeAll (rounds F f prev)
  | 0, _ => fun _ _ => Safe.ret _ _
  | f+1, prev => by
    intro r hr
    unfold rounds
    simp only [bind_eq, pure_eq]
    refine safe_getV_bind _ (fun n => ?_)
    dsimp only
    split
    · refine safe_bind hr (safe_removeGroups F 0 r hr) (fun _ r1 hr1 => ?_)
      refine safe_bind hr1 (safe_minimizeBlocks F 0 r1 hr1) (fun _ r2 hr2 => ?_)
      refine safe_getV_bind _ (fun n2 => ?_)
      dsimp only
      split
      · refine safe_bind hr2 (safe_lowerFloatHack F 0 r2 hr2) (fun _ r3 hr3 => ?_)
        refine safe_bind hr3 (safe_removeGroupsAndLower F 0 r3 hr3) (fun _ r4 hr4 => ?_)
        refine safe_bind hr4 (safe_sortGroups F 1 r4 hr4) (fun _ r5 hr5 => ?_)
        exact safe_bind hr5 (safe_removeGroupSpans F 0 r5 hr5) (fun _ => safe_rounds F f _)
      · exact safe_rounds F f _ r2 hr2
    · exact Safe.ret _ _

/-- **no index or slice expression of the shrinker's passes is ever out of range** -/
theorem safe_shrinkScript (F : Nat) : SafeAll (shrinkScript F) := safe_rounds F F (-1)

end Rapid
