/-
  RapidProofs.Context — the context handed out by a `*T` is one and the same for the whole
  body; it is cancelled before the first cleanup callback runs; callbacks run last-in
  first-out, each exactly once, also when one of them panics.
-/
import RapidProofs.Cleanups

namespace Rapid

/-- the body never replaces or clears a context that exists: every `T.Context()` call of one
    invocation observes the same context -/
theorem run_ctx_stable (p : Prog) : ∀ (src : Src) (ts : TS) (id : Nat), ts.ctx = some id →
    (p.run src ts).ts.ctx = some id := by
  induction p with
  | ret v => intro src ts id h; exact h
  | throw e => intro src ts id h; exact h
  | draw n k ih =>
    intro src ts id h
    simp only [Prog.run]
    cases src.next n with
    | none => exact h
    | some r => simp only [after_ts]; exact ih _ _ _ _ h
  | group l s b d k ihb ihk =>
    intro src ts id h
    simp only [Prog.run]
    cases (b.run src ts).res with
    | error e => exact ihb src ts id h
    | ok v =>
      simp only []
      split
      · exact ihb src ts id h
      · simp only [after_ts]; exact ihk _ _ _ _ (ihb src ts id h)
  | catchInv b k ihb ihk =>
    intro src ts id h
    simp only [Prog.run]
    cases (b.run src ts).res with
    | ok v => simp only [after_ts]; exact ihk _ _ _ _ _ (ihb src ts id h)
    | error e =>
      cases e with
      | invalid m => simp only [after_ts]; exact ihk _ _ _ _ _ (ihb src ts id h)
      | stop m s => exact ihb src ts id h
      | panic m s => exact ihb src ts id h
      | fuel => exact ihb src ts id h
  | errorf m k ih => intro src ts id h; simp only [Prog.run, after_ts]; exact ih _ _ _ h
  | failOnError site k ih =>
    intro src ts id h
    simp only [Prog.run]
    cases ts.failed with
    | some m => exact h
    | none => exact ih _ _ _ h
  | tick k ih => intro src ts id h; simp only [Prog.run]; exact ih _ _ _ h
  | cleanup c k ih => intro src ts id h; simp only [Prog.run]; exact ih _ _ _ h
  | ctx k ih =>
    intro src ts id h
    simp only [Prog.run, h, after_ts]
    exact ih _ _ _ h
  | inner b k ihb ihk =>
    intro src ts id h
    simp only [Prog.run]
    cases (cleanupPhase (b.run src TS.fresh).ts).err with
    | some e => exact h
    | none =>
      simp only []
      cases (b.run src TS.fresh).res with
      | error e => exact h
      | ok v => simp only [after_ts]; exact ihk _ _ _ _ h
  | emit id' k ih => intro src ts id h; simp only [Prog.run, after_ts]; exact ih _ _ _ h

/-- the first `T.Context()` call creates the context, and it is live -/
theorem ctx_node_creates (k : Prog) (src : Src) (ts : TS) (h : ts.ctx = none) :
    ∃ o : Out, (Prog.ctx k).run src ts = o.after [] [] [] [.ctx ts.ctxCount true] ∧
      o = k.run src { ts with ctx := some ts.ctxCount, ctxCount := ts.ctxCount + 1 } := by
  simp only [Prog.run, h]; exact ⟨_, rfl, rfl⟩

/-- later calls return that same live context -/
theorem ctx_node_same (k : Prog) (src : Src) (ts : TS) (id : Nat) (h : ts.ctx = some id) :
    (Prog.ctx k).run src ts = (k.run src ts).after [] [] [] [.ctx id true] := by
  simp only [Prog.run, h]

/-- `T.cleanup`: the live context is cancelled first — the `cancel` event precedes every event
    of every cleanup callback — and the phase is bracketed -/
theorem cleanupPhase_shape (ts : TS) :
    ∃ stackEvs, (cleanupPhase ts).evs =
      Ev.cleanupBegin :: ((match ts.ctx with | some id => [Ev.cancel id] | none => []) ++ stackEvs ++ [Ev.cleanupEnd]) ∧
      stackEvs = (runStack (stackSize ts.cleanups) { ts with ctx := none }).evs := by
  simp only [cleanupPhase]
  cases h : ts.ctx with
  | none =>
    refine ⟨_, ?_, rfl⟩
    have : ({ ts with ctx := none } : TS) = ts := by cases ts; simp_all
    simp [this]
  | some id => exact ⟨_, by simp, rfl⟩

/-- during cleanup `T.Context()` returns an already cancelled context -/
theorem cleanup_ctx_cancelled (k : CTree) (ts : TS) :
    ∃ o : COut, (CTree.ctx k).run ts = { o with evs := .ctx ts.ctxCount false :: o.evs } := ⟨_, rfl⟩

/-- callbacks that only emit: they run last-in first-out (head of the stack = registered
    last), each exactly once -/
theorem runStack_lifo : ∀ (ids : List Nat) (fuel : Nat) (ts : TS),
    ts.cleanups = ids.map (fun i => CTree.emit i .done) → ids.length ≤ fuel →
    (runStack fuel ts).evs = ids.map Ev.user ∧ (runStack fuel ts).err = none := by
  intro ids
  induction ids with
  | nil =>
    intro fuel ts h _
    cases fuel with
    | zero => simp [runStack]
    | succ n => simp [runStack, h]
  | cons i is ih =>
    intro fuel ts h hl
    cases fuel with
    | zero => simp at hl
    | succ n =>
      simp only [runStack, h, List.map]
      have := ih n { ts with cleanups := is.map (fun i => CTree.emit i .done) } rfl (by simp at hl; omega)
      simp only [CTree.run]
      simp only [this.1, this.2]
      simp [pickErr]

/-- a panicking callback does not prevent the remaining ones from running, and the panic is
    reported (the last failure wins; invalid data never replaces a failure) -/
theorem runStack_after_panic (e : Err) (rest : List CTree) (fuel : Nat) (ts : TS) (h : ts.cleanups = .throw e :: rest) :
    (runStack (fuel + 1) ts).evs = (runStack fuel { ts with cleanups := rest }).evs ∧
    (runStack (fuel + 1) ts).ts = (runStack fuel { ts with cleanups := rest }).ts ∧
    (runStack (fuel + 1) ts).err = pickErr (some e) (runStack fuel { ts with cleanups := rest }).err := by
  simp only [runStack, h, CTree.run, List.nil_append]
  exact ⟨trivial, trivial, trivial⟩

end Rapid
