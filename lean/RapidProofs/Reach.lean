/-
  RapidProofs.Reach — reachability: every value a range allows is produced by some bit stream.
  `genUintNBiased` reaches `u ≤ max` with two words: a bias word that selects the bit length of
  `u` (it exists when the geometric table of the bit length of `max` has distinct break points —
  checked over the measured tables in the property file) and `u` itself.
-/
import RapidProofs.ContractsInt

namespace Rapid

theorem two_pow_lt_64 {n : Nat} (h : n < 64) : 2 ^ n < 18446744073709551616 := by
  have : 2 ^ n < 2 ^ 64 := Nat.pow_lt_pow_right (by omega) h
  simpa using this

theorem bitmask_toNat (n : Nat) (h : n < 64) : (bitmask64 n).toNat = 2 ^ n - 1 := by
  have h64 : ¬ n ≥ 64 := by omega
  simp only [bitmask64, h64, if_false]
  have hs : ((1 : UInt64) <<< n.toUInt64).toNat = 2 ^ n := by
    rw [UInt64.toNat_shiftLeft]
    have : n.toUInt64.toNat = n := by simp [Nat.toUInt64, UInt64.toNat_ofNat']; omega
    rw [this, Nat.mod_eq_of_lt h]
    simp [Nat.shiftLeft_eq]
    exact two_pow_lt_64 h
  rw [UInt64.toNat_sub_of_le _ _ (by rw [UInt64.le_iff_toNat_le, hs]; simp; exact Nat.one_le_two_pow)]
  rw [hs]; rfl

/-- a word that fits in `n` bits is not changed by `drawBits(n)` -/
theorem mask_of_lt (n : Nat) (u : UInt64) (h : u.toNat < 2 ^ n) : mask n u = u := by
  apply UInt64.toNat_inj.mp
  simp only [mask, UInt64.toNat_and]
  by_cases h64 : n < 64
  · rw [bitmask_toNat n h64, Nat.and_two_pow_sub_one_eq_mod, Nat.mod_eq_of_lt h]
  · have : bitmask64 n = 0xFFFFFFFFFFFFFFFF := by simp [bitmask64]; omega
    rw [this]
    have : (0xFFFFFFFFFFFFFFFF : UInt64).toNat = 2 ^ 64 - 1 := rfl
    rw [this, Nat.and_two_pow_sub_one_eq_mod, Nat.mod_eq_of_lt u.toNat_lt]

theorem lt_two_pow_len64 (u : UInt64) : u.toNat < 2 ^ len64 u := by
  unfold len64
  by_cases h : u = 0
  · subst h; simp
  · simp only [h, if_false]
    exact Nat.lt_log2_self

theorem len64_mono {u m : UInt64} (h : u ≤ m) : len64 u ≤ len64 m := by
  have hle : u.toNat ≤ m.toNat := UInt64.le_iff_toNat_le.mp h
  unfold len64
  by_cases hu : u = 0
  · simp [hu]
  · have hun : u.toNat ≠ 0 := fun h0 => hu (UInt64.toNat_inj.mp (by simpa using h0))
    have hm : m ≠ 0 := by
      intro h0; subst h0; simp at hle; exact hun hle
    have hmn : m.toNat ≠ 0 := fun h0 => hm (UInt64.toNat_inj.mp (by simpa using h0))
    simp only [hu, hm, if_false]
    have h1 : 2 ^ u.toNat.log2 ≤ u.toNat := Nat.log2_self_le hun
    have h2 : m.toNat < 2 ^ (m.toNat.log2 + 1) := Nat.lt_log2_self
    have : 2 ^ u.toNat.log2 < 2 ^ (m.toNat.log2 + 1) := by omega
    have := (Nat.pow_lt_pow_iff_right (by omega : 1 < 2)).mp this
    omega

theorem len64_le_64 (u : UInt64) : len64 u ≤ 64 := by
  unfold len64
  by_cases h : u = 0
  · simp [h]
  · have hun : u.toNat ≠ 0 := fun h0 => h (UInt64.toNat_inj.mp (by simpa using h0))
    simp only [h, if_false]
    have : u.toNat.log2 < 64 := (Nat.log2_lt hun).mpr u.toNat_lt
    omega

theorem next_buf (w : UInt64) (ws : List UInt64) (n : Nat) : (Src.buf (w :: ws)).next n = some (mask n w, .buf ws) := rfl

theorem overflowAt_ge (b : Nat) : 32 ≤ overflowAt b := by
  simp only [overflowAt, biasM]
  have : 8 ≤ Nat.max 8 ((b + 48) / 7) := Nat.le_max_left _ _
  omega

/-- **reachability of `genUintNBiased`**: every `u ≤ max` is produced from the two words
    `[w, u]`, where `w` is a bias word that makes the geometric draw `n`, the bit length of `u`
    (or 1 for `u = 0`) -/
theorem uintBiased_reaches (ft : FT) (max u w : UInt64) (n : Nat) (hu : u ≤ max) (hw : w < thrNever)
    (hg : geomN (ft.geom (len64 max)) w = n) (hn1 : len64 u ≤ n) (hn2 : n ≤ len64 max ∨ n = 1) (fuel : Nat)
    (k : UInt64 → Bool → Bool → Prog) (rest : List UInt64) (ts : TS) :
    ∃ l r toks, (uintBiased ft max (fuel + 1) k).run (.buf (w :: u :: rest)) ts =
      ((k u l r).run (.buf rest) ts).after [w, u] [w, u] toks [] false := by
  have hw53 : mask 53 w = w := mask_of_lt 53 w (by
    rw [UInt64.lt_iff_toNat_lt] at hw
    have : thrNever.toNat = 2 ^ 53 := rfl
    omega)
  have hlen := len64_mono hu
  have hub := lt_two_pow_len64 u
  have hovf := overflowAt_ge (len64 max)
  have h64 := len64_le_64 max
  simp only [uintBiased, run_draw_group, next_buf, hw53, hg]
  have hbl : u.toNat < 2 ^ biasedBitlen (len64 max) n := by
    simp only [biasedBitlen]
    split
    · exact Nat.lt_of_lt_of_le hub (Nat.pow_le_pow_right (by omega) hn1)
    · split
      · exact Nat.lt_of_lt_of_le u.toNat_lt (Nat.pow_le_pow_right (by omega) (by omega))
      · exact Nat.lt_of_lt_of_le hub (Nat.pow_le_pow_right (by omega) hlen)
  have hb64 : ¬ biasedBitlen (len64 max) n > 64 := by
    simp only [biasedBitlen]
    split
    · omega
    · split
      · omega
      · omega
  simp only [Int.toNat_natCast, uintBiasedLoop, run_draw_group, next_buf, mask_of_lt _ u hbl, vu_uv, hb64,
    Bool.false_eq_true, if_false, hu, if_true, after_after0]
  exact ⟨_, _, _, rfl⟩

/-! ### the table condition, checkable by evaluation -/

/-- a bias word whose geometric draw is `n`: the `(n-1)`-th break point (0 for `n = 1`) -/
def geomWitness (tbl : List UInt64) (n : Nat) : UInt64 := if n ≤ 1 then 0 else tbl.getD (n - 2) 0

/-- every draw `1 … max b 1` of the geometric distribution of bit length `b` is hit by a 53-bit word -/
def tableReach (tbl : List UInt64) (b : Nat) : Bool :=
  (List.range (Nat.max b 1)).all fun i =>
    geomN tbl (geomWitness tbl (i + 1)) == i + 1 && decide (geomWitness tbl (i + 1) < thrNever)

def allReach (ft : FT) : Bool := (List.range 65).all fun b => tableReach (ft.geom b) b

theorem allReach_spec (ft : FT) (h : allReach ft = true) (b n : Nat) (hb : b ≤ 64) (h1 : 1 ≤ n) (h2 : n ≤ b ∨ n = 1) :
    ∃ w, w < thrNever ∧ geomN (ft.geom b) w = n := by
  simp only [allReach, List.all_eq_true, List.mem_range] at h
  have hb' := h b (by omega)
  simp only [tableReach, List.all_eq_true, List.mem_range, Bool.and_eq_true, beq_iff_eq, decide_eq_true_eq] at hb'
  have hn : n - 1 < Nat.max b 1 := by
    simp only [Nat.max_def]; split <;> omega
  have := hb' (n - 1) hn
  have e : n - 1 + 1 = n := by omega
  rw [e] at this
  exact ⟨_, this.2, this.1⟩

/-- **every value of `[0, max]` is reachable** by `genUintNBiased`, given the table condition -/
theorem uintBiased_reaches_all (ft : FT) (hft : allReach ft = true) (max u : UInt64) (hu : u ≤ max) (fuel : Nat) :
    ∃ w : UInt64, ∀ (k : UInt64 → Bool → Bool → Prog) (rest : List UInt64) (ts : TS),
      ∃ l r toks, (uintBiased ft max (fuel + 1) k).run (.buf (w :: u :: rest)) ts =
        ((k u l r).run (.buf rest) ts).after [w, u] [w, u] toks [] false := by
  have hlen := len64_mono hu
  have h64 := len64_le_64 max
  have hn2 : Nat.max 1 (len64 u) ≤ len64 max ∨ Nat.max 1 (len64 u) = 1 := by
    simp only [Nat.max_def]; split <;> omega
  obtain ⟨w, hw, hg⟩ := allReach_spec ft hft (len64 max) (Nat.max 1 (len64 u)) h64 (Nat.le_max_left _ _) hn2
  exact ⟨w, fun k rest ts => uintBiased_reaches ft max u w _ hu hw hg (Nat.le_max_right _ _) hn2 fuel k rest ts⟩

/-- …hence every value of `[min, max]` by `genUintRange` (what every unsigned generator uses) -/
theorem uintRange_reaches_all (ft : FT) (hft : allReach ft = true) (min max v : UInt64) (h1 : min ≤ v) (h2 : v ≤ max)
    (fuel : Nat) :
    ∃ w : UInt64, ∀ (k : UInt64 → Bool → Bool → Prog) (rest : List UInt64) (ts : TS),
      ∃ l r toks, (uintRange ft min max true (fuel + 1) k).run (.buf (w :: (v - min) :: rest)) ts =
        ((k v l r).run (.buf rest) ts).after [w, v - min] [w, v - min] toks [] false := by
  have hmm : min ≤ max := by
    rw [UInt64.le_iff_toNat_le] at h1 h2 ⊢; omega
  have hng : ¬ min > max := by rw [gt_iff_lt, UInt64.lt_iff_toNat_lt]; rw [UInt64.le_iff_toNat_le] at hmm; omega
  have hsub : v - min ≤ max - min := by
    rw [UInt64.le_iff_toNat_le, UInt64.toNat_sub_of_le _ _ h1, UInt64.toNat_sub_of_le _ _ hmm]
    rw [UInt64.le_iff_toNat_le] at h1 h2; omega
  obtain ⟨w, hw⟩ := uintBiased_reaches_all ft hft (max - min) (v - min) hsub fuel
  refine ⟨w, fun k rest ts => ?_⟩
  simp only [uintRange, hng, if_false, uintN, if_true]
  obtain ⟨l, r, toks, h⟩ := hw (fun u l r => k (min + u) l r) rest ts
  have hadd : min + (v - min) = v := by
    apply UInt64.toNat_inj.mp
    rw [UInt64.toNat_add, UInt64.toNat_sub_of_le _ _ h1]
    rw [UInt64.le_iff_toNat_le] at h1
    have := v.toNat_lt
    rw [Nat.mod_eq_of_lt (by omega)]; omega
  rw [hadd] at h
  exact ⟨l, r, toks, h⟩

end Rapid
