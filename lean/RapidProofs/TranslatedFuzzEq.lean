/-
  RapidProofs.TranslatedFuzzEq — the statements of `checkFuzz` (engine.go) that turn the bytes of a fuzz
  input into the words of the bit stream, as translated from /repo on every run
  (RapidModel/Generated/Translated.lean: `checkFuzz_words`), compute the model's `wordsOfBytes`:
  eight bytes per word, least significant first, the last word padded with zero bytes.
-/
import RapidModel.Generated.Translated
import RapidModel.Bits

namespace Rapid

open Rapid.Go

/-- the model's word of at most eight bytes, written out -/
theorem wordOfBytes_flat (b0 b1 b2 b3 b4 b5 b6 b7 : UInt8) :
    wordOfBytes [b0, b1, b2, b3, b4, b5, b6, b7] =
      b0.toUInt64 ||| (b1.toUInt64 <<< 8) ||| (b2.toUInt64 <<< 16) ||| (b3.toUInt64 <<< 24) |||
        (b4.toUInt64 <<< 32) ||| (b5.toUInt64 <<< 40) ||| (b6.toUInt64 <<< 48) ||| (b7.toUInt64 <<< 56) := by
  have s2 : ∀ a : UInt64, (a <<< 8) <<< 8 = a <<< 16 := fun a => (UInt64.shiftLeft_add_of_toNat_lt (b := 8) (c := 8) (by decide)).symm
  have s3 : ∀ a : UInt64, (a <<< 16) <<< 8 = a <<< 24 := fun a => (UInt64.shiftLeft_add_of_toNat_lt (b := 16) (c := 8) (by decide)).symm
  have s4 : ∀ a : UInt64, (a <<< 24) <<< 8 = a <<< 32 := fun a => (UInt64.shiftLeft_add_of_toNat_lt (b := 24) (c := 8) (by decide)).symm
  have s5 : ∀ a : UInt64, (a <<< 32) <<< 8 = a <<< 40 := fun a => (UInt64.shiftLeft_add_of_toNat_lt (b := 32) (c := 8) (by decide)).symm
  have s6 : ∀ a : UInt64, (a <<< 40) <<< 8 = a <<< 48 := fun a => (UInt64.shiftLeft_add_of_toNat_lt (b := 40) (c := 8) (by decide)).symm
  have s7 : ∀ a : UInt64, (a <<< 48) <<< 8 = a <<< 56 := fun a => (UInt64.shiftLeft_add_of_toNat_lt (b := 48) (c := 8) (by decide)).symm
  simp only [wordOfBytes, UInt64.shiftLeft_or, UInt64.zero_shiftLeft, UInt64.or_zero, s2, s3, s4, s5, s6, s7,
    UInt64.or_assoc]

/-- padding with zero bytes does not change the word -/
theorem wordOfBytes_append_zeros (l : List UInt8) (k : Nat) :
    wordOfBytes (l ++ List.replicate k 0) = wordOfBytes l := by
  induction l with
  | nil =>
    induction k with
    | zero => rfl
    | succ k ih =>
      simp only [List.nil_append] at ih
      simp [List.replicate_succ, wordOfBytes, ih]
  | cons b l ih => simp [wordOfBytes, ih]

/-- `binary.LittleEndian.Uint64` on eight bytes is the model's word -/
theorem leU64_eq (l : List UInt8) (h : l.length = 8) : leU64 l = .ok (wordOfBytes l) := by
  match l, h with
  | [b0, b1, b2, b3, b4, b5, b6, b7], _ => rw [wordOfBytes_flat]; rfl

/-- `n := copy(tmp[:], input)` on a zeroed array of eight bytes -/
theorem copyInto_zeros (input : List UInt8) :
    copyInto (List.replicate 8 (0 : UInt8)) input =
      (input.take 8 ++ List.replicate (8 - min 8 input.length) 0, Int64.ofNat (min 8 input.length)) := by
  have h1 : List.take (min 8 input.length) input = List.take 8 input := by
    by_cases h8 : 8 ≤ input.length
    · rw [Nat.min_eq_left h8]
    · rw [Nat.min_eq_right (by omega), List.take_of_length_le (by omega), List.take_of_length_le (by omega)]
  have h2 : List.drop (min 8 input.length) (List.replicate 8 (0 : UInt8)) = List.replicate (8 - min 8 input.length) 0 := by
    rw [List.drop_replicate]
  simp only [copyInto, List.length_replicate, h1, h2]

theorem glen_pos_iff (input : List UInt8) (h : input.length < 2 ^ 63) :
    (decide (glen input > (0 : Int64))) = decide (input ≠ []) := by
  have h1 : (glen input).toInt = (input.length : Int) := by
    unfold glen
    rw [Int64.toInt_ofNat_of_lt (by simpa using h)]
  have h2 : (glen input > 0) ↔ (0 : Int) < input.length := by
    rw [gt_iff_lt, Int64.lt_iff_toInt_lt, h1]; simp
  cases input with
  | nil =>
    have : ¬ (glen ([] : List UInt8) > 0) := by rw [h2]; simp
    simp [this]
  | cons b bs =>
    have : glen (b :: bs) > 0 := by rw [h2]; simp
    simp [this]

/-- the loop of `checkFuzz`: every iteration takes (up to) eight bytes -/
theorem tr_checkFuzz_loop : ∀ (fuel : Nat) (buf : List UInt64) (input : List UInt8),
    input.length < 2 ^ 63 → input.length < fuel →
      Translated.checkFuzz_words_loop1 fuel buf input = .ok (buf ++ wordsOfBytes input, []) := by
  intro fuel
  induction fuel with
  | zero => intro _ _ _ h; omega
  | succ fuel ih =>
    intro buf input hsz hf
    rw [Translated.checkFuzz_words_loop1, glen_pos_iff input hsz]
    by_cases hne : input = []
    · subst hne
      simp [wordsOfBytes, pure, Except.pure]
    · simp only [hne, ne_eq, not_false_eq_true, decide_true, if_true]
      rw [copyInto_zeros]
      have hl : (input.take 8 ++ List.replicate (8 - min 8 input.length) (0 : UInt8)).length = 8 := by
        simp [List.length_take]; omega
      simp only [leU64_eq _ hl, wordOfBytes_append_zeros, bind, Except.bind]
      have hm : min 8 input.length < input.length + 1 := by omega
      have hpos : pos? (Int64.ofNat (min 8 input.length)) (input.length + 1) = some (min 8 input.length) := by
        unfold pos?
        have : (Int64.ofNat (min 8 input.length)).toInt = (min 8 input.length : Nat) := by
          rw [Int64.toInt_ofNat_of_lt (by omega)]
        rw [this]; simp; omega
      simp only [sliceFrom, hpos]
      have hd : input.drop (min 8 input.length) = input.drop 8 := by
        by_cases h8 : 8 ≤ input.length
        · rw [Nat.min_eq_left h8]
        · rw [Nat.min_eq_right (by omega), List.drop_of_length_le (by omega), List.drop_of_length_le (by omega)]
      rw [hd, ih _ _ (by simp [List.length_drop]; omega) (by
        have : 0 < input.length := by cases input with | nil => exact absurd rfl hne | cons _ _ => simp
        simp [List.length_drop]; omega)]
      conv => rhs; rw [wordsOfBytes]
      simp [hne]

/-- **the source's byte-to-word conversion is the model's `wordsOfBytes`**, for every input (shorter than
    2^63 bytes, as every Go slice is) and enough fuel -/
theorem tr_checkFuzz_words (input : List UInt8) (fuel : Nat) (hsz : input.length < 2 ^ 63) (hf : input.length < fuel) :
    Translated.checkFuzz_words input fuel = .ok (wordsOfBytes input) := by
  simp [Translated.checkFuzz_words, tr_checkFuzz_loop fuel [] input hsz hf, bind, Except.bind, pure, Except.pure]

end Rapid
