/-
  RapidProofs.PassRefine — the shrinker with its passes (`RapidModel.Passes`) refines the
  abstract shrinker `shrinkWith`: whatever the passes do — in whatever order, however `minimize`
  steers them, wherever the fuel (= deadline) cuts them — the run is `shrinkWith` on the list
  of candidates it actually tried.  Every theorem about `shrinkWith` (C01, C05) therefore holds
  of the concrete shrinker.
-/
import RapidModel.Passes
import RapidProofs.Shrink
import RapidProofs.PassSafe
import RapidProofs.PruneT

namespace Rapid

/-- the assertion at the end of `prune()` ("no group is empty") holds for the recordings of
    this property: true of everything built from the public generators (a finished,
    non-discarded group keeps at least one word, see `KeepsSome`); an arbitrary `Prog` can
    violate it, and Go then panics with "assertion failed" -/
def PruneOK (p : Prog) : Prop :=
  ∀ buf, (prunedOfToks (checkOnce p (.buf buf) TS.fresh).toks).noEmptyGroup = true

theorem checkOnce_pruned_data (p : Prog) (src : Src) (ts : TS) :
    (prunedOfToks (checkOnce p src ts).toks).data = (checkOnce p src ts).kept := by
  simp only [checkOnce]
  exact pruned_data p src _

def SS.shr (s : SS) : Shr := ⟨s.rc.data, s.err⟩

theorem compareData_kept_le (p : Prog) (buf : List UInt64) :
    ¬ compareData (checkOnce p (.buf buf) TS.fresh).kept buf > 0 := by
  have := checkOnce_kept_sle p buf TS.fresh
  simp only [sle] at this
  omega

/-- one call of `shrinker.accept`, against the abstract `accept` -/
theorem ss_accept_sim (p : Prog) (hP : PruneOK p) (s : SS) (buf : List UInt64) :
    (∃ s', s.accept p buf = .ok (true, s') ∧ accept p s.shr buf = .accepted s'.shr ∧ s'.log = buf :: s.log) ∨
    (∃ s', s.accept p buf = .ok (false, s') ∧ s'.shr = s.shr ∧
      (s'.log = s.log ∨ (s'.log = buf :: s.log ∧ accept p s.shr buf = .rejected))) := by
  simp only [SS.accept, accept, SS.shr]
  by_cases hc : compareData buf s.rc.data ≥ 0
  · simp only [hc, if_true]
    exact Or.inr ⟨s, rfl, rfl, Or.inl rfl⟩
  · simp only [hc, if_false]
    by_cases hcache : s.cache.contains buf = true
    · simp only [hcache, if_true]
      exact Or.inr ⟨s, rfl, rfl, Or.inl rfl⟩
    · simp only [hcache, Bool.false_eq_true, if_false]
      by_cases htb : tbKey (checkOnce p (.buf buf) TS.fresh).err != tbKey s.err
      · simp only [htb, if_true]
        exact Or.inr ⟨_, rfl, rfl, Or.inr ⟨rfl, trivial⟩⟩
      · simp only [htb, Bool.false_eq_true, if_false, hP buf, Bool.not_true]
        have hd := checkOnce_pruned_data p (.buf buf) TS.fresh
        have hle : ¬ compareData (prunedOfToks (checkOnce p (.buf buf) TS.fresh).toks).data buf > 0 := by
          rw [hd]; exact compareData_kept_le p buf
        simp only [hle, if_false, sameError_refl, Bool.not_true, Bool.false_eq_true]
        exact Or.inl ⟨_, rfl, by simp [hd], rfl⟩

/-- **refinement**: a script run is `shrinkWith` on the candidates it logged -/
theorem run_refines (p : Prog) (hP : PruneOK p) {α : Type} : ∀ (sc : Script α) (s : SS),
    (∃ a s' cands, sc.run p s = .ok (a, s') ∧ shrinkWith p s.shr cands = (s'.rc.data, s'.err) ∧
        s'.log = cands.reverse ++ s.log) ∨
    (∃ log, sc.run p s = .error (.oob log)) := by
  intro sc
  induction sc with
  | ret a => intro s; exact Or.inl ⟨a, s, [], rfl, rfl, rfl⟩
  | get k ih =>
    intro s
    simp only [Script.run]
    exact ih _ s
  | oob => intro s; exact Or.inr ⟨s.log, rfl⟩
  | try_ buf k ih =>
    intro s
    simp only [Script.run]
    rcases ss_accept_sim p hP s buf with ⟨s1, h1, h2, h3⟩ | ⟨s1, h1, h2, h3⟩
    · simp only [h1]
      rcases ih true s1 with ⟨a, s', cands, hr, hs, hl⟩ | ⟨log, hr⟩
      · refine Or.inl ⟨a, s', buf :: cands, hr, ?_, ?_⟩
        · simp only [shrinkWith, h2]; exact hs
        · rw [hl, h3]; simp
      · exact Or.inr ⟨log, hr⟩
    · simp only [h1]
      rcases ih false s1 with ⟨a, s', cands, hr, hs, hl⟩ | ⟨log, hr⟩
      · rcases h3 with h3 | ⟨h3, h4⟩
        · exact Or.inl ⟨a, s', cands, hr, by rw [← h2]; exact hs, by rw [hl, h3]⟩
        · refine Or.inl ⟨a, s', buf :: cands, hr, ?_, ?_⟩
          · simp only [shrinkWith, h4]; rw [← h2]; exact hs
          · rw [hl, h3]; simp
      · exact Or.inr ⟨log, hr⟩

theorem ss_accept_cases (p : Prog) (s : SS) (buf : List UInt64) :
    (∃ s', s.accept p buf = .ok (false, s') ∧ s'.rc = s.rc) ∨
    (∃ s', s.accept p buf = .ok (true, s') ∧ RecWF s'.rc) ∨
    (∃ d e l, s.accept p buf = .error (.mismatch d e l)) ∨ (∃ l, s.accept p buf = .error (.badRec l)) := by
  simp only [SS.accept]
  split
  · exact Or.inl ⟨s, rfl, rfl⟩
  · split
    · exact Or.inl ⟨s, rfl, rfl⟩
    · split
      · exact Or.inl ⟨_, rfl, rfl⟩
      · split
        · exact Or.inr (Or.inr (Or.inr ⟨_, rfl⟩))
        · split
          · exact Or.inr (Or.inr (Or.inr ⟨_, rfl⟩))
          · split
            · exact Or.inr (Or.inr (Or.inl ⟨_, _, _, rfl⟩))
            · exact Or.inr (Or.inl ⟨_, rfl, prunedOfToks_wf _⟩)

/-- a safe script never crashes with an index out of range, and keeps the recording well-formed -/
theorem run_safe (p : Prog) {α : Type} {r : Rec} {sc : Script α} (hs : Safe r sc) :
    ∀ s : SS, s.rc = r → RecWF r →
      (∀ log, sc.run p s ≠ .error (.oob log)) ∧ (∀ a s', sc.run p s = .ok (a, s') → RecWF s'.rc) := by
  induction hs with
  | ret r a =>
    intro s hs hr
    refine ⟨fun log h => by simp [Script.run] at h, fun a' s' h => ?_⟩
    simp only [Script.run, Except.ok.injEq, Prod.mk.injEq] at h
    rw [← h.2, hs]; exact hr
  | get r k _ ih =>
    intro s hs hr
    simp only [Script.run]
    rw [hs]
    exact ih s.shrinks s hs hr
  | try_ r buf k _ _ ih1 ih2 =>
    intro s hs hr
    simp only [Script.run]
    rcases ss_accept_cases p s buf with ⟨s', h1, h2⟩ | ⟨s', h1, h2⟩ | ⟨d, e, l, h1⟩ | ⟨l, h1⟩
    · simp only [h1]; exact ih1 s' (h2.trans hs) hr
    · simp only [h1]; exact ih2 s'.rc h2 s' rfl h2
    · simp only [h1]; exact And.intro (fun log h => by cases h) (fun a s' h => by cases h)
    · simp only [h1]; exact And.intro (fun log h => by cases h) (fun a s' h => by cases h)

/-- **the shrinker with its passes**: started from a well-formed recording, it never indexes
    out of range, and its result is `shrinkWith` on the candidates it tried — for every fuel
    (= wherever the deadline cuts it) -/
theorem shrinkScript_run (p : Prog) (hP : PruneOK p) (F : Nat) (s : SS) (hr : RecWF s.rc) :
    ∃ s' cands, (shrinkScript F).run p s = .ok ((), s') ∧
      shrinkWith p s.shr cands = (s'.rc.data, s'.err) ∧ s'.log = cands.reverse ++ s.log ∧ RecWF s'.rc := by
  have hsafe := run_safe p (safe_shrinkScript F s.rc hr) s rfl hr
  rcases run_refines p hP (shrinkScript F) s with ⟨a, s', cands, h1, h2, h3⟩ | ⟨log, h⟩
  · exact ⟨s', cands, h1, h2, h3, hsafe.2 a s' h1⟩
  · exact absurd h (hsafe.1 log)

end Rapid
