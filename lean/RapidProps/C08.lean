/-
  C08 — state-machine runs follow the check/action discipline.
  (initial set; the trace-language theorem is in RapidProofs/StateMachine.lean)
-/
import RapidModel.Generated.CallOrders
import RapidModel.Generated.Consts
import RapidProofs.Signals
import RapidProofs.StateMachine

namespace Rapid.C08

/-- no actions: `Repeat` returns at once -/
theorem no_actions (e : Env) (actions : Nat → Prog) (check : Prog) : smRepeat e 0 actions check = .ret .nil := by
  simp [smRepeat]

/-- when `validActionTries` attempts in a row were skipped, `Repeat` fails the test case with
    "can't find a valid (non-skipped) action" — a failure, not an endless loop -/
theorem stuck_is_a_failure (e : Env) (n : Nat) (actions : Nat → Prog) (k : Bool → Prog) :
    execAction e n actions k 0 = .throw (.stop noValidActionsMsg siteNoValid) := rfl

/-- the bound on attempts is the constant of the source -/
theorem attempts_bounded : validActionTries = 100 := rfl

/-- the invariant runs first, and a falsifying invariant ends the run before any action -/
theorem invariant_first (e : Env) (n : Nat) (hn : n ≠ 0) (actions : Nat → Prog) (msg : String) (site : Nat)
    (src : Src) (ts : TS) :
    ((smRepeat e n actions (Prog.fatal msg site)).run src ts).res = .error (.stop msg site) := by
  simp [smRepeat, hn, Prog.fatal, Prog.bind, Prog.run, Out.ofRes, Out.after]

/-- a non-fatal failure in the initial invariant is caught by the `failOnError` that follows it -/
theorem invariant_errorf_stops (e : Env) (n : Nat) (hn : n ≠ 0) (actions : Nat → Prog) (msg : String)
    (src : Src) (ts : TS) :
    ((smRepeat e n actions (.errorf msg (.ret .nil))).run src ts).res = .error (.stop msg siteInitCheck) := by
  simp [smRepeat, hn, Prog.bind, Prog.run, Out.ofRes, Out.after]

/-! ### the trace-language theorem -/

/-- **The check/action discipline, for every action set, invariant, bit source and `*T`.**
    The invariant `check` and the actions `acts i` are arbitrary programs (they may draw, skip
    before or after drawing, fail fatally or not, panic, register cleanups, use Custom generators);
    they are instrumented with the markers `chk/chkd` (invariant begins / returned) and
    `act i/done` (action `i` begins / returned), `sig` marks every `T.Error/Errorf/Fail`.  The
    markers of a run of `T.Repeat` are accepted by the automaton `step`:
      * the first call is the invariant, and the invariant is called after an action exactly when
        that action returned (`done`) and no failure is pending;
      * only the supplied actions `i < n` run, one at a time (no call begins inside another);
      * after an action that did not return (skipped, invalid data) the next attempt follows — never
        the invariant;
      * after a signalled failure no action and no invariant call begins any more;
      * a run that returns normally ends between two steps, a run that ends with an error may end
        anywhere after the first invariant call began. -/
theorem repeat_discipline (e : Env) (n : Nat) (acts : Nat → Prog) (check : Prog) (hn0 : n ≠ 0) (hn : n ≤ 2 ^ 64)
    (ha : ∀ i, Unmarked (acts i)) (hc : Unmarked check) (src : Src) (ts : TS) :
    ∃ s, runA n .start (marks ((smRepeat e n (fun i => markedAction i (acts i)) (markedCheck check)).run src ts).evs) = some s ∧
      match ((smRepeat e n (fun i => markedAction i (acts i)) (markedCheck check)).run src ts).res with
      | .ok _ => finalOk s = true
      | .error _ => finalErr s = true := by
  obtain ⟨s, hr, _, hm⟩ := tr_smRepeat e acts check hn0 hn ha hc src ts (fun h => by simp [dead] at h)
  refine ⟨s, hr, ?_⟩
  cases hres : ((smRepeat e n (fun i => markedAction i (acts i)) (markedCheck check)).run src ts).res with
  | ok v => rw [hres] at hm; exact atHead_finalOk hm
  | error er => rw [hres] at hm; exact hm.1

/-- what the automaton accepts and rejects (two actions): a regular run; an invariant call after
    an action that did not return; an action after a signalled failure; an action before the first
    invariant call; an action that was not supplied; a normal return right after an action returned -/
example :
    (runA 2 .start [.chk, .chkd, .act 0, .done, .chk, .chkd, .act 1, .act 0, .done, .chk, .chkd]).map finalOk = some true ∧
    runA 2 .start [.chk, .chkd, .act 0, .chk] = none ∧
    runA 2 .start [.chk, .sig, .chkd, .act 0] = none ∧
    runA 2 .start [.act 0] = none ∧
    runA 2 .start [.chk, .chkd, .act 5] = none ∧
    (runA 2 .start [.chk, .chkd, .act 0, .done]).map finalOk = some false := by decide

/-- the hypotheses are satisfiable: programs that emit small ids, draw, fail and skip are `Unmarked` -/
example : Unmarked (.emit 7 (.errorf "x" (.draw 8 fun w => if w = 0 then Prog.skip "s" else .ret .nil))) := by
  intro src ts id h
  have hid : id = 7 := by
    simp only [Prog.run, after_evs] at h
    cases hn : src.next 8 with
    | none => simpa [hn, Out.ofRes] using h
    | some r =>
      simp only [hn, after_evs] at h
      split at h <;> simpa [Prog.skip, Prog.run, Out.ofRes] using h
  omega

/-! ### facts re-read from /repo's source on every run -/

theorem tries_source : Rapid.Generated.c_validActionTries = validActionTries ∧
    Rapid.Generated.c_noValidActionsMsg = noValidActionsMsg ∧ Rapid.Generated.flag_steps = 30 := by decide

/-- `T.Repeat`: the statements in order — …, initial `sm.check`, `failOnError`, the loop -/
theorem repeat_order_source :
    Rapid.Generated.order_Repeat = ["call t.Helper", "assign", "call make", "for", "if", "call sort.Strings", "assign", "if",
      "call newRepeat", "assign", "call sm.check", "call t.failOnError", "for"] := by decide

end Rapid.C08
