/-
  C08 — state-machine runs follow the check/action discipline.
  (initial set; the trace-language theorem is in RapidProofs/StateMachine.lean)
-/
import RapidModel.Generated.CallOrders
import RapidModel.Generated.Consts
import RapidProofs.Signals

namespace Rapid.C08

/-- no actions: `Repeat` returns at once -/
theorem no_actions (e : Env) (actions : Nat → Prog) (check : Prog) : smRepeat e 0 actions check = .ret .nil := by
  simp [smRepeat]

/-- when `validActionTries` attempts in a row were skipped, `Repeat` fails the test case with
    "can't find a valid (non-skipped) action" — a failure, not an endless loop -/
theorem stuck_is_a_failure (e : Env) (n : Nat) (actions : Nat → Prog) (k : Bool → Prog) :
    execAction e n actions k 0 = .throw (.stop noValidActionsMsg siteNoValid) := rfl

/-- the bound on attempts is the constant of the source -/
theorem attempts_bounded : validActionTries = 100 := rfl

/-- the invariant runs first, and a falsifying invariant ends the run before any action -/
theorem invariant_first (e : Env) (n : Nat) (hn : n ≠ 0) (actions : Nat → Prog) (msg : String) (site : Nat)
    (src : Src) (ts : TS) :
    ((smRepeat e n actions (Prog.fatal msg site)).run src ts).res = .error (.stop msg site) := by
  simp [smRepeat, hn, Prog.fatal, Prog.bind, Prog.run, Out.ofRes, Out.after]

/-- a non-fatal failure in the initial invariant is caught by the `failOnError` that follows it -/
theorem invariant_errorf_stops (e : Env) (n : Nat) (hn : n ≠ 0) (actions : Nat → Prog) (msg : String)
    (src : Src) (ts : TS) :
    ((smRepeat e n actions (.errorf msg (.ret .nil))).run src ts).res = .error (.stop msg siteInitCheck) := by
  simp [smRepeat, hn, Prog.bind, Prog.run, Out.ofRes, Out.after]

/-! ### facts re-read from /repo's source on every run -/

theorem tries_source : Rapid.Generated.c_validActionTries = validActionTries ∧
    Rapid.Generated.c_noValidActionsMsg = noValidActionsMsg ∧ Rapid.Generated.flag_steps = 30 := by decide

/-- `T.Repeat`: the statements in order — …, initial `sm.check`, `failOnError`, the loop -/
theorem repeat_order_source :
    Rapid.Generated.order_Repeat = ["call t.Helper", "assign", "call make", "for", "if", "call sort.Strings", "assign", "if",
      "call newRepeat", "assign", "call sm.check", "call t.failOnError", "for"] := by decide

end Rapid.C08
