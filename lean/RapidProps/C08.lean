/-
  C08 — state-machine runs follow the check/action discipline.
  (initial set; the trace-language theorem is in RapidProofs/StateMachine.lean)
-/
import RapidModel.Generated.CallOrders
import RapidModel.Generated.Consts
import RapidProofs.Signals
import RapidProofs.StateMachine
import RapidProofs.TranslatedRepeatEq

namespace Rapid.C08

/-- no actions: `Repeat` returns at once -/
theorem no_actions (e : Env) (actions : Nat → Prog) (check : Prog) : smRepeat e 0 actions check = .ret .nil := by
  simp [smRepeat]

/-- when `validActionTries` attempts in a row were skipped, `Repeat` fails the test case with
    "can't find a valid (non-skipped) action" — a failure, not an endless loop -/
theorem stuck_is_a_failure (e : Env) (n : Nat) (actions : Nat → Prog) (k : Bool → Prog) :
    execAction e n actions k 0 = .throw (.stop noValidActionsMsg siteNoValid) := rfl

/-- the bound on attempts is the constant of the source -/
theorem attempts_bounded : validActionTries = 100 := rfl

/-- the invariant runs first, and a falsifying invariant ends the run before any action -/
theorem invariant_first (e : Env) (n : Nat) (hn : n ≠ 0) (actions : Nat → Prog) (msg : String) (site : Nat)
    (src : Src) (ts : TS) :
    ((smRepeat e n actions (Prog.fatal msg site)).run src ts).res = .error (.stop msg site) := by
  simp [smRepeat, hn, Prog.fatal, Prog.bind, Prog.run, Out.ofRes, Out.after]

/-- a non-fatal failure in the initial invariant is caught by the `failOnError` that follows it -/
theorem invariant_errorf_stops (e : Env) (n : Nat) (hn : n ≠ 0) (actions : Nat → Prog) (msg : String)
    (src : Src) (ts : TS) :
    ((smRepeat e n actions (.errorf msg (.ret .nil))).run src ts).res = .error (.stop msg siteInitCheck) := by
  simp [smRepeat, hn, Prog.bind, Prog.run, Out.ofRes, Out.after]

/-! ### the trace-language theorem -/

/-- **The check/action discipline, for every action set, invariant, bit source and `*T`.**
    The invariant `check` and the actions `acts i` are arbitrary programs (they may draw, skip
    before or after drawing, fail fatally or not, panic, register cleanups, use Custom generators);
    they are instrumented with the markers `chk/chkd` (invariant begins / returned) and
    `act i/done` (action `i` begins / returned), `sig` marks every `T.Error/Errorf/Fail`.  The
    markers of a run of `T.Repeat` are accepted by the automaton `step`:
      * the first call is the invariant, and the invariant is called after an action exactly when
        that action returned (`done`) and no failure is pending;
      * only the supplied actions `i < n` run, one at a time (no call begins inside another);
      * after an action that did not return (skipped, invalid data) the next attempt follows — never
        the invariant;
      * after a signalled failure no action and no invariant call begins any more;
      * a run that returns normally ends between two steps, a run that ends with an error may end
        anywhere after the first invariant call began. -/
theorem repeat_discipline (e : Env) (n : Nat) (acts : Nat → Prog) (check : Prog) (hn0 : n ≠ 0) (hn : n ≤ 2 ^ 64)
    (ha : ∀ i, Unmarked (acts i)) (hc : Unmarked check) (src : Src) (ts : TS) :
    ∃ s, runA n .start (marks ((smRepeat e n (fun i => markedAction i (acts i)) (markedCheck check)).run src ts).evs) = some s ∧
      match ((smRepeat e n (fun i => markedAction i (acts i)) (markedCheck check)).run src ts).res with
      | .ok _ => finalOk s = true
      | .error _ => finalErr s = true := by
  obtain ⟨s, hr, _, hm⟩ := tr_smRepeat e acts check hn0 hn ha hc src ts (fun h => by simp [dead] at h)
  refine ⟨s, hr, ?_⟩
  cases hres : ((smRepeat e n (fun i => markedAction i (acts i)) (markedCheck check)).run src ts).res with
  | ok v => rw [hres] at hm; exact atHead_finalOk hm
  | error er => rw [hres] at hm; exact hm.1

/-- what the automaton accepts and rejects (two actions): a regular run; an invariant call after
    an action that did not return; an action after a signalled failure; an action before the first
    invariant call; an action that was not supplied; a normal return right after an action returned -/
example :
    (runA 2 .start [.chk, .chkd, .act 0, .done, .chk, .chkd, .act 1, .act 0, .done, .chk, .chkd]).map finalOk = some true ∧
    runA 2 .start [.chk, .chkd, .act 0, .chk] = none ∧
    runA 2 .start [.chk, .sig, .chkd, .act 0] = none ∧
    runA 2 .start [.act 0] = none ∧
    runA 2 .start [.chk, .chkd, .act 5] = none ∧
    (runA 2 .start [.chk, .chkd, .act 0, .done]).map finalOk = some false := by decide

/-- the hypotheses are satisfiable: programs that emit small ids, draw, fail and skip are `Unmarked` -/
example : Unmarked (.emit 7 (.errorf "x" (.draw 8 fun w => if w = 0 then Prog.skip "s" else .ret .nil))) := by
  intro src ts id h
  have hid : id = 7 := by
    simp only [Prog.run, after_evs] at h
    cases hn : src.next 8 with
    | none => simpa [hn, Out.ofRes] using h
    | some r =>
      simp only [hn, after_evs] at h
      split at h <;> simpa [Prog.skip, Prog.run, Out.ofRes] using h
  omega

/-! ### facts re-read from /repo's source on every run -/

theorem tries_source : Rapid.Generated.c_validActionTries = validActionTries ∧
    Rapid.Generated.c_noValidActionsMsg = noValidActionsMsg ∧ Rapid.Generated.flag_steps = 30 := by decide

/-- `T.Repeat`: the statements in order — …, initial `sm.check`, `failOnError`, the loop -/
theorem repeat_order_source :
    Rapid.Generated.order_Repeat = ["call t.Helper", "assign", "call make", "for", "if", "call sort.Strings", "assign", "if",
      "call newRepeat", "assign", "call sm.check", "call t.failOnError", "for"] := by decide

/-- `T.Repeat`, `stateMachine.executeAction` and `runAction` re-read from /repo statement by statement: the model's `smRepeat` /
    `execAction` were written against exactly this text — the invariant and `failOnError` once before the loop; the loop
    `for repeat.more(t.s) { ok := executeAction; if ok { check; failOnError } else { repeat.reject() } }`; an attempt is an
    `action` group around the draw of the key and the call; "skipped" is invalid data with no draw completed (`t.draws`), after
    `failOnError`; `validActionTries` attempts, then `stopTest(noValidActionsMsg)` -/
theorem repeat_body_source : Rapid.Generated.body_T_Repeat =
    ["{", "t.Helper()", "check := func(*T) {}", "actionKeys := make([]string, 0, len(actions))",
     "for key, action := range actions {", "if key != \"\" {", "actionKeys = append(actionKeys, key)", "} else {",
     "check = action", "}", "}", "if len(actionKeys) == 0 {", "return", "}", "sort.Strings(actionKeys)",
     "steps := flags.steps", "if testing.Short() {", "steps /= 2", "}",
     "repeat := newRepeat(-1, -1, float64(steps), \"Repeat\")", "sm := stateMachine{", "check:\t\tcheck,",
     "actionKeys:\tSampledFrom(actionKeys),", "actions:\tactions,", "}", "sm.check(t)", "t.failOnError()",
     "for repeat.more(t.s) {", "ok := sm.executeAction(t)", "if ok {", "sm.check(t)", "t.failOnError()", "} else {",
     "repeat.reject()", "}", "}", "}"] := by decide

theorem executeAction_body_source : Rapid.Generated.body_stateMachine_executeAction =
    ["{", "t.Helper()", "for n := 0; n < validActionTries; n++ {", "i := t.s.beginGroup(actionLabel, false)",
     "action := sm.actions[sm.actionKeys.Draw(t, \"action\")]", "invalid, skipped := runAction(t, action)",
     "t.s.endGroup(i, false)", "if skipped {", "continue", "} else {", "return !invalid", "}", "}",
     "panic(stopTest(noValidActionsMsg))", "}"] := by decide

theorem runAction_body_source : Rapid.Generated.body_runAction =
    ["{", "defer func(draws int) {", "if r := recover(); r != nil {", "if _, ok := r.(invalidData); ok {",
     "t.failOnError()", "invalid = true", "skipped = t.draws == draws", "} else {", "panic(r)", "}", "}",
     "}(t.draws)", "action(t)", "t.failOnError()", "return false, false", "}"] := by decide

/-- the loop of `T.Repeat` around the *translated* `repeat.more` / `repeat.reject` (utils.go, translated on every run) is the
    loop of the model's `smRepeat` — `repeatLoop ⟨0, maxInt, steps-threshold, "Repeat"⟩` —: for every step program (an attempt to
    run an action, then the invariant), source of words and `*T` state the two end with the same result, rest of the source,
    recorded groups, events — an action that could not run is rejected (`rRej`: not counted, its group discarded), one that ran
    is counted — or the model ran out of fuel (the deadline) -/
theorem source_repeat_steps (fe : Go.FEval) (ft : FT) (HB : FloatFactsBits fe ft) (thr pc : UInt64)
    (hcp : Go.CoinOK fe (.ofBits pc) thr) (step : Val → Prog) (hshape : StepShape step) (cf fuel : Nat) (hfuel : fuel < 2 ^ 59)
    (src : Src) (ts : TS) :
    ((repeatLoop ⟨0, maxInt, thr, "Repeat"⟩ step (fun a => .ret a) fuel {} .nil).run src ts).res = .error .fuel ∨
    (Go.StM.run (Go.repeatWhile fe step cf fuel (Go.RS.fresh ⟨0, maxInt, thr, "Repeat"⟩ pc) .nil) (Go.StState.fresh src ts)).core =
      Go.outCore ((repeatLoop ⟨0, maxInt, thr, "Repeat"⟩ step (fun a => .ret a) fuel {} .nil).run src ts) :=
  Go.tr_repeat fe ft HB ⟨0, maxInt, thr, "Repeat"⟩ pc hcp (by show 0 < 2 ^ 62; decide) (by show maxInt < 2 ^ 63; decide) step hshape cf fuel hfuel .nil src ts

end Rapid.C08
