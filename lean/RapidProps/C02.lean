/-
  C02 — no falsification is lost.
  `Ev.signal` is emitted by `T.Error/Errorf/Fail` (and by `Fatal*/FailNow`, which set `failed`
  before they panic) wherever they are called: body, `Repeat` action or invariant, Custom
  function (inner `*T`), cleanup callback of either `*T`.
-/
import RapidProofs.Signals
import RapidModel.Generated.CallOrders

namespace Rapid.C02

/-- a non-fatal (or fatal) failure signal anywhere in the test case ⇒ the test case ends with
    an error that is not "invalid" -/
theorem signal_fails_test_case (p : Prog) (src : Src) (ts : TS)
    (h : ts.failed.isSome ∨ Ev.signal ∈ (checkOnce p src ts).evs) :
    ∃ e, (checkOnce p src ts).err = some e ∧ e.isInvalid = false :=
  checkOnce_signal p src ts h

/-- a panic with any value (incl. runtime errors) that ends the body falsifies the test case — whatever the
    cleanup callbacks do afterwards: one that fails is reported instead (still a failure), one that skips
    cannot turn the falsified test case into an invalid one (the defect repaired by the `fix:` commit
    "a cleanup function that skips…": before it this theorem needed the hypothesis that no callback panics) -/
theorem panic_fails_test_case (p : Prog) (src : Src) (ts : TS) (e : Err)
    (hb : ((bodyOf p).run src { ts with ctxCount := 0 }).res = .error e) (he : e.isInvalid = false) :
    ∃ e', (checkOnce p src ts).err = some e' ∧ e'.isInvalid = false :=
  checkOnce_body_error p src ts e hb he

/-- the excluded point of the earlier statement, now a theorem: a panic followed by a cleanup that skips -/
example : (checkOnce (.cleanup (.throw (.invalid "skip")) (.throw (.panic "boom" 1))) (.buf []) TS.fresh).err
    = some (.panic "boom" 1) := by decide

/-- …and inside a Custom function whose own cleanup skips -/
example : (checkOnce (.inner (.cleanup (.throw (.invalid "skip")) (.throw (.panic "boom" 1))) .ret) (.buf []) TS.fresh).err
    = some (.panic "boom" 1) := by
  simp [checkOnce, Prog.run, Out.ofRes, cleanupPhase, TS.fresh, runStack, stackSize, CTree.run, CTree.size, pickErr,
    Err.isInvalid]

/-- a falsified test case fails the enclosing test -/
theorem falsified_fails_tb (p : Prog) (checks : Nat) (seed : UInt64) (files : List FF)
    (early : Nat → Bool) (cands : List (List UInt64))
    (h : (doCheck p checks seed files early cands).err1.isSome ∨ (doCheck p checks seed files early cands).err2.isSome) :
    (verdict checks (doCheck p checks seed files early cands)).failsTB = true :=
  failing_case_fails_tb p checks seed files early cands h

/-- `findBug` never blames a skipped test case -/
theorem skip_never_blamed (p : Prog) (checks : Nat) (seed : UInt64) (early : Nat → Bool) (e : Err)
    (h : (findBug p checks seed early).err = some e) : e.isInvalid = false :=
  (findBugLoop_blame p checks early _ 0 0 seed TS.fresh [] e clean_fresh h).1

/-- skipping alone gives "invalid", which is not a failure -/
example : (checkOnce (Prog.skip "s") (.buf []) TS.fresh).err = some (.invalid "s") := by decide
/-- Errorf inside a Custom function (inner `*T`) is not lost: `failOnError` at the end of the
    body of the parent sees it -/
example : (checkOnce (.inner (.errorf "in custom" (.ret .nil)) .ret) (.buf []) TS.fresh).err
    = some (.stop "in custom" sitePending) := by
  simp [checkOnce, Prog.bind, Prog.run, Out.ofRes, cleanupPhase, TS.fresh, runStack, stackSize, Out.after]
/-- …nor from a cleanup registered on the inner `*T` -/
example : (checkOnce (.inner (.cleanup (.errorf "late" .done) (.ret .nil)) .ret) (.buf []) TS.fresh).err
    = some (.stop "late" sitePending) := by
  simp [checkOnce, Prog.bind, Prog.run, Out.ofRes, cleanupPhase, TS.fresh, runStack, stackSize, Out.after,
    CTree.run, CTree.size, pickErr]

/-- `T.fail` re-read from /repo statement by statement: the failure is recorded on this `T` and handed to the parent `T` *recursively* (so that it reaches the test case through any nesting of Custom functions); `now` panics with `stopTest` -/
theorem fail_body_source : Rapid.Generated.body_T_fail =
    ["{", "t.mu.Lock()", "defer t.mu.Unlock()", "t.failed = stopTest(msg)", "t.didFail = true",
     "if t.parent != nil {", "t.parent.fail(false, msg)", "}", "if now {", "panic(t.failed)", "}", "}"] := by rfl

/-- `T.failOnError` re-read from /repo statement by statement: a recorded non-fatal failure becomes a `stopTest` panic -/
theorem failOnError_body_source : Rapid.Generated.body_T_failOnError =
    ["{", "t.mu.RLock()", "defer t.mu.RUnlock()", "if t.didFail {", "panic(t.failed)", "}", "}"] := by rfl

/-- `customGen.maybeValue` re-read from /repo statement by statement: the function runs on a fresh `T` whose parent is the caller's; only invalid data is swallowed (the attempt is rejected), every other panic goes on -/
theorem maybeValue_body_source : Rapid.Generated.body_customGen_maybeValue =
    ["{", "parent := t", "t = newT(t.tb, t.s, flags.debug, nil)", "t.parent = parent", "failing := false",
     "defer t.cleanupCustom(&failing)", "defer func() {", "if r := recover(); r != nil {",
     "if _, ok := r.(invalidData); !ok {", "failing = true", "panic(r)", "}", "}", "}()", "return g.fn(t), true", "}"] := by rfl

/-- `checkOnce` re-read from /repo statement by statement -/
theorem checkOnce_body_source : Rapid.Generated.body_checkOnce =
    ["{", "if t.tbLog {", "t.tb.Helper()", "}", "err := runProp(t, prop)", "if err == nil || err.isInvalidData() {",
     "if failed := pendingFailure(t); failed != nil {", "err = failed", "}", "}", "t.resetFailed()", "return err",
     "}"] := by rfl

/-- `runProp` re-read from /repo statement by statement: `panicToError(recover())` around the property, the cleanups deferred -/
theorem runProp_body_source : Rapid.Generated.body_runProp =
    ["{", "if t.tbLog {", "t.tb.Helper()", "}", "defer func() {", "err = panicToError(recover(), 3)",
     "if id := t.takeSkipped(); id != nil && err == nil {", "err = &testError{data: *id}", "}", "}()",
     "defer t.cleanup()", "prop(t)", "return nil", "}"] := by rfl

end Rapid.C02
