/-
  C05 — minimization keeps the same failure and only ever gets smaller.
  All statements are for every property, every start state and EVERY sequence of candidate
  buffers (any pass, any order, any deadline cut).
-/
import RapidProofs.Shrink
import RapidProofs.PassRefine
import RapidProofs.PruneAssert
import RapidModel.Generated.CallOrders
import RapidModel.Generated.Consts
import RapidProofs.PruneCustomAssert
import RapidProofs.TranslatedMinEq
import RapidProofs.TranslatedPruneEq
import RapidProofs.PruneLiteralRun
import RapidProofs.TranslatedRecEq
import RapidProofs.TranslatedShrinkRun
import RapidProofs.TranslatedAcceptEq

namespace Rapid.C05

/-- an accepted step: strictly smaller than the current data, same failure site; the new
    data is `≤` the candidate and comes from an executed run failing with the new error -/
theorem accepted_step (p : Prog) (s s' : Shr) (c : List UInt64) (h : accept p s c = .accepted s') :
    slt c s.data ∧ sle s'.data c ∧ slt s'.data s.data ∧ tbKey s'.err = tbKey s.err ∧
    s'.err = (checkOnce p (.buf c) TS.fresh).err ∧ s'.data = (checkOnce p (.buf c) TS.fresh).kept :=
  accept_accepted h

/-- the result of the shrinker: not larger than the start, same site, from an executed run -/
theorem shrink_result (p : Prog) (cands : List (List UInt64)) (s : Shr) (h : FromRun p s) :
    sle (shrinkWith p s cands).1 s.data ∧ tbKey (shrinkWith p s cands).2 = tbKey s.err ∧
    FromRun p ⟨(shrinkWith p s cands).1, (shrinkWith p s cands).2⟩ :=
  shrinkWith_spec p cands s h

/-- every accepted state is strictly smaller than all earlier ones -/
theorem accepted_strictly_decreasing (p : Prog) (cands : List (List UInt64)) (s : Shr) :
    List.Pairwise (fun a b => slt b.data a.data) (s :: acceptedStates p s cands) :=
  acceptedStates_decreasing p cands s

/-- …and `<ₛₗ` (length, then lexicographic — `compareData`) is well-founded: there is no infinite
    sequence of accepted steps, with or without a time limit -/
theorem shortlex_well_founded : WellFounded slt := slt_wf

/-- the pruned recording of any run on a buffer is `≤ₛₗ` the buffer (`accept`'s assertion) -/
theorem recording_not_larger (p : Prog) (ws : List UInt64) (ts : TS) : sle (checkOnce p (.buf ws) ts).kept ws :=
  checkOnce_kept_sle p ws ts

example : slt [1, 2] [1, 3] ∧ slt [9] [0, 0] ∧ ¬ slt [1, 2] [1, 2] := by simp [slt, compareData, cmpLex]


/-! ### the concrete shrinker: `removeGroups`, `minimizeBlocks` (+ `minimize`), `lowerFloatHack`,
    `removeGroupsAndLower`, `sortGroups`, `removeGroupSpans` and the round loop -/

/-- no index or slice expression evaluated by any pass is out of range — for every recording
    whose groups lie inside its data, every sequence of accept/reject answers, every fuel.
    (Fails for the code before the fix of D9: `buf[i]` in `minimizeBlocks` and
    `s.rec.groups[j]` in `sortGroups` used positions of a recording that an accepted
    candidate had just replaced by a shorter one.) -/
theorem passes_never_index_out_of_range (F : Nat) : SafeAll (shrinkScript F) := safe_shrinkScript F

/-- the passes, run against any property: no crash, and the run is the abstract shrinker on the
    candidates the passes tried — so everything proved for every candidate sequence holds for
    the shrinker as implemented, wherever its deadline cuts it -/
theorem passes_refine_shrinkWith (p : Prog) (hP : PruneOK p) (F : Nat) (s : SS) (hr : RecWF s.rc) :
    ∃ s' cands, (shrinkScript F).run p s = .ok ((), s') ∧
      shrinkWith p s.shr cands = (s'.rc.data, s'.err) ∧ s'.log = cands.reverse ++ s.log ∧ RecWF s'.rc :=
  shrinkScript_run p hP F s hr

/-- result of the concrete shrinker: not larger than the start, same failure site, pruned
    recording of an executed failing run -/
theorem concrete_shrinker_result (p : Prog) (hP : PruneOK p) (F : Nat) (s : SS) (hr : RecWF s.rc)
    (h : FromRun p s.shr) :
    ∃ s', (shrinkScript F).run p s = .ok ((), s') ∧ sle s'.rc.data s.rc.data ∧ tbKey s'.err = tbKey s.err ∧
      FromRun p ⟨s'.rc.data, s'.err⟩ := by
  obtain ⟨s', cands, h1, h2, _, _⟩ := shrinkScript_run p hP F s hr
  have := shrinkWith_spec p cands s.shr h
  rw [h2] at this
  exact ⟨s', h1, this.1, this.2.1, this.2.2⟩

/-- for every property function built from Custom-free generators and the `*T` API the
    assertion of `prune()` never fires (`PruneOK`), so the statement about the concrete shrinker
    needs no hypothesis about recordings at all -/
theorem shrinker_result_for_generator_properties (e : Env) (hrt : RTPos e) (p : Prog) (hp : PropProg e p)
    (F : Nat) (s : SS) (hr : RecWF s.rc) (h : FromRun p s.shr) :
    ∃ s', (shrinkScript F).run p s = .ok ((), s') ∧ sle s'.rc.data s.rc.data ∧ tbKey s'.err = tbKey s.err ∧
      FromRun p ⟨s'.rc.data, s'.err⟩ :=
  concrete_shrinker_result p (pruneOK_of_propProg e hrt hp) F s hr h

/-- the same for property functions over generators with quiet `Custom` functions nested to any
    depth (`PropProgC`, RapidProofs/PruneCustom.lean) -/
theorem shrinker_result_for_custom_generator_properties (e : Env) (hrt : RTPos e) (d : Nat) (p : Prog)
    (hp : PropProgC e d p) (F : Nat) (s : SS) (hr : RecWF s.rc) (h : FromRun p s.shr) :
    ∃ s', (shrinkScript F).run p s = .ok ((), s') ∧ sle s'.rc.data s.rc.data ∧ tbKey s'.err = tbKey s.err ∧
      FromRun p ⟨s'.rc.data, s'.err⟩ :=
  concrete_shrinker_result p (pruneOK_of_propProgC e hrt hp) F s hr h

/-- `prune()` of the recording of ANY run of ANY program keeps exactly the words the model calls
    `kept` (everything except finished discarded groups) … -/
theorem prune_data_is_kept (p : Prog) (src : Src) (ts : TS) :
    (prunedOfToks (checkOnce p src ts).toks).data = (checkOnce p src ts).kept :=
  checkOnce_pruned_data p src ts

/-- … and leaves every finished group inside the data: the recordings the shrinker holds are
    always well-formed (the premise of `passes_never_index_out_of_range`) -/
theorem pruned_recording_well_formed (toks : List Tok) : RecWF (prunedOfToks toks) := prunedOfToks_wf toks

/-- the premises are satisfiable: the empty recording is well-formed -/
example : RecWF Rec.empty := by intro g hg; cases hg


/-! ### source facts, re-read from /repo on every run: every loop and branch condition of the
    passes is the one the model (`RapidModel.Passes`, `RapidModel.Rec`) was written from -/

open Rapid.Generated in
theorem pass_conditions_source :
    conds_removeGroups = ["for i < len(s.rec.groups) && time.Now().Before(deadline)", "if !g.standalone || g.end < 0",
      "if s.accept(without(s.rec.data, g), …)"] ∧
    conds_minimizeBlocks = ["for i < len(s.rec.data) && time.Now().Before(deadline)", "if i >= len(s.rec.data)"] ∧
    conds_lowerFloatHack = ["for i < len(s.rec.groups) && time.Now().Before(deadline)",
      "if !g.standalone || g.end != g.begin + 7", "if !s.accept(buf, …)", "if !s.accept(buf, …)"] ∧
    conds_removeGroupsAndLower = ["for i < len(s.rec.data) && time.Now().Before(deadline)", "if s.rec.data[i] == 0",
      "for j < len(s.rec.groups)", "if !g.standalone || g.end < 0 || (i >= g.begin && i < g.end)",
      "if s.accept(without(buf, g), …)"] ∧
    conds_sortGroups = ["for i < len(s.rec.groups) && time.Now().Before(deadline)", "for j > 0 && j < len(s.rec.groups)",
      "if !g.standalone || g.end < 0", "for j >= 0",
      "if !h.standalone || h.end < 0 || h.end > g.begin || h.label != g.label", "if s.accept(buf, …)"] ∧
    conds_removeGroupSpans = ["for i < len(s.rec.groups) && time.Now().Before(deadline)", "if !g.standalone || g.end < 0",
      "for j < len(s.rec.groups)", "if !h.standalone || h.end < 0 || h.begin < groups[len(groups) - 1].end",
      "if s.accept(buf, …)"] ∧
    conds_shrink = ["if r != nil", "for s.shrinks > shrinks && time.Now().Before(deadline)", "if s.shrinks == shrinks"] := by
  decide

open Rapid.Generated in
theorem accept_and_minimize_conditions_source :
    conds_accept = ["if compareData(buf, s.rec.data) >= 0", "if ok", "if traceback(err1) != traceback(s.err)",
      "if flags.debugvis", "if !sameError(err1, err2)"] ∧
    conds_minimize = ["if u == 0", "for i < u && i < small", "if cond(i, labelMinBlockTrySmall)", "if u <= small"] ∧
    conds_minimizer_accept = ["if u >= m.best || u < small || !m.cond(u, label)"] ∧
    conds_removeGroup = ["for j < len(rec.groups) && rec.groups[j].end <= g.end", "if rec.groups[j].begin >= g.end",
      "if rec.groups[j].end >= g.end"] ∧
    conds_prune = ["for i < len(rec.groups)", "if rec.groups[i].discard"] := by
  decide

/-! ### the order and the cutting of shrink.go, translated on every run -/

/-- **`compareData` of /repo is the model's `compareData`** — the order in which the shrinker's `accept` demands every
    accepted candidate to be strictly smaller (length first, then lexicographic) -/
theorem source_compareData (a b : List UInt64) (fuel : Nat) (ha : a.length < 2 ^ 62) (hb : b.length < 2 ^ 62) (hf : a.length < fuel) :
    Translated.compareData a b fuel = .ok (Int64.ofInt (compareData a b)) :=
  tr_compareData a b fuel ha hb hf

/-- **`without(data, groups...)` of /repo is the model's `without?`** for groups with usable bounds: the groups are cut
    out last first; a bound outside the data is a runtime panic in the source and `none` in the model -/
theorem source_without (data : List UInt64) (groups : List Translated.groupInfo) (fuel : Nat) (hok : ∀ g ∈ groups, GOK g)
    (hl : groups.length < 2 ^ 62) (hf : groups.length < fuel) :
    Translated.without data groups fuel =
      match without? data (groups.map giOf) with
      | some d => .ok d
      | none => .error .runtime :=
  tr_without data groups fuel hok hl hf

/-- **`recordedBits.removeGroup(i)` of /repo is the model's `Rec.removeGroup`**: same data, same group list (the group and
    what directly follows it and ends inside it dropped, everything behind shifted), for every recording with sizes
    below 2^61 on which the model's function does not stop at a panic -/
theorem source_removeGroup (r r' : Rec) (hs : r.Small) (i fuel : Nat) (hf : r.groups.length + 2 ≤ fuel)
    (h : r.removeGroup i = some r') :
    Translated.recordedBits_removeGroup r.data (r.groups.map goOf) (Int64.ofNat i) fuel = .ok (r'.data, r'.groups.map goOf) :=
  tr_removeGroup r r' hs i fuel hf h

/-- **`recordedBits.prune()` of /repo is the model's `Rec.prune`** — the loop over the groups, each `removeGroup`, and
    the closing assertions that no group is left empty -/
theorem source_prune (r r' : Rec) (hs : r.Small) (fuel : Nat) (hf : 2 * r.groups.length + 4 ≤ fuel) (h : r.prune = some r') :
    Translated.recordedBits_prune r.data (r.groups.map goOf) true fuel = .ok (r'.data, r'.groups.map goOf, true) :=
  tr_prune r r' hs fuel hf h

/-- **the literal `prune()` and the pruned recording of the theorems agree, for every program and every bit source**:
    `Rec.prune` (the loop over `removeGroup`, proved equal to the source's by `source_prune`) applied to the recording of
    a run succeeds whenever the pruned recording has no empty group, and leaves the data and the finished groups of
    `prunedOfToks` — the recording `prune_data_is_kept`, `pruned_recording_well_formed` and the refinement of the passes
    are about.  (Unfinished entries that directly follow a removed group in the list are dropped by `removeGroup` and
    kept by `prunedOfToks`; no pass looks at them.) -/
theorem literal_prune_of_run (p : Prog) (src : Src) (ts : TS)
    (hne : (prunedOfToks (p.run src ts).toks).noEmptyGroup = true) :
    ∃ r', (recOfToks (p.run src ts).toks).prune = some r' ∧ r'.finished = (prunedOfToks (p.run src ts).toks).finished :=
  Rapid.literal_prune_of_run p src ts hne

/-- … and so does the source: `recordedBits.prune()` of /repo, run on the recording of any run of any program (sizes
    below 2^61), returns a recording with the data and the finished groups of `prunedOfToks` -/
theorem source_prune_of_run (p : Prog) (src : Src) (ts : TS) (fuel : Nat)
    (hs : (recOfToks (p.run src ts).toks).Small) (hf : 2 * (recOfToks (p.run src ts).toks).groups.length + 4 ≤ fuel)
    (hne : (prunedOfToks (p.run src ts).toks).noEmptyGroup = true) :
    ∃ r' : Rec, Translated.recordedBits_prune (recOfToks (p.run src ts).toks).data ((recOfToks (p.run src ts).toks).groups.map goOf) true fuel =
        .ok (r'.data, r'.groups.map goOf, true) ∧
      r'.finished = (prunedOfToks (p.run src ts).toks).finished := by
  obtain ⟨r', h1, h2⟩ := Rapid.literal_prune_of_run p src ts hne
  exact ⟨r', tr_prune _ r' hs fuel hf h1, h2⟩

/-- **from the calls to the pruned recording, all in the source's functions**: replaying the recording calls of any run
    through the translated `record`/`beginGroup`/`endGroup` gives a recording (no assertion of `endGroup` fires) which
    the translated `prune()` turns into one with the data and the finished groups of `prunedOfToks`; the only
    premises are the two lengths (below 2^62 words, 2^61 groups) and the closing assertion of `prune()` -/
theorem source_record_and_prune_of_run (p : Prog) (src : Src) (ts : TS) (fuel : Nat)
    (hd : (recOfToks (p.run src ts).toks).data.length < 2 ^ 62) (hg : (recOfToks (p.run src ts).toks).groups.length < 2 ^ 61)
    (hf : 2 * (recOfToks (p.run src ts).toks).groups.length + 4 ≤ fuel)
    (hne : (prunedOfToks (p.run src ts).toks).noEmptyGroup = true) :
    ∃ (d : List UInt64) (g : List Translated.groupInfo) (r' : Rec),
      srcRecGo (p.run src ts).toks [] [] [] = some (d, g) ∧
      Translated.recordedBits_prune d g true fuel = .ok (r'.data, r'.groups.map goOf, true) ∧
      r'.finished = (prunedOfToks (p.run src ts).toks).finished := by
  obtain ⟨r', h1, h2⟩ := source_prune_of_run p src ts fuel (small_of_run p src ts hd hg) hf hne
  exact ⟨_, _, r', srcRecGo_of_run p src ts hd hg, h1, h2⟩

/-- for properties built from the generators and the `*T` API the assertion premise holds by itself -/
theorem source_prune_of_generator_property (e : Env) (hrt : RTPos e) (p : Prog) (hp : PropProg e p) (src : Src) (ts : TS) (fuel : Nat)
    (hs : (recOfToks (p.run src ts).toks).Small) (hf : 2 * (recOfToks (p.run src ts).toks).groups.length + 4 ≤ fuel) :
    ∃ r' : Rec, Translated.recordedBits_prune (recOfToks (p.run src ts).toks).data ((recOfToks (p.run src ts).toks).groups.map goOf) true fuel =
        .ok (r'.data, r'.groups.map goOf, true) ∧
      r'.finished = (prunedOfToks (p.run src ts).toks).finished :=
  source_prune_of_run p src ts fuel hs hf (pruned_noEmpty (propProg_gk e hrt hp) src ts)

def exProg : Prog := .group "try" true (.draw 8 fun _ => .ret .nil) (fun _ => true) fun _ =>
  .group "elem" true (.draw 8 fun _ => .ret .nil) (fun _ => false) fun _ => .ret .nil

/-- the recording of a run with a rejected attempt followed by a kept element -/
theorem exToks : (exProg.run (.buf [5, 7]) TS.fresh).toks =
    [.opn "try" true, .w 5, .cls true, .opn "elem" true, .w 7, .cls false] := by
  decide +kernel

/-- the premises of `source_prune_of_run` are satisfiable -/
example : (recOfToks (exProg.run (.buf [5, 7]) TS.fresh).toks).Small ∧
    (prunedOfToks (exProg.run (.buf [5, 7]) TS.fresh).toks).noEmptyGroup = true ∧
    (prunedOfToks (exProg.run (.buf [5, 7]) TS.fresh).toks).data = [7] := by
  rw [exToks]
  refine ⟨⟨by decide, by decide, ?_⟩, by decide, by decide⟩
  intro g hg
  have : (recOfToks [.opn "try" true, .w 5, .cls true, .opn "elem" true, .w 7, .cls false]).groups =
      [⟨"try", true, 0, 1, true⟩, ⟨"elem", true, 1, 2, false⟩] := by decide
  rw [this] at hg
  simp only [List.mem_cons, List.not_mem_nil, or_false] at hg
  rcases hg with rfl | rfl <;> exact ⟨by decide, by decide, by decide⟩

/-- the premises are satisfiable: a recording with a discarded group between two kept ones -/
example : (⟨[1, 2, 3], [⟨"a", true, 0, 1, false⟩, ⟨"b", true, 1, 2, true⟩, ⟨"c", true, 2, 3, false⟩]⟩ : Rec).Small ∧
    (⟨[1, 2, 3], [⟨"a", true, 0, 1, false⟩, ⟨"b", true, 1, 2, true⟩, ⟨"c", true, 2, 3, false⟩]⟩ : Rec).prune =
      some ⟨[1, 3], [⟨"a", true, 0, 1, false⟩, ⟨"c", true, 1, 2, false⟩]⟩ := by
  refine ⟨⟨by decide, by decide, ?_⟩, by rfl⟩
  intro g hg
  simp only [List.mem_cons, List.not_mem_nil, or_false] at hg
  rcases hg with rfl | rfl | rfl <;> exact ⟨by decide, by decide, by decide⟩

/-! ### the passes of the shrinker, as translated from /repo's shrink.go on every run -/

/-- **every pass of the shrinker and the round loop of `shrinker.shrink`, as translated from the source, agree with the model's
    `shrinkScript`** against *every* shrinker `o` (any state space, any behaviour of `accept`) whose states are well-formed
    (recordings of fewer than 2^61 entries, finished groups that do not end before they begin, a rejected candidate leaves the
    recording alone, fewer than 2^62 accepted candidates): with `fuel ≤ F` the source proposes the same candidates in the same
    order from the same states and ends in the same state as the model, hits an out-of-range index exactly where the model does,
    or runs out of fuel (a deadline cut, which may happen anywhere).  `removeGroups`, `minimizeBlocks` with `minimize` and the
    `minimizer` calling back into `accept`, `lowerFloatHack`, `removeGroupsAndLower`, `sortGroups`, `removeGroupSpans`. -/
theorem source_shrinker_passes {σ : Type} (o : Oracle σ) (wf : o.WF) (hsh : ∀ s, (o.view s).shrinks < 2 ^ 62) (F fuel : Nat)
    (h : fuel ≤ F) (s : σ) :
    Agree (fun _ _ => True) (Rapid.SM.exec o (Rapid.Translated.shrinker_shrink fuel) s) ((shrinkScript F).exec o s) :=
  tr_shrink o wf hsh F fuel h s

/-- each pass on its own -/
theorem source_passes_one_by_one {σ : Type} (o : Oracle σ) (wf : o.WF) (fuel fm : Nat) (h : fuel ≤ fm) (s : σ) :
    Agree (fun _ _ => True) (Rapid.SM.exec o (Rapid.Translated.shrinker_removeGroups fuel) s) ((removeGroups fm 0).exec o s) ∧
    Agree (fun _ _ => True) (Rapid.SM.exec o (Rapid.Translated.shrinker_minimizeBlocks fuel) s) ((minimizeBlocks fm 0).exec o s) ∧
    Agree (fun _ _ => True) (Rapid.SM.exec o (Rapid.Translated.shrinker_lowerFloatHack fuel) s) ((lowerFloatHack fm 0).exec o s) ∧
    Agree (fun _ _ => True) (Rapid.SM.exec o (Rapid.Translated.shrinker_removeGroupsAndLower fuel) s) ((removeGroupsAndLower fm 0).exec o s) ∧
    Agree (fun _ _ => True) (Rapid.SM.exec o (Rapid.Translated.shrinker_sortGroups fuel) s) ((sortGroups fm 1).exec o s) ∧
    Agree (fun _ _ => True) (Rapid.SM.exec o (Rapid.Translated.shrinker_removeGroupSpans fuel) s) ((removeGroupSpans fm 0).exec o s) :=
  ⟨tr_removeGroups o wf fuel fm h s, tr_minimizeBlocks o wf fuel fm s h, tr_lowerFloatHack o wf fuel fm h s,
   tr_removeGroupsAndLower o wf fuel fm h s, tr_sortGroups o wf fuel fm h s, tr_removeGroupSpans o wf fuel fm h s⟩

/-- … and against rapid's own `accept`: from a state of an invariant that `accept` keeps, the translated `shrinker.shrink`
    ends where `Script.run p (shrinkScript F)` ends — the run `passes_refine_shrinkWith` and `concrete_shrinker_result` are
    about — or runs out of fuel -/
theorem source_shrinker_run (p : Prog) (Inv : SS → Prop) (h : RunInv p Inv) (s0 : SS) (hs0 : Inv s0) (F fuel : Nat) (hf : fuel ≤ F) :
    RunAgrees p s0 (shrinkScript F) (Rapid.SM.exec (runOracle p) (Rapid.Translated.shrinker_shrink fuel) s0) :=
  tr_shrink_run p Inv h s0 hs0 F fuel hf

/-- a shrinker whose recording is a float group followed by a word and that rejects everything -/
def exOracle : Oracle Unit :=
  ⟨fun _ => ⟨⟨[1, 2, 3, 4, 5, 6, 7, 8], [⟨"f", true, 0, 7, false⟩, ⟨"w", true, 7, 8, false⟩]⟩, 0⟩, fun _ _ => some (false, ())⟩

/-- the hypotheses of `source_shrinker_passes` are satisfiable -/
example : exOracle.WF ∧ (∀ s, (exOracle.view s).shrinks < 2 ^ 62) := by
  have hsmall : ∀ g ∈ [(⟨"f", true, 0, 7, false⟩ : GI), ⟨"w", true, 7, 8, false⟩], g.Small := by
    intro g hg
    simp only [List.mem_cons, List.not_mem_nil, or_false] at hg
    rcases hg with rfl | rfl <;> exact ⟨by decide, by decide, by decide⟩
  refine ⟨⟨?_, ?_, ?_⟩, ?_⟩
  · intro s; cases s; exact ⟨by decide, by decide, hsmall⟩
  · intro _ g hg _
    have hg' : g ∈ [(⟨"f", true, 0, 7, false⟩ : GI), ⟨"w", true, 7, 8, false⟩] := hg
    simp only [List.mem_cons, List.not_mem_nil, or_false] at hg'
    rcases hg' with rfl | rfl <;> decide
  · intro _ _ _ _; rfl
  · intro s; cases s; decide

/-- **`shrinker.accept` of the source, translated on every run, is the model's `SS.accept`** — the oracle the translated passes are
    run against in `source_shrinker_run` —: for every state of the shrinker, candidate and property the same answer and the same
    new state (test case, error, cache, number of accepted steps).  In particular a candidate that is not *strictly smaller*
    than the current test case (`compareData ≥ 0`) is refused before anything runs, whoever proposes it (S160 skipped that
    comparison for `minimizeBlocks`); a candidate is accepted only if its first run fails with the same traceback, and the
    second run — the one that is recorded and pruned — gives the same error (else `panic(err2)`).  Size conditions: fewer than
    2^62 words in the candidate, the current and the new test case. -/
theorem source_accept (E : Go.CEnv) (s : SS) (buf : List UInt64) (hits : Int64) (fuel : Nat) (o : Option Once)
    (hb : buf.length < 2 ^ 62) (hd : s.rc.data.length < 2 ^ 62) (hf : buf.length < fuel)
    (hk1 : (prunedOfToks (checkOnce E.p (.buf buf) TS.fresh).toks).data.length < 2 ^ 62)
    (hk2 : (prunedOfToks (checkOnce E.p (.buf buf) TS.fresh).toks).data.length < fuel) :
    (Go.CM.run E (Translated.shrinker_acceptC s.rc.data s.err s.cache hits (Int64.ofNat s.shrinks) buf fuel) o).1 =
      match s.accept E.p buf with
      | .ok r => .ok (Go.acceptOut (if compareData buf s.rc.data < 0 ∧ s.cache.contains buf then hits + 1 else hits) r)
      | .error (.mismatch _ _ _) => .error .mismatch
      | .error _ => .error .assertion :=
  Go.tr_accept E s buf hits fuel o hb hd hf hk1 hk2

/-- so an accepted candidate is strictly smaller than the test case before it, for the *source's* `accept` -/
theorem source_accept_smaller (E : Go.CEnv) (s : SS) (buf : List UInt64) (hits : Int64) (fuel : Nat) (o : Option Once)
    (hb : buf.length < 2 ^ 62) (hd : s.rc.data.length < 2 ^ 62) (hf : buf.length < fuel)
    (hk1 : (prunedOfToks (checkOnce E.p (.buf buf) TS.fresh).toks).data.length < 2 ^ 62)
    (hk2 : (prunedOfToks (checkOnce E.p (.buf buf) TS.fresh).toks).data.length < fuel)
    (d : List UInt64) (e : Option Err) (c : List (List UInt64)) (h n : Int64)
    (hrun : (Go.CM.run E (Translated.shrinker_acceptC s.rc.data s.err s.cache hits (Int64.ofNat s.shrinks) buf fuel) o).1 =
      .ok (true, d, e, c, h, n)) :
    compareData buf s.rc.data < 0 := by
  rw [source_accept E s buf hits fuel o hb hd hf hk1 hk2] at hrun
  by_cases hc : compareData buf s.rc.data ≥ 0
  · simp [SS.accept, hc, Go.acceptOut] at hrun
  · omega

/-- `shrinker.accept` re-read from /repo statement by statement: the model's `accept` (`SS.accept`) was written against exactly this text — a candidate that is not strictly smaller than the current test case is refused before anything runs; the cache only remembers candidates whose first run had another traceback; the first run decides (traceback), the second run records, is pruned, must not be larger than the candidate, and must give the same error (else `panic(err2)`); only then `shrinks++` -/
theorem accept_body_source : Rapid.Generated.body_shrinker_accept =
    ["{", "if compareData(buf, s.rec.data) >= 0 {", "return false", "}", "bufStr := dataStr(buf)",
     "if _, ok := s.cache[bufStr]; ok {", "s.hits++", "return false", "}",
     "s.debugf(true, label+\": trying to reproduce the failure with a smaller test case: \"+format, args...)",
     "s.tries[label]++", "s1 := newBufBitStream(buf, false)",
     "err1 := checkOnce(newT(s.tb, s1, flags.debug && flags.verbose, nil), s.prop)",
     "if traceback(err1) != traceback(s.err) {", "s.cache[bufStr] = struct{}{}", "return false", "}",
     "s.debugf(true, label+\": trying to reproduce the failure\")", "s.tries[label]++", "s.err = err1",
     "s2 := newBufBitStream(buf, true)",
     "err2 := checkOnce(newT(s.tb, s2, flags.debug && flags.verbose, nil), s.prop)", "s.rec = s2.recordedBits",
     "s.rec.prune()", "assert(compareData(s.rec.data, buf) <= 0)", "if flags.debugvis {",
     "s.visBits = append(s.visBits, s.rec)", "}", "if !sameError(err1, err2) {", "panic(err2)", "}",
     "s.debugf(false, label+\" success: \"+format, args...)", "s.shrinks++", "return true", "}"] := by rfl

/-- `shrink` re-read from /repo statement by statement: the recording is pruned first, the shrinker starts from it and from the error of the reproduce run (`doCheck` hands both over: `source_doCheck`) -/
theorem shrink_entry_source : Rapid.Generated.body_shrink =
    ["{", "rec.prune()", "s := &shrinker{", "tb:\t\ttb,", "rec:\t\trec,", "err:\t\terr,", "prop:\t\tprop,",
     "visBits:\t[]recordedBits{rec},", "tries:\t\tmap[string]int{},", "cache:\t\tmap[string]struct{}{},", "}",
     "buf, err := s.shrink(deadline)", "if flags.debugvis {",
     "name := fmt.Sprintf(\"vis-%v.html\", strings.Replace(tb.Name(), \"/\", \"_\", -1))",
     "f, err := os.Create(name)", "if err != nil {", "tb.Logf(\"failed to create debugvis file %v: %v\", name, err)",
     "} else {", "defer func() { _ = f.Close() }()", "if err = visWriteHTML(f, tb.Name(), s.visBits); err != nil {",
     "tb.Logf(\"failed to write debugvis file %v: %v\", name, err)", "}", "}", "}", "return buf, err", "}"] := by rfl

/-- `panicToError` re-read from /repo statement by statement: the traceback of a failure is made of *every* frame between the panic and `checkOnce` — function and line, inlined functions included (S184 dropped the frames without a `Func`) —: it is what `accept` and `checkTB` compare as "the same failure site" (the model's `site`) -/
theorem panicToError_body_source : Rapid.Generated.body_panicToError =
    ["{", "if p == nil {", "return nil", "}", "callers := make([]uintptr, tracebackLen)",
     "callers = callers[:runtime.Callers(skip, callers)]", "frames := runtime.CallersFrames(callers)",
     "b := &strings.Builder{}", "f, more, skipSpecial := runtime.Frame{}, true, true",
     "for more && !strings.HasSuffix(f.Function, tracebackStop) {", "f, more = frames.Next()",
     "if skipSpecial && (tracebackBlacklist[f.Function] || strings.HasPrefix(f.Function, runtimePrefix)) {",
     "continue", "}", "skipSpecial = false",
     "_, err := fmt.Fprintf(b, \"    %s:%d in %s\\n\", f.File, f.Line, f.Function)", "assert(err == nil)", "}",
     "return &testError{", "data:\t\tp,", "traceback:\tb.String(),", "}", "}"] := by rfl

/-- `traceback` re-read from /repo statement by statement -/
theorem traceback_body_source : Rapid.Generated.body_traceback =
    ["{", "if err == nil {", "return \"    <no error>\\n\"", "}", "return err.traceback", "}"] := by rfl

/-- `sameError` re-read from /repo statement by statement: same message and same traceback -/
theorem sameError_body_source : Rapid.Generated.body_sameError =
    ["{", "return errorString(err1) == errorString(err2) && traceback(err1) == traceback(err2)", "}"] := by rfl

/-- the number of frames `panicToError` looks at (`tracebackLen`, re-read from /repo): a failure site is the innermost 32 frames —
    two call sites of the property that reach the same statement through fewer frames than that are different sites (S202 halved it) -/
theorem traceback_len_source : Rapid.Generated.c_tracebackLen = 32 := by decide

end Rapid.C05
