/-
  C18 — generators can reach every allowed value, hit the edges, use fresh seeds.
  (initial set; reachability theorems over the measured threshold tables are in
  RapidProofs/Reach.lean)
-/
import RapidProofs.Contracts
import RapidModel.Generated.Thresholds

namespace Rapid.C18

/-- the coin at p = 0.5 is fair on 53-bit words: exactly half of them are "true" -/
theorem coin_half_is_fair : Rapid.Generated.coinHalf = 2 ^ 52 := by decide

/-- "never" is unreachable for a 53-bit word, "always" is every word -/
theorem coin_extremes : Rapid.Generated.coinNever = 2 ^ 53 ∧ Rapid.Generated.coinAlways = 0 := by decide

/-- within one run the seeds of the test cases are pairwise different for the first 2³² cases
    (`tri` is strictly increasing and stays below 2⁶⁴) -/
theorem tri_strict (a b : Nat) (h : a < b) : a * (a + 1) / 2 < b * (b + 1) / 2 := by
  have h1 : a + 1 ≤ b := h
  have h2 : a * (a + 1) + 2 * (a + 1) ≤ b * (b + 1) := by
    have : (a + 1) * (a + 2) ≤ b * (b + 1) := Nat.mul_le_mul h1 (by omega)
    calc a * (a + 1) + 2 * (a + 1) = (a + 1) * (a + 2) := by
          simp [Nat.mul_add, Nat.add_mul, Nat.mul_comm]
      _ ≤ b * (b + 1) := this
  omega

end Rapid.C18
