/-
  C18 — generators can reach every allowed value, hit the edges, use fresh seeds.
  Reachability: the measured geometric tables (regenerated from the real `genGeom` on every run)
  have distinct break points — checked by kernel evaluation over all 65 tables — and therefore
  every value of every unsigned range is produced by some two-word bit stream.
-/
import RapidProofs.Contracts
import RapidModel.Generated.Thresholds
import RapidProofs.Reach
import RapidProofs.ReachFloat
import RapidProofs.TranslatedProgEq
import RapidProofs.TranslatedFloatEq

namespace Rapid.C18

/-- the coin at p = 0.5 is fair on 53-bit words: exactly half of them are "true" -/
theorem coin_half_is_fair : Rapid.Generated.coinHalf = 2 ^ 52 := by decide

/-- "never" is unreachable for a 53-bit word, "always" is every word -/
theorem coin_extremes : Rapid.Generated.coinNever = 2 ^ 53 ∧ Rapid.Generated.coinAlways = 0 := by decide

/-- within one run the seeds of the test cases are pairwise different for the first 2³² cases
    (`tri` is strictly increasing and stays below 2⁶⁴) -/
theorem tri_strict (a b : Nat) (h : a < b) : a * (a + 1) / 2 < b * (b + 1) / 2 := by
  have h1 : a + 1 ≤ b := h
  have h2 : a * (a + 1) + 2 * (a + 1) ≤ b * (b + 1) := by
    have : (a + 1) * (a + 2) ≤ b * (b + 1) := Nat.mul_le_mul h1 (by omega)
    calc a * (a + 1) + 2 * (a + 1) = (a + 1) * (a + 2) := by
          simp [Nat.mul_add, Nat.add_mul, Nat.mul_comm]
      _ ≤ b * (b + 1) := this
  omega


/-- the table condition on the tables measured on the real code: for every bit length `b ≤ 64`
    every geometric draw `1 … b` is hit by some 53-bit bias word (evaluated in the kernel) -/
theorem measured_tables_reach : allReach Rapid.Generated.ft = true := by decide +kernel

/-- **every value of `[0, max]` is reachable** by `genUintNBiased` with the measured tables: no
    unreachable band (the defect D5 of the pinned tree made `[2^63, 2^64-2]` unreachable) -/
theorem every_uint_reachable (max u : UInt64) (hu : u ≤ max) (fuel : Nat) :
    ∃ w : UInt64, ∀ (k : UInt64 → Bool → Bool → Prog) (rest : List UInt64) (ts : TS),
      ∃ l r toks, (uintBiased Rapid.Generated.ft max (fuel + 1) k).run (.buf (w :: u :: rest)) ts =
        ((k u l r).run (.buf rest) ts).after [w, u] [w, u] toks [] false :=
  uintBiased_reaches_all _ measured_tables_reach max u hu fuel

/-- every value of every unsigned range `[min, max]` (Uint*, Byte, *Range, *Min, *Max, lengths,
    indices) is reachable -/
theorem every_range_value_reachable (min max v : UInt64) (h1 : min ≤ v) (h2 : v ≤ max) (fuel : Nat) :
    ∃ w : UInt64, ∀ (k : UInt64 → Bool → Bool → Prog) (rest : List UInt64) (ts : TS),
      ∃ l r toks, (uintRange Rapid.Generated.ft min max true (fuel + 1) k).run (.buf (w :: (v - min) :: rest)) ts =
        ((k v l r).run (.buf rest) ts).after [w, v - min] [w, v - min] toks [] false :=
  uintRange_reaches_all _ measured_tables_reach min max v h1 h2 fuel

/-- in particular the edges: minimum and maximum of any range -/
theorem edges_reachable (min max : UInt64) (h : min ≤ max) (fuel : Nat) :
    (∃ w : UInt64, ∀ k rest ts, ∃ l r toks, (uintRange Rapid.Generated.ft min max true (fuel + 1) k).run (.buf (w :: (min - min) :: rest)) ts =
        ((k min l r).run (.buf rest) ts).after [w, min - min] [w, min - min] toks [] false) ∧
    (∃ w : UInt64, ∀ k rest ts, ∃ l r toks, (uintRange Rapid.Generated.ft min max true (fuel + 1) k).run (.buf (w :: (max - min) :: rest)) ts =
        ((k max l r).run (.buf rest) ts).after [w, max - min] [w, max - min] toks [] false) :=
  ⟨every_range_value_reachable min max min (UInt64.le_refl _) h fuel,
   every_range_value_reachable min max max h (UInt64.le_refl _) fuel⟩

/-! ### floats and small signed ranges -/

/-- the table condition for the exponent draw: for every bit length `b ≤ 12` the geometric draw
    `b + 2` is hit by a 53-bit bias word (evaluated in the kernel on the measured tables) -/
theorem measured_tables_small_reach : smallReach Rapid.Generated.ft = true := by decide +kernel

/-- both outcomes of the fair coin are produced by 53-bit words -/
theorem coin_half_usable : 0 < Rapid.Generated.ft.coinHalf ∧ Rapid.Generated.ft.coinHalf < thrNever := by decide

/-- **every value of a small signed range** `[a, b]` (fewer than 2^12 values, bounds within ±2^40)
    is handed on by `genIntRange`, with neither overflow flag raised -/
theorem every_small_int_reachable (a b c : Int) (hac : a ≤ c) (hcb : c ≤ b) (hsm : -2 ^ 40 ≤ a ∧ b ≤ 2 ^ 40)
    (hw : b - a < 4096) (fuel : Nat) :
    ReachesVal (fun (k : Int64 × Bool × Bool → Prog) =>
      intRange Rapid.Generated.ft (Int64.ofInt a) (Int64.ofInt b) (fuel + 1) (fun i l r => k (i, l, r))) (Int64.ofInt c, false, false) :=
  intRange_small_reaches _ measured_tables_small_reach coin_half_usable a b c hac hcb hsm hw fuel

/-- **every float64 the range allows is produced by some bit stream**: all non-NaN bounds
    `min ≤ max` (±0, subnormals, ±Inf included), every bit pattern `t` in `[min, max]` with the sign
    the range admits -/
theorem every_float64_reachable (min max t : UInt64) (hok : floatRangeOK fmt64 min max = true)
    (ht : FloatTarget fmt64 min max t) (fuel : Nat) :
    ReachesVal (floatValue Rapid.Generated.ft fmt64 min max (fuel + 1)) t :=
  floatValue_reaches _ measured_tables_small_reach coin_half_usable fmt64 wf64 (by decide) min max t hok ht fuel

/-- **every float32 likewise** -/
theorem every_float32_reachable (min max t : UInt64) (hok : floatRangeOK fmt32 min max = true)
    (ht : FloatTarget fmt32 min max t) (fuel : Nat) :
    ReachesVal (floatValue Rapid.Generated.ft fmt32 min max (fuel + 1)) t :=
  floatValue_reaches _ measured_tables_small_reach coin_half_usable fmt32 wf32 (by decide) min max t hok ht fuel

/-- the hypotheses are satisfiable — the edges and zero of `[-1.5, 2.5]`, the bounds of
    `[MaxFloat64, +Inf]`, a subnormal of `[0, 1]` (float32): all are targets -/
example :
    FloatTarget fmt64 0xBFF8000000000000 0x4004000000000000 0xBFF8000000000000 ∧
    FloatTarget fmt64 0xBFF8000000000000 0x4004000000000000 0x4004000000000000 ∧
    FloatTarget fmt64 0xBFF8000000000000 0x4004000000000000 0 ∧
    FloatTarget fmt64 0xBFF8000000000000 0x4004000000000000 0x8000000000000000 ∧
    FloatTarget fmt64 0x7FEFFFFFFFFFFFFF 0x7FF0000000000000 0x7FF0000000000000 ∧
    FloatTarget fmt32 0 0x3F800000 1 := by
  refine ⟨?_, ?_, ?_, ?_, ?_, ?_⟩ <;> (refine ⟨⟨by decide, by decide, by decide⟩, by decide, by decide, by decide⟩)

/-! ### the same, for the source

  `genIntRange` and `genUintRange` as translated from /repo on every run (RapidModel/Generated/Translated.lean)
  have the runs of the model (RapidProofs/TranslatedProgEq.lean), for every float evaluator that agrees
  with the measured thresholds: reachability is a statement about the source. -/

theorem source_every_small_int_reachable (fe : Go.FEval) (H : FloatFacts fe Rapid.Generated.ft)
    (a b c : Int) (hac : a ≤ c) (hcb : c ≤ b) (hsm : -2 ^ 40 ≤ a ∧ b ≤ 2 ^ 40) (hw : b - a < 4096) (fuel : Nat) :
    ReachesVal (fun (k : Int64 × Bool × Bool → Prog) =>
      Translated.genIntRange fe (Int64.ofInt a) (Int64.ofInt b) true (fuel + 1) (fun i l r => k (i, l, r))) (Int64.ofInt c, false, false) :=
  ReachesVal.of_runEq (fun k => tr_genIntRange fe _ H _ _ _ _ _ (fun _ _ _ => RunEq.refl _))
    (every_small_int_reachable a b c hac hcb hsm hw fuel)

/-- every value of an unsigned range is handed on by the unbiased `genUintRange` of the source -/
theorem source_every_uint_reachable_unbiased (fe : Go.FEval) (H : FloatFacts fe Rapid.Generated.ft)
    (min max v : UInt64) (h1 : min ≤ v) (h2 : v ≤ max) (fuel : Nat) :
    ReachesVal (fun (k : UInt64 × Bool × Bool → Prog) =>
      Translated.genUintRange fe min max false (fuel + 1) (fun u l r => k (u, l, r))) (v, false, false) :=
  ReachesVal.of_runEq (fun k => tr_genUintRange fe _ H _ _ _ _ _ _ (fun _ _ _ => RunEq.refl _))
    (uintRangeUnbiased_reaches Rapid.Generated.ft min max v h1 h2 fuel)

/-- every float64 the range allows is produced by the source's `float64FromParts(genFloatRange(…))` -/
theorem source_every_float64_reachable (fe : Go.FEval) (H : FloatFacts fe Rapid.Generated.ft) (HB : FloatFactsBits fe Rapid.Generated.ft)
    (min max t : UInt64) (hok : floatRangeOK fmt64 min max = true) (ht : FloatTarget fmt64 min max t) (fuel : Nat) :
    ReachesVal (fun (k : UInt64 → Prog) =>
      Translated.genFloatRange fe min max 52 (fuel + 1) (fun s e si sf => k (Translated.float64FromParts s e si sf))) t :=
  ReachesVal.of_runEq
    (fun k => (sim_float64Value fe _ H HB min max (fuel + 1) hok).runEq k k (fun _ _ h => by subst h; exact fun _ _ => rfl))
    (every_float64_reachable min max t hok ht fuel)

/-- the hypothesis on the evaluator can be met -/
example : ∃ fe, FloatFacts fe Rapid.Generated.ft ∧ FloatFactsBits fe Rapid.Generated.ft :=
  ⟨_, floatFacts_feOf _ (by decide +kernel), floatFactsBits_feOf _⟩

end Rapid.C18
