/-
  C04 — draws are a pure function of the bitstream.

  * The model is a function: `checkOnce p src ts`, `findBug p checks seed early`, `doCheck …`
    have no hidden state, so "same seed, same run" is definitional in the model; what ties it
    to the code (history independence, no hidden globals) is the correspondence check, which
    runs every engine case on the implementation after unrelated work in the same process.
  * Replay as recorded: proved below for every program and every source (PRNG or buffer).
  * Replay with rejected attempts removed (pruned): `PruneStable`, see RapidProofs/PruneStable.lean.
-/
import RapidProofs.Shrink

namespace Rapid.C04

/-- replaying the recorded words (followed by anything) reproduces the whole test case: error,
    recording, events, state of `*T`; the extra words are left unconsumed -/
theorem replay_as_recorded (p : Prog) (src : Src) (ts : TS) (xs : List UInt64)
    (h : (checkOnce p src ts).overran = false) :
    checkOnce p (.buf ((checkOnce p src ts).used ++ xs)) ts = { checkOnce p src ts with src := .buf xs } :=
  checkOnce_replay p src ts xs h

/-- the same at the level of one generator / sub-program: values included -/
theorem run_replay_as_recorded (p : Prog) (src : Src) (ts : TS) (xs : List UInt64)
    (h : (p.run src ts).overran = false) :
    p.run (.buf ((p.run src ts).used ++ xs)) ts = { p.run src ts with src := .buf xs } :=
  run_replay p src ts xs h

/-- a recording made from the PRNG replays from a buffer (the PRNG never overruns) -/
theorem words_are_masked (s s' : Src) (n : Nat) (u : UInt64) (h : s.next n = some (u, s')) : mask n u = u :=
  next_masked h

/-- the state of a reused `*T` does not influence a test case -/
theorem independent_of_T (p : Prog) (src : Src) (ts : TS) (h : Clean ts) :
    (checkOnce p src ts).err = (checkOnce p src TS.fresh).err ∧
    (checkOnce p src ts).used = (checkOnce p src TS.fresh).used :=
  ⟨(checkOnce_clean p src h).1, (checkOnce_clean p src h).2.1⟩

example : (checkOnce (.draw 3 fun w => if w == 5 then Prog.fatal "five" 1 else .ret .nil) (.buf [13]) TS.fresh).err
    = some (.stop "five" 1) := by decide

end Rapid.C04
