/-
  C04 — draws are a pure function of the bitstream.

  * The model is a function: `checkOnce p src ts`, `findBug p checks seed early`, `doCheck …`
    have no hidden state, so "same seed, same run" is definitional in the model; what ties it
    to the code (history independence, no hidden globals) is the correspondence check, which
    runs every engine case on the implementation after unrelated work in the same process.
  * Replay as recorded: proved below for every program and every source (PRNG or buffer).
  * Replay with rejected attempts removed (pruned): `PruneStable`, see RapidProofs/PruneStable.lean.
-/
import RapidProofs.PruneProp
import RapidModel.Generated.CallOrders
import RapidProofs.PruneCustom
import RapidProofs.TranslatedEq
import RapidProofs.TranslatedDataEq
import RapidProofs.TranslatedRecEq
import RapidProofs.TranslatedFindEq
import RapidProofs.TranslatedRepeatEq

namespace Rapid.C04

/-- replaying the recorded words (followed by anything) reproduces the whole test case: error,
    recording, events, state of `*T`; the extra words are left unconsumed -/
theorem replay_as_recorded (p : Prog) (src : Src) (ts : TS) (xs : List UInt64)
    (h : (checkOnce p src ts).overran = false) :
    checkOnce p (.buf ((checkOnce p src ts).used ++ xs)) ts = { checkOnce p src ts with src := .buf xs } :=
  checkOnce_replay p src ts xs h

/-- the same at the level of one generator / sub-program: values included -/
theorem run_replay_as_recorded (p : Prog) (src : Src) (ts : TS) (xs : List UInt64)
    (h : (p.run src ts).overran = false) :
    p.run (.buf ((p.run src ts).used ++ xs)) ts = { p.run src ts with src := .buf xs } :=
  run_replay p src ts xs h

/-- **replay with the rejected attempts removed** (L-PS): for every generator expression without
    `Custom` — any nesting of integers, booleans, SampledFrom/OneOf, Filter, Map, slices, distinct
    slices, maps, pointers, permutations, Deferred, runes, strings — every source, every
    parameter: a run that ends in a value replays from its PRUNED recording (followed by
    anything) with the same value, the same `*T`, consuming exactly the pruned words -/
theorem generator_replays_pruned (e : Env) (hrt : RTPos e) (g : Gen) (hg : g.NoCustom) : PS (g.value e) :=
  (gen_value_good e hrt g hg).ps

/-- …and so does every property function built from such draws and the `*T` API -/
theorem property_replays_pruned (e : Env) (hrt : RTPos e) (p : Prog) (hp : PropProg e p) : PS p :=
  propProg_ps e hrt hp

/-- **generators with `Custom` functions, nested to any depth `d`**: every Custom function is a
    program over its inner `*T` that draws from generators of the level below (which may again be
    Custom), branches on what it drew, skips, panics, emits, asks for the context, registers quiet
    cleanups — but never calls `T.Error*/Fatal*` (that is the known finding D8) -/
theorem custom_generator_replays_pruned (e : Env) (hrt : RTPos e) (d : Nat) (g : Gen) (hg : GenLvl e d g) :
    PS (g.value e) := (genLvl_value_good e hrt d g hg).ps

/-- a rejected Custom attempt leaves nothing behind on the `*T` of the test case -/
theorem custom_generator_leaves_T_alone (e : Env) (hrt : RTPos e) (d : Nat) (g : Gen) (hg : GenLvl e d g) :
    TsPure (g.value e) := (genLvl_value_good e hrt d g hg).pure

/-- …and property functions over such generators -/
theorem property_with_custom_replays_pruned (e : Env) (hrt : RTPos e) (d : Nat) (p : Prog) (hp : PropProgC e d p) :
    PS p := propProgC_ps e hrt hp

/-- the class is inhabited at level 1: `Custom(func(t){ x := Filter(IntRange(0,3), …).Draw(t); if x == 0 { t.Skip() }; return x })` -/
example (e : Env) : GenLvl e 1 (.custom ((Gen.filter (.int 0 3) (fun v => v != .int 1)).draw e fun v =>
    if v == .int 0 then .throw (.invalid "skip") else .ret v)) := by
  show QuietProgOver e (GenLvl e 0) _
  refine QuietProgOver.draw _ _ (by simp [GenLvl, Gen.NoCustom, Gen.CustomsIn]) (fun v => ?_)
  split
  · exact QuietProgOver.skip _
  · exact QuietProgOver.ret _

/-- the loops behind it: `repeat` with rejections, minCount/maxCount and forced stop -/
theorem repeat_loop_replays_pruned (c : RCfg) (step : Val → Prog) (hthr : 0 < c.thr ∨ NoRej step)
    (hstep : ∀ acc, PS (step acc)) (hpure : ∀ acc, TsPure (step acc)) (hshape : StepShape step)
    (k : Val → Prog) (hk : ∀ acc, PS (k acc)) (fuel : Nat) (acc : Val) :
    PS (repeatLoop c step k fuel {} acc) := by
  intro src ts xs hg ho
  exact ps_repeatLoop c step hthr hstep hpure hshape k hk fuel fuel (Nat.le_refl _) {} {} acc ⟨rfl, rfl⟩
    (fun h => by cases h) (fun _ => rfl) src ts xs hg ho

/-- the PRNG step of /repo (`jsf64ctx.rand`, translated from the source on every run) is the
    model's: value and new state, for every state -/
theorem source_jsf_rand (a b c d : UInt64) :
    Translated.jsfRand a b c d =
      ((Jsf.rand ⟨a, b, c, d⟩).1, ((Jsf.rand ⟨a, b, c, d⟩).2.a, (Jsf.rand ⟨a, b, c, d⟩).2.b, (Jsf.rand ⟨a, b, c, d⟩).2.c, (Jsf.rand ⟨a, b, c, d⟩).2.d)) :=
  tr_jsfRand a b c d

/-- `repeat.reject` of /repo (translated from the source on every run): it panics with "too many
    rejections" exactly when the model's loop raises invalid data, and otherwise leaves the counters
    and the forced-stop flag the model continues with -/
theorem source_repeat_reject (c rj mn : Nat) (f rej : Bool) (hc : c < 2 ^ 60) (hr : rj < 2 ^ 60) (hm : mn < 2 ^ 62)
    (cfg : RCfg) (hcfg : cfg.minC = mn) :
    Translated.repeatReject (Int64.ofNat (c + 1)) f (Int64.ofNat mn) rej (Int64.ofNat rj) =
      if tooManyRejections cfg ⟨c, rj, f⟩ then none
      else some (Int64.ofNat c, (f || decide (rj + 1 > c * 2)), Int64.ofNat mn, true, Int64.ofNat (rj + 1)) :=
  tr_repeatReject c rj mn f rej hc hr hm cfg hcfg

/-- **`bufBitStream.drawBits(n)` of /repo is `Src.next n`** on a buffer: the value (masked head word), the rest of
    the buffer, what is recorded; an empty buffer is `invalid data: overrun` -/
theorem source_bufBitStream_drawBits (buf data : List UInt64) (dl : Int64) (persist : Bool) (n : Nat) (hn : n < 2 ^ 62)
    (hb : buf.length < 2 ^ 62) :
    Translated.bufBitStream_drawBits buf data dl persist (Int64.ofNat n) =
      match (Src.buf buf).next n with
      | none => .error (.invalidData "overrun")
      | some (u, src') =>
        .ok (u, (match src' with | .buf b => b | .rng _ => []), if persist then data ++ [u] else data,
             if persist then dl else dl + 1, persist) :=
  tr_bufDrawBits buf data dl persist n hn hb

/-- **`randomBitStream.drawBits(n)` of /repo is `Src.next n`** on the PRNG: value, next state, what is recorded
    (more than 64 bits: all ones, the state untouched) -/
theorem source_randomBitStream_drawBits (x : Jsf) (data : List UInt64) (dl : Int64) (persist : Bool) (n : Nat) (hn : n < 2 ^ 62) :
    Translated.randomBitStream_drawBits x.a x.b x.c x.d data dl persist (Int64.ofNat n) =
      match (Src.rng x).next n with
      | none => .error .runtime
      | some (u, src') =>
        let y := match src' with | .rng y => y | .buf _ => x
        .ok (u, y.a, y.b, y.c, y.d, if persist then data ++ [u] else data, if persist then dl else dl + 1, persist) :=
  tr_rngDrawBits x data dl persist n hn

/-- the recording calls of /repo are the steps of `recGo`: `beginGroup` appends an open group that starts at the
    current data length and returns its index; `endGroup` closes group `i` at the current data length with the
    discard flag (or fails its assertion when the group recorded nothing and is kept) -/
theorem source_recording_calls (data : List UInt64) (groups : List Translated.groupInfo) (dl : Int64) (l : String) (s d : Bool)
    (i : Nat) (hd : data.length < 2 ^ 62) (hg : groups.length + 1 < 2 ^ 62) (hi : i < groups.length) :
    (∃ g, Translated.recordedBits_beginGroup data groups dl true l s =
        .ok (Int64.ofNat groups.length, data, groups ++ [g], dl, true) ∧ giOf g = ⟨l, s, data.length, -1, false⟩) ∧
    Translated.recordedBits_endGroup data groups dl true (Int64.ofNat i) d =
      (if d || decide (Go.glen data > (groups[i]).begin) then
        .ok (data, groups.modify i (fun g => { g with end_ := Go.glen data, discard := d }), dl, true)
      else .error .assertion) :=
  ⟨tr_beginGroup data groups dl l s hd hg, tr_endGroup data groups dl i d hi (by omega)⟩

/-- **the recording the source builds for any run is the model's**: the translated `record`, `beginGroup`, `endGroup`,
    called in the order of the run of any program on any bit source, never stop at the assertion of `endGroup` and
    leave the data and the group list of `recOfToks` (lengths below 2^62 words and 2^61 groups) -/
theorem source_recording_of_run (p : Prog) (src : Src) (ts : TS)
    (hd : (recOfToks (p.run src ts).toks).data.length < 2 ^ 62) (hg : (recOfToks (p.run src ts).toks).groups.length < 2 ^ 61) :
    srcRecGo (p.run src ts).toks [] [] [] =
      some ((recOfToks (p.run src ts).toks).data, (recOfToks (p.run src ts).toks).groups.map goOf) :=
  srcRecGo_of_run p src ts hd hg

/-- **every draw of every generator is recorded as the model says**: `Generator.value` of /repo (translated) wraps what the
    implementation draws in a standalone group labelled with the generator's `String()` — the model's `wrapValue`, which
    the theorems about replay, pruning and the passes of the shrinker build on -/
theorem source_generator_value (fe : Go.FEval) (W : Prog) (str : Option String) (fuel : Nat) (k : Val → Prog) :
    RunEq (Translated.Generator_value fe (fun k' => W >>- k') str fuel k) ((wrapValue (str.getD "") W) >>- k) :=
  tr_generator_value fe W str fuel k

/-- what the *source's* `repeat.more` / `repeat.reject` (translated on every run) record is what the model's loop records:
    the same groups with the same `discard` flags around the same words — the zero-bit coin of a forced stop included —, so
    that pruning the recording removes the same rejected attempts and the replay of the pruned words reads the same words
    (`repeat_loop_replays_pruned` above is about these tokens) -/
theorem source_repeat_records (fe : Go.FEval) (ft : FT) (HB : FloatFactsBits fe ft) (c : RCfg) (pc : UInt64)
    (hcp : Go.CoinOK fe (.ofBits pc) c.thr) (hmin : c.minC < 2 ^ 62) (hmax : c.maxC < 2 ^ 63) (step : Val → Prog)
    (hshape : StepShape step) (cf fuel : Nat) (hfuel : fuel < 2 ^ 59) (acc : Val) (src : Src) (ts : TS)
    (hdl : ((repeatLoop c step (fun a => .ret a) fuel {} acc).run src ts).res ≠ .error .fuel) :
    (Go.StM.run (Go.repeatWhile fe step cf fuel (Go.RS.fresh c pc) acc) (Go.StState.fresh src ts)).core.toks =
      ((repeatLoop c step (fun a => .ret a) fuel {} acc).run src ts).toks ∧
    (Go.StM.run (Go.repeatWhile fe step cf fuel (Go.RS.fresh c pc) acc) (Go.StState.fresh src ts)).core.src =
      ((repeatLoop c step (fun a => .ret a) fuel {} acc).run src ts).src := by
  rcases Go.tr_repeat fe ft HB c pc hcp hmin hmax step hshape cf fuel hfuel acc src ts with h | h
  · exact absurd h hdl
  · rw [h]; exact ⟨rfl, rfl⟩

/-- a recording made from the PRNG replays from a buffer (the PRNG never overruns) -/
theorem words_are_masked (s s' : Src) (n : Nat) (u : UInt64) (h : s.next n = some (u, s')) : mask n u = u :=
  next_masked h

/-- the state of a reused `*T` does not influence a test case -/
theorem independent_of_T (p : Prog) (src : Src) (ts : TS) (h : Clean ts) :
    (checkOnce p src ts).err = (checkOnce p src TS.fresh).err ∧
    (checkOnce p src ts).used = (checkOnce p src TS.fresh).used :=
  ⟨(checkOnce_clean p src h).1, (checkOnce_clean p src h).2.1⟩

example : (checkOnce (.draw 3 fun w => if w == 5 then Prog.fatal "five" 1 else .ret .nil) (.buf [13]) TS.fresh).err
    = some (.stop "five" 1) := by decide

/-- `genAnyMap` re-read from /repo statement by statement: a key that is already in the map rejects the attempt *before* anything is stored, so that the values of a run are the values of its pruned recording (S192 stored first) -/
theorem make_map_source : Rapid.Generated.body_genAnyMap =
    ["{", "keyGen := newMakeGen(typ.Key())", "valGen := newMakeGen(typ.Elem())",
     "return Custom[any](func(t *T) any {", "label := keyGen.String() + \",\" + valGen.String()",
     "repeat := newRepeat(-1, -1, -1, label)", "m := reflect.MakeMapWithSize(typ, repeat.avg())",
     "for repeat.more(t.s) {", "k := reflect.ValueOf(keyGen.value(t))", "v := reflect.ValueOf(valGen.value(t))",
     "if m.MapIndex(k).IsValid() {", "repeat.reject()", "} else {", "m.SetMapIndex(k, v)", "}", "}",
     "return m.Interface()", "})", "}"] := by rfl

/-- `Generator.Draw` re-read from /repo statement by statement: the value comes from `value(t)` alone; the label, the draw counter and the log line do not influence it -/
theorem draw_source : Rapid.Generated.body_Generator_Draw =
    ["{", "if t.tbLog {", "t.tb.Helper()", "}", "v := g.value(t)", "if len(t.refDraws) > 0 {",
     "ref := t.refDraws[t.draws]", "if !reflect.DeepEqual(v, ref) {",
     "t.tb.Fatalf(\"draw %v differs: %#v vs expected %#v\", t.draws, v, ref)", "}", "}",
     "if t.tbLog || t.rawLog != nil {", "if label == \"\" {", "label = fmt.Sprintf(\"#%v\", t.draws)", "}",
     "if t.tbLog {", "t.tb.Helper()", "}", "t.Logf(\"[rapid] draw %v: %#v\", label, v)", "}", "t.draws++",
     "return v", "}"] := by rfl

/-- `Generator.value` re-read from /repo statement by statement: a standalone group labelled with the generator around `impl.value(t)` -/
theorem generator_value_source : Rapid.Generated.body_Generator_value =
    ["{", "label := \"\"", "if s := g.str.Load(); s != nil {", "label = *s", "}", "i := t.s.beginGroup(label, true)",
     "v := g.impl.value(t)", "t.s.endGroup(i, false)", "return v", "}"] := by rfl

end Rapid.C04
