/-
  C14 — T's non-drawing methods are safe to call from many goroutines.

  (1) `lockset_sound`: any number of threads running well-locked traces over one RWMutex never
      reach a racy configuration, for every interleaving the mutex allows.
  (2) the traces of the real methods — extracted from /repo's source on every run
      (Generated/LockTraces.lean: every path through Log/Logf/Error/Errorf/Fatal*/Fail*/Failed/
      Context/Cleanup/cleanup/fail/failOnError/Skip*) — are well-locked (`decide`).
  (3) each critical section being atomic, the shared state evolves by a sequence of atomic
      operations: no failure is lost, every cleanup is registered exactly once, every
      `Context()` call returns the same context.
  Trusted (A-runtime): Go's memory model for `sync.RWMutex` / `atomic.Bool`, and that nothing
  but the extracted methods touches these fields concurrently.
-/
import RapidProofs.Lockset
import RapidModel.Generated.LockTraces

namespace Rapid.C14
open Rapid.Conc

/-- (1) -/
theorem no_race_under_any_interleaving (c₀ : Cfg) (h0 : ∀ i, c₀.held i = none)
    (hwl : ∀ i, WLF none (c₀.rest i) = true) {c : Cfg} (hr : Reach c₀ c) : ¬ Race c :=
  lockset_sound c₀ h0 hwl hr

/-- (2) every extracted path of every non-drawing method of `*T` respects the discipline -/
theorem traces_well_locked : ∀ t ∈ Rapid.Generated.tTraces, WLF none t.2 = true := by decide

/-- position-independent lookup of a field id by its name in the generated table -/
def fieldId (name : String) : Option Nat :=
  (Rapid.Generated.fieldNames.find? (·.2 == name)).map (·.1)

/-- inside one write section: every write of field `f` is preceded by a read of `f` in the
    same section (check-then-act happens atomically) -/
def checkedWrites (f : Nat) : Bool → Bool → List Ev → Bool
  | _, _, [] => true
  | _, _, .acq .W :: es => checkedWrites f true false es
  | _, _, .acq .R :: es => checkedWrites f false false es
  | _, _, .rel _ :: es => checkedWrites f false false es
  | inW, seen, .read g :: es => checkedWrites f inW (seen || (inW && g == f)) es
  | inW, seen, .write g :: es => (g != f || (inW && seen)) && checkedWrites f inW seen es

/-- `T.Context` creates the context only after re-checking, under the write lock, that no other
    goroutine has created one meanwhile: no two goroutines can each install a context -/
theorem context_created_once :
    ∀ t ∈ Rapid.Generated.tTraces, t.1 = "T.Context" →
      ∀ f, fieldId "T.ctx" = some f → checkedWrites f false false t.2 = true := by decide

/-- the extractor understood every statement of these methods -/
theorem extractor_complete : Rapid.Generated.extractorProblems = [] := by decide

theorem wlf_flatten : ∀ (calls : List (List Ev)), (∀ t ∈ calls, WLF none t = true) → WLF none calls.flatten = true := by
  intro calls
  induction calls with
  | nil => intro _; rfl
  | cons t ts ih =>
    intro h
    simp only [List.flatten_cons]
    exact wlf_append t ts.flatten none (h t (List.mem_cons_self ..)) (ih (fun x hx => h x (List.mem_cons_of_mem _ hx)))

/-- (1)+(2): goroutines calling these methods any number of times in any order, concurrently:
    no reachable configuration has two goroutines about to access the same field with one of
    them writing -/
theorem methods_race_free (calls : Nat → List (List Ev))
    (hc : ∀ i, ∀ t ∈ calls i, ∃ m, (m, t) ∈ Rapid.Generated.tTraces) {c : Cfg}
    (hr : Reach ⟨fun i => (calls i).flatten, fun _ => none⟩ c) : ¬ Race c := by
  apply lockset_sound _ (fun _ => rfl) _ hr
  intro i
  apply wlf_flatten
  intro t ht
  obtain ⟨m, hm⟩ := hc i t ht
  exact traces_well_locked (m, t) hm

/-! (3) atomic-step semantics of the shared state -/

inductive Op | fail (m : String) | cleanup (id : Nat) | context | failed
deriving DecidableEq

structure Sh where
  failed : Option String := none
  cleanups : List Nat := []
  ctx : Option Nat := none
  created : Nat := 0
  seen : List Nat := []     -- contexts returned by Context() calls so far

def step (s : Sh) : Op → Sh
  | .fail m => { s with failed := some m }
  | .cleanup id => { s with cleanups := id :: s.cleanups }
  | .context => match s.ctx with
      | some c => { s with seen := c :: s.seen }
      | none => { s with ctx := some s.created, created := s.created + 1, seen := s.created :: s.seen }
  | .failed => s

def runOps (s : Sh) (ops : List Op) : Sh := ops.foldl step s

/-- a failure signalled by any goroutine at any point is seen at the end (`failOnError`) -/
theorem failure_not_lost : ∀ (ops : List Op) (s : Sh), (s.failed.isSome ∨ ∃ m, Op.fail m ∈ ops) → (runOps s ops).failed.isSome := by
  intro ops
  induction ops with
  | nil => intro s h; rcases h with h | ⟨m, hm⟩; exact h; simp at hm
  | cons o os ih =>
    intro s h
    simp only [runOps, List.foldl] at ih ⊢
    apply ih
    rcases h with h | ⟨m, hm⟩
    · left; cases o <;> simp [step, h]; split <;> simp [h]
    · rcases List.mem_cons.mp hm with rfl | hm
      · left; rfl
      · right; exact ⟨m, hm⟩

/-- every registration is on the stack exactly once, latest first — no lost update -/
theorem cleanups_all_registered : ∀ (ops : List Op) (s : Sh),
    (runOps s ops).cleanups = (ops.filterMap fun o => match o with | .cleanup id => some id | _ => none).reverse ++ s.cleanups := by
  intro ops
  induction ops with
  | nil => intro s; rfl
  | cons o os ih =>
    intro s
    simp only [runOps, List.foldl] at ih ⊢
    rw [ih]
    cases o <;> simp [step]
    split <;> simp

/-- all `Context()` calls return one and the same context -/
theorem one_context : ∀ (ops : List Op) (s : Sh), (∀ c ∈ s.seen, s.ctx = some c) →
    ∀ c ∈ (runOps s ops).seen, (runOps s ops).ctx = some c := by
  intro ops
  induction ops with
  | nil => intro s h; exact h
  | cons o os ih =>
    intro s h
    simp only [runOps, List.foldl] at ih ⊢
    apply ih
    cases o with
    | fail m => exact h
    | cleanup id => exact h
    | failed => exact h
    | context =>
      cases hc : s.ctx with
      | some c0 =>
        simp only [step, hc]
        intro c hmem
        rcases List.mem_cons.mp hmem with rfl | hmem
        · rfl
        · have := h c hmem; rw [hc] at this; exact this
      | none =>
        simp only [step, hc]
        intro c hmem
        rcases List.mem_cons.mp hmem with rfl | hmem
        · rfl
        · have := h c hmem; rw [hc] at this; cases this

example : WLF none [.acq .W, .write 0, .rel .W] = true ∧ WLF none [.read 0] = false := by decide

end Rapid.C14
