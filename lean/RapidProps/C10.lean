/-
  C10 — every invocation gets a live context and has all its cleanups run, LIFO.
  One invocation = one `checkOnce` (generation, reproduction, every minimization attempt,
  fail-file replay, output capture, final replay, fuzzing all go through it) or one
  `inner` (Custom function) — both end with `cleanupPhase`.
-/
import RapidModel.Generated.CallOrders
import RapidProofs.Context

namespace Rapid.C10

/-- all `T.Context()` calls of one invocation observe one and the same context -/
theorem one_context_per_invocation (p : Prog) (src : Src) (ts : TS) (id : Nat) (h : ts.ctx = some id) :
    (p.run src ts).ts.ctx = some id := run_ctx_stable p src ts id h

theorem later_calls_same_live_context (k : Prog) (src : Src) (ts : TS) (id : Nat) (h : ts.ctx = some id) :
    (Prog.ctx k).run src ts = (k.run src ts).after [] [] [] [.ctx id true] := ctx_node_same k src ts id h

/-- the context is cancelled before the first cleanup callback; the phase is bracketed -/
theorem cancelled_before_cleanups (ts : TS) :
    ∃ stackEvs, (cleanupPhase ts).evs =
      Ev.cleanupBegin :: ((match ts.ctx with | some id => [Ev.cancel id] | none => []) ++ stackEvs ++ [Ev.cleanupEnd]) ∧
      stackEvs = (runStack (stackSize ts.cleanups) { ts with ctx := none }).evs := cleanupPhase_shape ts

/-- every registered callback — also those registered during cleanup — has been popped (run)
    when the phase ends, and no context is left -/
theorem all_cleanups_run (ts : TS) : (cleanupPhase ts).ts.cleanups = [] ∧ (cleanupPhase ts).ts.ctx = none :=
  cleanupPhase_clean ts

/-- …whatever the invocation did: the `*T` is clean before the next invocation begins -/
theorem clean_between_invocations (p : Prog) (src : Src) (ts : TS) : Clean (checkOnce p src ts).ts :=
  checkOnce_clean_after p src ts

/-- last-in, first-out, each exactly once -/
theorem lifo (ids : List Nat) (fuel : Nat) (ts : TS)
    (h : ts.cleanups = ids.map (fun i => CTree.emit i .done)) (hf : ids.length ≤ fuel) :
    (runStack fuel ts).evs = ids.map Ev.user ∧ (runStack fuel ts).err = none := runStack_lifo ids fuel ts h hf

/-- a panicking callback does not stop the others (the last failure is reported; invalid data raised by a
    callback never replaces a failure: `pickErr`) -/
theorem panic_does_not_stop_cleanups (e : Err) (rest : List CTree) (fuel : Nat) (ts : TS)
    (h : ts.cleanups = .throw e :: rest) :
    (runStack (fuel + 1) ts).evs = (runStack fuel { ts with cleanups := rest }).evs ∧
    (runStack (fuel + 1) ts).ts = (runStack fuel { ts with cleanups := rest }).ts ∧
    (runStack (fuel + 1) ts).err = pickErr (some e) (runStack fuel { ts with cleanups := rest }).err :=
  runStack_after_panic e rest fuel ts h

/-- a body that registers A, then B (B registers C while running), with a context: order is
    cancel, B, C, A -/
example : (checkOnce (.ctx (.cleanup (.emit 1 .done) (.cleanup (.emit 2 (.reg (.emit 3 .done) .done)) (Prog.fatal "x" 1))))
    (.buf []) TS.fresh).evs =
    [.ctx 0 true, .signal, .cleanupBegin, .cancel 0, .user 2, .user 3, .user 1, .cleanupEnd] := by decide

/-! ### facts re-read from /repo's source on every run -/

/-- `runProp`: recover is deferred first and `cleanup` second, so cleanups run before the recover;
    then the property -/
theorem runProp_order_source :
    Rapid.Generated.order_runProp = ["if", "defer{panicToError}", "defer t.cleanup", "call prop", "return"] := by decide

/-- `checkOnce`: run the property with its cleanups, then the pending-failure check, then reset -/
theorem checkOnce_order_source :
    Rapid.Generated.order_checkOnce = ["if", "call runProp", "if", "call t.resetFailed", "return"] := by decide

/-- `T.cleanup`: the context is cancelled (under the lock) before the pop-and-run loop; the
    "run the remaining cleanups" handler is deferred before both -/
theorem cleanup_order_source :
    Rapid.Generated.order_cleanup = ["call t.cleaning.Store", "defer t.cleaning.Store", "defer{t.mu.Lock}",
      "call t.mu.Lock", "if", "call t.mu.Unlock", "for"] := by decide

/-- `customGen.maybeValue`: fresh inner T with its parent, deferred cleanup (which re-raises invalid data recorded
    from a cleanup function unless the function is failing), deferred recover -/
theorem maybeValue_order_source :
    Rapid.Generated.order_maybeValue = ["assign", "call newT", "assign", "assign", "defer t.cleanupCustom", "defer{recover}", "return"] := by decide

theorem example_order_source : Rapid.Generated.order_example = ["assign", "defer t.cleanupCustom", "for"] := by decide

/-- `T.cleanupCustom`: all cleanups first, then the recorded invalid data; `T.runCleanupFunc`: the recover that
    records invalid data is deferred before the cleanup function is called -/
theorem cleanupCustom_order_source :
    Rapid.Generated.order_cleanupCustom = ["call t.cleanup", "if"] ∧
    Rapid.Generated.order_runCleanupFunc = ["defer{recover}", "call f"] := by decide

end Rapid.C10
