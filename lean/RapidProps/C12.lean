/-
  C12 — minimization reaches the exact boundary on threshold properties.
  (initial set; `minimize` exactness for upward-closed conditions is in RapidProofs/MinimizeExact.lean)
-/
import RapidModel.Minimize

namespace Rapid.C12

theorem minimize_zero (cond : UInt64 → Bool) : minimize 0 cond = (0, []) := by
  simp [minimize]

/-- a value that satisfies `cond` at 0 minimizes to 0 with a single probe -/
theorem minimize_to_zero (u : UInt64) (cond : UInt64 → Bool) (hu : u ≠ 0) (h0 : cond 0 = true) :
    (minimize u cond).1 = 0 := by
  have hne : (u == 0) = false := by simp [hu]
  have hpos : (0 : UInt64) < u := by
    rw [UInt64.lt_iff_toNat_lt]
    have : u.toNat ≠ 0 := fun h => hu (UInt64.toNat_inj.mp (by simpa using h))
    simp; omega
  simp [minimize, hne, trySmall, hpos, small, h0]

example : (minimize 1000 (fun x => x ≥ 37)).1 = 37 := by decide

end Rapid.C12
