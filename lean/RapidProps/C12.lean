/-
  C12 — minimization reaches the exact boundary on threshold properties.
-/
import RapidModel.Minimize
import RapidProofs.MinimizeExact

namespace Rapid.C12

theorem minimize_zero (cond : UInt64 → Bool) : minimize 0 cond = (0, []) := by
  simp [minimize]

/-- a value that satisfies `cond` at 0 minimizes to 0 with a single probe -/
theorem minimize_to_zero (u : UInt64) (cond : UInt64 → Bool) (hu : u ≠ 0) (h0 : cond 0 = true) :
    (minimize u cond).1 = 0 := by
  have hne : (u == 0) = false := by simp [hu]
  have hpos : (0 : UInt64) < u := by
    rw [UInt64.lt_iff_toNat_lt]
    have : u.toNat ≠ 0 := fun h => hu (UInt64.toNat_inj.mp (by simpa using h))
    simp; omega
  simp [minimize, hne, trySmall, hpos, small, h0]

example : (minimize 1000 (fun x => x ≥ 37)).1 = 37 := by decide


/-- **exactness**: for every threshold `θ ≤ u`, `minimize u (θ ≤ ·)` returns exactly `θ` — all
    2^64 thresholds and all starting values (the tests sample 100) -/
theorem minimize_reaches_threshold (u θ : UInt64) (h : θ ≤ u) : (minimize u (fun x => decide (θ ≤ x))).1 = θ :=
  minimize_exact u θ h

/-- `minimize u cond` asks `cond` only about values below `u`: result and probe sequence are
    determined by `cond` on `[0, u)` -/
theorem minimize_local (u : UInt64) (cond cond' : UInt64 → Bool) (h : ∀ x, x < u → cond x = cond' x) :
    minimize u cond = minimize u cond' :=
  minimize_congr u h

/-- exactness for a block of a recorded bitstream: the recorded word `u` made the property
    fail, the property fails for a replacement `x < u` iff `θ ≤ x` — then the block is
    minimized to exactly `θ` -/
theorem block_minimized_to_boundary (u θ : UInt64) (cond : UInt64 → Bool) (h : θ ≤ u)
    (hc : ∀ x, x < u → cond x = decide (θ ≤ x)) : (minimize u cond).1 = θ :=
  minimize_exact_on u θ cond h hc

example : (37 : UInt64) ≤ 1000 := by decide

end Rapid.C12
