/-
  C12 — minimization reaches the exact boundary on threshold properties.
-/
import RapidModel.Minimize
import RapidProofs.MinimizeExact
import RapidProofs.PassFix
import RapidProofs.TranslatedMinEq
import RapidProofs.TranslatedMinSEq

namespace Rapid.C12

theorem minimize_zero (cond : UInt64 → Bool) : minimize 0 cond = (0, []) := by
  simp [minimize]

/-- a value that satisfies `cond` at 0 minimizes to 0 with a single probe -/
theorem minimize_to_zero (u : UInt64) (cond : UInt64 → Bool) (hu : u ≠ 0) (h0 : cond 0 = true) :
    (minimize u cond).1 = 0 := by
  have hne : (u == 0) = false := by simp [hu]
  have hpos : (0 : UInt64) < u := by
    rw [UInt64.lt_iff_toNat_lt]
    have : u.toNat ≠ 0 := fun h => hu (UInt64.toNat_inj.mp (by simpa using h))
    simp; omega
  simp [minimize, hne, trySmall, hpos, small, h0]

example : (minimize 1000 (fun x => x ≥ 37)).1 = 37 := by decide


/-- **exactness**: for every threshold `θ ≤ u`, `minimize u (θ ≤ ·)` returns exactly `θ` — all
    2^64 thresholds and all starting values (the tests sample 100) -/
theorem minimize_reaches_threshold (u θ : UInt64) (h : θ ≤ u) : (minimize u (fun x => decide (θ ≤ x))).1 = θ :=
  minimize_exact u θ h

/-- **`minimize` of /repo** (shrink.go: `minimize`, `minimizer.accept/rShift/unsetBits/sortBits/binSearch`, translated
    from the working tree on every run) terminates and returns the result of the model's `minimize`, for every start
    value and every predicate (the label the source hands to the predicate is ignored by it) -/
theorem source_minimize (u : UInt64) (cond : UInt64 → Bool) (fuel : Nat) (hf : 130 < fuel) :
    Translated.minimize u (fun x _ => cond x) fuel = .ok (minimize u cond).1 :=
  tr_minimize u cond fuel hf

/-- exactness, for the source: every threshold `θ ≤ u` is found exactly -/
theorem source_minimize_reaches_threshold (u θ : UInt64) (h : θ ≤ u) (fuel : Nat) (hf : 130 < fuel) :
    Translated.minimize u (fun x _ => decide (θ ≤ x)) fuel = .ok θ := by
  have := tr_minimize u (fun x => decide (θ ≤ x)) fuel hf
  rw [minimize_reaches_threshold u θ h] at this
  exact this

/-- `minimize u cond` asks `cond` only about values below `u`: result and probe sequence are
    determined by `cond` on `[0, u)` -/
theorem minimize_local (u : UInt64) (cond cond' : UInt64 → Bool) (h : ∀ x, x < u → cond x = cond' x) :
    minimize u cond = minimize u cond' :=
  minimize_congr u h

/-- exactness for a block of a recorded bitstream: the recorded word `u` made the property
    fail, the property fails for a replacement `x < u` iff `θ ≤ x` — then the block is
    minimized to exactly `θ` -/
theorem block_minimized_to_boundary (u θ : UInt64) (cond : UInt64 → Bool) (h : θ ≤ u)
    (hc : ∀ x, x < u → cond x = decide (θ ≤ x)) : (minimize u cond).1 = θ :=
  minimize_exact_on u θ cond h hc

example : (37 : UInt64) ≤ 1000 := by decide


/-! ### the shrinker as a whole: what holds when it stops by itself -/

/-- when `minimizeBlocks` ends without an accepted candidate, no block can be lowered by one:
    the test case with block `j` decremented does not reproduce the failure -/
theorem no_block_can_be_lowered (p : Prog) (s s' : SS) (F : Nat) (hF : s.rc.data.length ≤ F) (hc : CacheOK p s)
    (hrun : (minimizeBlocks F 0).run p s = .ok ((), s')) (hno : s'.shrinks = s.shrinks)
    (j : Nat) (hj : j < s.rc.data.length) (hnz : s.rc.data[j] ≠ 0) :
    ¬ Reproduces p s (s.rc.data.set j (s.rc.data[j] - 1)) :=
  minimizeBlocks_fixpoint p s s' F hF hc hrun hno j hj hnz

/-- …so a block on which the failure depends monotonically (a threshold on the drawn integer:
    the value encodings are monotone in their blocks) is at the exact boundary -/
theorem threshold_block_is_exact (p : Prog) (s s' : SS) (F : Nat) (hF : s.rc.data.length ≤ F) (hc : CacheOK p s)
    (hrun : (minimizeBlocks F 0).run p s = .ok ((), s')) (hno : s'.shrinks = s.shrinks)
    (j : Nat) (hj : j < s.rc.data.length) (hnz : s.rc.data[j] ≠ 0)
    (hmono : ∀ x y : UInt64, x ≤ y → y < s.rc.data[j] → Reproduces p s (s.rc.data.set j x) → Reproduces p s (s.rc.data.set j y)) :
    ∀ x, x < s.rc.data[j] → ¬ Reproduces p s (s.rc.data.set j x) :=
  block_at_boundary p s j hj hnz hmono (minimizeBlocks_fixpoint p s s' F hF hc hrun hno j hj hnz)

/-- when `removeGroups` ends without an accepted candidate, no finished standalone group — a
    collection element together with its continue-coin — can be dropped: a collection that
    must have at least `k` elements for the failure has exactly `k` -/
theorem no_element_can_be_dropped (p : Prog) (s s' : SS) (F : Nat) (hF : s.rc.groups.length ≤ F) (hc : CacheOK p s)
    (hrun : (removeGroups F 0).run p s = .ok ((), s')) (hno : s'.shrinks = s.shrinks)
    (j : Nat) (hj : j < s.rc.groups.length) (hst : s.rc.groups[j].standalone = true) (hfin : 0 ≤ s.rc.groups[j].end_)
    (hne : (s.rc.groups[j].begin : Int) ≠ s.rc.groups[j].end_) :
    ∃ buf, without? s.rc.data [s.rc.groups[j]] = some buf ∧ ¬ Reproduces p s buf :=
  removeGroups_fixpoint p s s' F hF hc hrun hno j hj hst hfin hne

/-- the cache invariant the two statements assume holds in every state the shrinker reaches -/
theorem cache_invariant (p : Prog) {α : Type} (sc : Script α) (rc : Rec) (err : Option Err) (s' : SS) (a : α)
    (h : sc.run p { rc := rc, err := err } = .ok (a, s')) : CacheOK p s' :=
  run_cacheOK p sc _ s' a (cacheOK_init p rc err) h

/-! ### `minimize` as the shrinker uses it: with a callback that calls `accept` -/

/-- **`minimize(u, cond)` of /repo (with `rShift`, `unsetBits`, `sortBits`, `binSearch` and `minimizer.accept`), translated with a
    callback that talks to the shrinker, agrees with the model's `minimizeS`** against every shrinker and for every pair of
    callbacks that agree: the same probes in the same order, the same result — or the translated loops run out of fuel -/
theorem source_minimize_with_callback {σ : Type} (o : Oracle σ) {cT : UInt64 → String → Go.SM Bool} {cM : UInt64 → Script Bool}
    (hc : CondAgree o cT cM) (fuel : Nat) (u : UInt64) (s : σ) :
    Agree (fun (a b : UInt64) => a = b) (Rapid.SM.exec o (Rapid.Translated.minimizeS u cT fuel) s) ((minimizeS u cM).exec o s) :=
  tr_minimizeS o hc fuel u s

/-- **`minimizeBlocks` of /repo agrees with the model's pass** (the pass `no_block_can_be_lowered` and
    `threshold_block_is_exact` are about) -/
theorem source_minimizeBlocks {σ : Type} (o : Oracle σ) (wf : o.WF) (fuel fm : Nat) (h : fuel ≤ fm) (s : σ) :
    Agree (fun _ _ => True) (Rapid.SM.exec o (Rapid.Translated.shrinker_minimizeBlocks fuel) s) ((minimizeBlocks fm 0).exec o s) :=
  tr_minimizeBlocks o wf fuel fm s h

end Rapid.C12
