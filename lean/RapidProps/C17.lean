/-
  C17 — unusable fail files are ignored and never change the verdict.
  A fail file is unusable for `p` when `checkFailFile` yields nothing: it cannot be loaded (any
  error class of the loader), was written by another version, or describes a test case that now
  passes or is invalid.
-/
import RapidModel.Generated.Consts
import RapidProofs.Shrink
import RapidModel.Persist
import RapidProofs.TranslatedPersistEq

namespace Rapid.C17

theorem firstFailFile_none (p : Prog) : ∀ (files : List FF) (i : Nat),
    (∀ f ∈ files, checkFailFile p f = none) → firstFailFile p files i = none := by
  intro files
  induction files with
  | nil => intro i _; rfl
  | cons f fs ih =>
    intro i h
    simp only [firstFailFile, h f (List.mem_cons_self ..)]
    exact ih _ (fun g hg => h g (List.mem_cons_of_mem _ hg))

/-- any number of unusable files: `doCheck` is exactly `doCheck` without them — same random
    test cases (same seeds), same counters, same failure, same verdict -/
theorem unusable_files_ignored (p : Prog) (checks : Nat) (seed : UInt64) (files : List FF)
    (early : Nat → Bool) (cands : List (List UInt64)) (h : ∀ f ∈ files, checkFailFile p f = none) :
    doCheck p checks seed files early cands = doCheck p checks seed [] early cands := by
  simp [doCheck, firstFailFile_none p files 0 h, firstFailFile]

theorem unloadable_is_unusable (p : Prog) : checkFailFile p .unloadable = none := rfl

theorem other_version_is_unusable (p : Prog) (v : String) (s : UInt64) (buf : List UInt64) (h : v ≠ rapidVersion) :
    checkFailFile p (.loaded v s buf) = none := by
  simp [checkFailFile, h]

theorem passing_case_is_unusable (p : Prog) (v : String) (s : UInt64) (buf : List UInt64)
    (h : (checkOnce p (.buf buf) TS.fresh).err = none) : checkFailFile p (.loaded v s buf) = none := by
  simp only [checkFailFile]; split <;> simp [h]

theorem invalid_case_is_unusable (p : Prog) (v : String) (s : UInt64) (buf : List UInt64) (m : String)
    (h : (checkOnce p (.buf buf) TS.fresh).err = some (.invalid m)) : checkFailFile p (.loaded v s buf) = none := by
  simp only [checkFailFile]; split <;> simp [h, Err.isInvalid]

/-- the loader is total: every byte string is parsed or rejected with one of five error classes -/
theorem loader_total (bs : Bytes) :
    (∃ r, loadBytes bs = .ok r) ∨ loadBytes bs = .error .scan ∨ loadBytes bs = .error .noData ∨
    loadBytes bs = .error .badHeader ∨ loadBytes bs = .error .badSeed ∨ loadBytes bs = .error .badWord := by
  cases h : loadBytes bs with
  | ok r => exact Or.inl ⟨r, rfl⟩
  | error e => cases e <;> simp

example : loadBytes [103, 97, 114, 98, 97, 103, 101] = .error .badHeader := by rfl
example : loadBytes [] = .error .noData := by rfl

/-! ### facts re-read from /repo's source on every run -/

theorem version_source : Rapid.Generated.c_rapidVersion = rapidVersion := by decide

/-! ### persist.go, translated from /repo on every run -/

/-- **the source's `loadFailFile` reports an error exactly when the model's `loadBytes` does** — the files `unusable_files_ignored`
    is about are the files the source refuses: no data, a malformed header, a seed or any word that is not a 64-bit number (the
    error of every word counts, not only of the last one) -/
theorem source_loadFailFile_error (bs : Bytes) (fuel : Nat) (hl : (scanLines bs).length < 2 ^ 61) (hf : (scanLines bs).length + 1 < fuel)
    (hlines : ∀ l ∈ scanLines bs, (trimSpace l).length < 2 ^ 61) :
    ∃ v sd buf err, Rapid.Translated.loadFailFile_bytes (scanLines bs) fuel = .ok (v, sd, buf, err) ∧
      (err = true ↔ ∃ e, loadBytes bs = .error e) := by
  refine ⟨_, _, _, _, tr_loadFailFile bs fuel hl hf hlines, ?_⟩
  cases h : loadBytes bs with
  | error e => simp [loadT]
  | ok r => obtain ⟨v, sd, b⟩ := r; simp [loadT]

end Rapid.C17
