/-
  C17 — unusable fail files are ignored and never change the verdict.
  A fail file is unusable for `p` when `checkFailFile` yields nothing: it cannot be loaded (any
  error class of the loader), was written by another version, or describes a test case that now
  passes or is invalid.
-/
import RapidModel.Generated.Consts
import RapidProofs.Shrink
import RapidModel.Persist
import RapidProofs.TranslatedPersistEq
import RapidProofs.TranslatedCheckEq

namespace Rapid.C17

theorem firstFailFile_none (p : Prog) : ∀ (files : List FF) (i : Nat),
    (∀ f ∈ files, checkFailFile p f = none) → firstFailFile p files i = none := by
  intro files
  induction files with
  | nil => intro i _; rfl
  | cons f fs ih =>
    intro i h
    simp only [firstFailFile, h f (List.mem_cons_self ..)]
    exact ih _ (fun g hg => h g (List.mem_cons_of_mem _ hg))

/-- any number of unusable files: `doCheck` is exactly `doCheck` without them — same random
    test cases (same seeds), same counters, same failure, same verdict -/
theorem unusable_files_ignored (p : Prog) (checks : Nat) (seed : UInt64) (files : List FF)
    (early : Nat → Bool) (cands : List (List UInt64)) (h : ∀ f ∈ files, checkFailFile p f = none) :
    doCheck p checks seed files early cands = doCheck p checks seed [] early cands := by
  simp [doCheck, firstFailFile_none p files 0 h, firstFailFile]

theorem unloadable_is_unusable (p : Prog) : checkFailFile p .unloadable = none := rfl

theorem other_version_is_unusable (p : Prog) (v : String) (s : UInt64) (buf : List UInt64) (h : v ≠ rapidVersion) :
    checkFailFile p (.loaded v s buf) = none := by
  simp [checkFailFile, h]

theorem passing_case_is_unusable (p : Prog) (v : String) (s : UInt64) (buf : List UInt64)
    (h : (checkOnce p (.buf buf) TS.fresh).err = none) : checkFailFile p (.loaded v s buf) = none := by
  simp only [checkFailFile]; split <;> simp [h]

theorem invalid_case_is_unusable (p : Prog) (v : String) (s : UInt64) (buf : List UInt64) (m : String)
    (h : (checkOnce p (.buf buf) TS.fresh).err = some (.invalid m)) : checkFailFile p (.loaded v s buf) = none := by
  simp only [checkFailFile]; split <;> simp [h, Err.isInvalid]

/-- the loader is total: every byte string is parsed or rejected with one of five error classes -/
theorem loader_total (bs : Bytes) :
    (∃ r, loadBytes bs = .ok r) ∨ loadBytes bs = .error .scan ∨ loadBytes bs = .error .noData ∨
    loadBytes bs = .error .badHeader ∨ loadBytes bs = .error .badSeed ∨ loadBytes bs = .error .badWord := by
  cases h : loadBytes bs with
  | ok r => exact Or.inl ⟨r, rfl⟩
  | error e => cases e <;> simp

example : loadBytes [103, 97, 114, 98, 97, 103, 101] = .error .badHeader := by rfl
example : loadBytes [] = .error .noData := by rfl

/-! ### facts re-read from /repo's source on every run -/

theorem version_source : Rapid.Generated.c_rapidVersion = rapidVersion := by decide

/-! ### persist.go, translated from /repo on every run -/

/-- **the source's `loadFailFile` reports an error exactly when the model's `loadBytes` does** — the files `unusable_files_ignored`
    is about are the files the source refuses: no data, a malformed header, a seed or any word that is not a 64-bit number (the
    error of every word counts, not only of the last one) -/
theorem source_loadFailFile_error (bs : Bytes) (fuel : Nat) (hl : (scanLines bs).length < 2 ^ 61) (hf : (scanLines bs).length + 1 < fuel)
    (hlines : ∀ l ∈ scanLines bs, (trimSpace l).length < 2 ^ 61) :
    ∃ v sd buf err, Rapid.Translated.loadFailFile_bytes (scanLines bs) fuel = .ok (v, sd, buf, err) ∧
      (err = true ↔ ∃ e, loadBytes bs = .error e) := by
  refine ⟨_, _, _, _, tr_loadFailFile bs fuel hl hf hlines, ?_⟩
  cases h : loadBytes bs with
  | error e => simp [loadT]
  | ok r => obtain ⟨v, sd, b⟩ := r; simp [loadT]

/-! ### `checkFailFile` and `doCheck` of engine.go, translated from /repo on every run -/

/-- **the source's `checkFailFile` is the model's**: it hands back nothing (`nil, nil, nil`) exactly for the files the theorems
    above call unusable — not loadable, a version string that is not *equal* to `rapidVersion`, a test case that passes or is
    invalid now — and otherwise the words and the errors of two replays on fresh `*T`s -/
theorem source_checkFailFile (E : Go.CEnv) (name : String) (o : Option Once) :
    ∃ o', Go.CM.run E (Translated.checkFailFile name) o = (.ok (Go.ffOut (checkFailFile E.p (E.file name))), o') :=
  Go.tr_checkFailFile E name o

/-- **the source's `doCheck` with unusable fail files is the source's `doCheck` without any**: whatever `-rapid.failfile` names
    and the glob finds, if none of it is usable the eight results are those of a run that looks at no file at all (the model's
    `doCheck … []`): same random test cases, same failure found, same minimized result -/
theorem source_unusable_files_ignored (E : Go.CEnv) (checks : Nat) (hc : checks < 2 ^ 62) (seed : UInt64) (failfile : String)
    (globf : Bool) (fuel : Nat) (hl : (Go.failFileNames failfile globf E.found).length < 2 ^ 62)
    (hfuel : (Go.failFileNames failfile globf E.found).length < fuel)
    (h : ∀ n ∈ Go.failFileNames failfile globf E.found, checkFailFile E.p (E.file n) = none) :
    (Go.CM.run E (Translated.doCheck (Int64.ofNat checks) seed failfile globf fuel) none).1 =
      .ok (Go.dcOut [] (doCheck E.p checks seed [] E.early E.cands)) := by
  rw [Go.tr_doCheck E checks hc seed failfile globf fuel hl hfuel]
  have hu := unusable_files_ignored E.p checks seed ((Go.failFileNames failfile globf E.found).map E.file) E.early E.cands
    (by intro f hf; obtain ⟨n, hn, rfl⟩ := List.mem_map.mp hf; exact h n hn)
  rw [hu]
  have hnone : (doCheck E.p checks seed [] E.early E.cands).fromFile = none := by
    simp only [doCheck, firstFailFile]
    split <;> (try split) <;> rfl
  simp [Go.dcOut, hnone]

/-- the hypotheses are satisfiable: a file of a neighbouring version next to an unloadable one, and a property that fails -/
example : ∀ n ∈ Go.failFileNames "a.fail" true ["b.fail"],
    checkFailFile (.draw 8 fun w => if w == 5 then Prog.fatal "five" 1 else .ret .nil)
      ((fun n => if n == "a.fail" then FF.loaded "v0.4.8-rc1" 1 [5] else FF.unloadable) n) = none := by
  intro n hn
  simp [Go.failFileNames] at hn
  rcases hn with rfl | rfl <;> simp [checkFailFile, rapidVersion]

end Rapid.C17
