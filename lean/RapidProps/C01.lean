/-
  C01 — a reported failure is real.

  Full statement (for every property `p`, every seed, checks, fail-file set, early-exit
  oracle and EVERY candidate sequence of the shrinker — i.e. minimization cut short at any
  point): if `checkTB` reports a failure, the reported buffer makes `p` fail with the reported
  error when run on a fresh `*T`; the verdict is never "flaky"; a reported error is never an
  invalid (skipped) test case.

  Hypothesis `PruneStable p`: the pruned recording of a failing run of `p` fails the same way
  (L-PS).  It is proved for generator classes in `RapidProofs/PruneStable*.lean`; it is false
  for programs in which an action is skipped after consuming bits of a discarded group
  (known finding D2), which is why it is a hypothesis here and not a lemma about all `Prog`.
-/
import RapidProofs.PruneProp
import RapidModel.Generated.CallOrders
import RapidProofs.PruneCustom
import RapidProofs.TranslatedCheckEq

namespace Rapid.C01

/-- the buffer and error handed to `checkTB` reproduce; both errors have the same traceback -/
theorem reported_failure_replays (p : Prog) (hps : PruneStable p) (checks : Nat) (seed : UInt64)
    (files : List FF) (early : Nat → Bool) (cands : List (List UInt64)) :
    let d := doCheck p checks seed files early cands
    (d.err1.isSome ∨ d.err2.isSome) →
      tbKey d.err1 = tbKey d.err2 ∧ d.err2 = (checkOnce p (.buf d.buf) TS.fresh).err ∧
      ∃ e, d.err2 = some e ∧ e.isInvalid = false :=
  doCheck_reported p hps checks seed files early cands

/-- never flaky; "failed after …" names an error that the final replay reproduces -/
theorem never_flaky_and_final_replay_fails (p : Prog) (hps : PruneStable p) (checks : Nat) (seed : UInt64)
    (files : List FF) (early : Nat → Bool) (cands : List (List UInt64)) :
    match verdict checks (doCheck p checks seed files early cands) with
    | .flaky _ _ => False
    | .failed _ e _ buf => (checkOnce p (.buf buf) TS.fresh).err = some e ∧ e.isInvalid = false
    | _ => True :=
  verdict_of_doCheck p hps checks seed files early cands

/-- no phantom failure: the test case `findBug` blames fails by itself, on a fresh `*T` -/
theorem blamed_case_fails (p : Prog) (checks : Nat) (seed : UInt64) (early : Nat → Bool) (e : Err)
    (h : (findBug p checks seed early).err = some e) :
    e.isInvalid = false ∧
    (checkOnce p (.rng (Jsf.init (findBug p checks seed early).seed)) TS.fresh).err = some e :=
  findBugLoop_blame p checks early _ 0 0 seed TS.fresh [] e clean_fresh h

/-- the shrinker never sees its second run disagree with the first -/
theorem no_mid_shrink_mismatch (p : Prog) (s : Shr) (c d : List UInt64) (e : Option Err) :
    accept p s c ≠ .mismatch d e := accept_no_mismatch p s c d e

/-- **L-PS discharged**: for property functions that draw from any nesting of the built-in
    generators (no Custom) and use the `*T` API, the hypothesis `PruneStable` holds whenever
    failing test cases end with the body producing a value or a failure (`BodyGood`; it
    excludes "Errorf, then Skip" and running out of model fuel) -/
theorem pruneStable_of_property (e : Env) (hrt : RTPos e) (p : Prog) (hp : PropProg e p) (hbg : BodyGood p) :
    PruneStable p := pruneStable_of_ps (propProg_ps e hrt hp) hbg

/-- end to end: such a property is never reported as flaky and the final replay fails as reported,
    for every seed, checks, fail files, clock and candidate sequence of the shrinker -/
theorem reported_failure_is_real (e : Env) (hrt : RTPos e) (p : Prog) (hp : PropProg e p) (hbg : BodyGood p)
    (checks : Nat) (seed : UInt64) (files : List FF) (early : Nat → Bool) (cands : List (List UInt64)) :
    match verdict checks (doCheck p checks seed files early cands) with
    | .flaky _ _ => False
    | .failed _ er _ buf => (checkOnce p (.buf buf) TS.fresh).err = some er ∧ er.isInvalid = false
    | _ => True :=
  verdict_of_doCheck p (pruneStable_of_property e hrt p hp hbg) checks seed files early cands

/-- the same with `Custom` generators nested to any depth `d`, whose functions draw, branch, skip,
    panic and register quiet cleanups but do not call `T.Error*/Fatal*` (`GenLvl`, `PropProgC`) -/
theorem pruneStable_of_property_with_custom (e : Env) (hrt : RTPos e) (d : Nat) (p : Prog) (hp : PropProgC e d p)
    (hbg : BodyGood p) : PruneStable p := pruneStable_of_ps (propProgC_ps e hrt hp) hbg

theorem reported_failure_is_real_with_custom (e : Env) (hrt : RTPos e) (d : Nat) (p : Prog) (hp : PropProgC e d p)
    (hbg : BodyGood p) (checks : Nat) (seed : UInt64) (files : List FF) (early : Nat → Bool) (cands : List (List UInt64)) :
    match verdict checks (doCheck p checks seed files early cands) with
    | .flaky _ _ => False
    | .failed _ er _ buf => (checkOnce p (.buf buf) TS.fresh).err = some er ∧ er.isInvalid = false
    | _ => True :=
  verdict_of_doCheck p (pruneStable_of_property_with_custom e hrt d p hp hbg) checks seed files early cands

/-! ### `doCheck` of engine.go, translated from /repo on every run -/

/-- **the source's `doCheck` hands back the model's `doCheck`**: for every property, set of fail files (the one named with
    `-rapid.failfile` first, then what the glob finds), number of checks, base seed, clock of the generation loop and candidate
    sequence of the shrinker — which fail file wins, that the failing seed is run again on a fresh recording `*T` before
    anything is minimized, that a different error there ends the run with both errors and the words drawn, that the
    shrinker starts from that second run — -/
theorem source_doCheck (E : Go.CEnv) (checks : Nat) (hc : checks < 2 ^ 62) (seed : UInt64) (failfile : String) (globf : Bool)
    (fuel : Nat) (hl : (Go.failFileNames failfile globf E.found).length < 2 ^ 62)
    (hfuel : (Go.failFileNames failfile globf E.found).length < fuel) :
    (Go.CM.run E (Translated.doCheck (Int64.ofNat checks) seed failfile globf fuel) none).1 =
      .ok (Go.dcOut (Go.failFileNames failfile globf E.found)
        (doCheck E.p checks seed ((Go.failFileNames failfile globf E.found).map E.file) E.early E.cands)) :=
  Go.tr_doCheck E checks hc seed failfile globf fuel hl hfuel

/-- so what the *source's* `doCheck` reports replays: when it hands back an error, the words it hands back make the property
    fail with that error on a fresh `*T`, and the error is not an invalid test case -/
theorem source_reported_failure_replays (E : Go.CEnv) (hps : PruneStable E.p) (checks : Nat) (hc : checks < 2 ^ 62) (seed : UInt64)
    (failfile : String) (globf : Bool) (fuel : Nat) (hl : (Go.failFileNames failfile globf E.found).length < 2 ^ 62)
    (hfuel : (Go.failFileNames failfile globf E.found).length < fuel)
    (valid invalid : Int64) (early : Bool) (sd : UInt64) (file : String) (buf : List UInt64) (e1 e2 : Option Err)
    (hrun : (Go.CM.run E (Translated.doCheck (Int64.ofNat checks) seed failfile globf fuel) none).1 =
      .ok (valid, invalid, early, sd, file, buf, e1, e2))
    (herr : e1.isSome ∨ e2.isSome) :
    tbKey e1 = tbKey e2 ∧ e2 = (checkOnce E.p (.buf buf) TS.fresh).err ∧ ∃ e, e2 = some e ∧ e.isInvalid = false := by
  rw [source_doCheck E checks hc seed failfile globf fuel hl hfuel] at hrun
  simp only [Go.dcOut, Except.ok.injEq, Prod.mk.injEq] at hrun
  obtain ⟨-, -, -, -, -, hb, h1, h2⟩ := hrun
  subst hb h1 h2
  exact reported_failure_replays E.p hps checks seed _ E.early E.cands herr

/-- properties that fail only fatally (Fatal*/FailNow/panic) satisfy `BodyGood` -/
theorem bodyGood_of_fatal_only (p : Prog) (hp : TsPure p) (hfuel : ∀ src, (p.run src TS.fresh).res ≠ .error .fuel) :
    BodyGood p := bodyGood_of_pure hp hfuel

/-- non-vacuity: a concrete property with a failing run (site 7) satisfies the hypotheses of
    `blamed_case_fails` at the level of one test case -/
example : (checkOnce (Prog.fatal "boom" 7) (.buf []) TS.fresh).err = some (.stop "boom" 7) := by
  decide

/-- `captureTestOutput` re-read from /repo statement by statement: the output written to the fail file is that of one more replay of the minimized words on a `T` that logs into a buffer -/
theorem captureTestOutput_body_source : Rapid.Generated.body_captureTestOutput =
    ["{", "var b bytes.Buffer",
     "l := log.New(&b, fmt.Sprintf(\"[%v] \", tb.Name()), log.Lmsgprefix|log.Ldate|log.Ltime|log.Lmicroseconds)",
     "_ = checkOnce(newT(tb, newBufBitStream(buf, false), false, l), prop)", "return b.Bytes()", "}"] := by rfl

/-- `Generator.Draw` re-read from /repo statement by statement: the logged line `[rapid] draw <label>: <value>` prints the value that is returned -/
theorem draw_source : Rapid.Generated.body_Generator_Draw =
    ["{", "if t.tbLog {", "t.tb.Helper()", "}", "v := g.value(t)", "if len(t.refDraws) > 0 {",
     "ref := t.refDraws[t.draws]", "if !reflect.DeepEqual(v, ref) {",
     "t.tb.Fatalf(\"draw %v differs: %#v vs expected %#v\", t.draws, v, ref)", "}", "}",
     "if t.tbLog || t.rawLog != nil {", "if label == \"\" {", "label = fmt.Sprintf(\"#%v\", t.draws)", "}",
     "if t.tbLog {", "t.tb.Helper()", "}", "t.Logf(\"[rapid] draw %v: %#v\", label, v)", "}", "t.draws++",
     "return v", "}"] := by rfl

end Rapid.C01
