/-
  C01 — a reported failure is real.

  Full statement (for every property `p`, every seed, checks, fail-file set, early-exit
  oracle and EVERY candidate sequence of the shrinker — i.e. minimization cut short at any
  point): if `checkTB` reports a failure, the reported buffer makes `p` fail with the reported
  error when run on a fresh `*T`; the verdict is never "flaky"; a reported error is never an
  invalid (skipped) test case.

  Hypothesis `PruneStable p`: the pruned recording of a failing run of `p` fails the same way
  (L-PS).  It is proved for generator classes in `RapidProofs/PruneStable*.lean`; it is false
  for programs in which an action is skipped after consuming bits of a discarded group
  (known finding D2), which is why it is a hypothesis here and not a lemma about all `Prog`.
-/
import RapidProofs.PruneProp
import RapidProofs.PruneCustom

namespace Rapid.C01

/-- the buffer and error handed to `checkTB` reproduce; both errors have the same traceback -/
theorem reported_failure_replays (p : Prog) (hps : PruneStable p) (checks : Nat) (seed : UInt64)
    (files : List FF) (early : Nat → Bool) (cands : List (List UInt64)) :
    let d := doCheck p checks seed files early cands
    (d.err1.isSome ∨ d.err2.isSome) →
      tbKey d.err1 = tbKey d.err2 ∧ d.err2 = (checkOnce p (.buf d.buf) TS.fresh).err ∧
      ∃ e, d.err2 = some e ∧ e.isInvalid = false :=
  doCheck_reported p hps checks seed files early cands

/-- never flaky; "failed after …" names an error that the final replay reproduces -/
theorem never_flaky_and_final_replay_fails (p : Prog) (hps : PruneStable p) (checks : Nat) (seed : UInt64)
    (files : List FF) (early : Nat → Bool) (cands : List (List UInt64)) :
    match verdict checks (doCheck p checks seed files early cands) with
    | .flaky _ _ => False
    | .failed _ e _ buf => (checkOnce p (.buf buf) TS.fresh).err = some e ∧ e.isInvalid = false
    | _ => True :=
  verdict_of_doCheck p hps checks seed files early cands

/-- no phantom failure: the test case `findBug` blames fails by itself, on a fresh `*T` -/
theorem blamed_case_fails (p : Prog) (checks : Nat) (seed : UInt64) (early : Nat → Bool) (e : Err)
    (h : (findBug p checks seed early).err = some e) :
    e.isInvalid = false ∧
    (checkOnce p (.rng (Jsf.init (findBug p checks seed early).seed)) TS.fresh).err = some e :=
  findBugLoop_blame p checks early _ 0 0 seed TS.fresh [] e clean_fresh h

/-- the shrinker never sees its second run disagree with the first -/
theorem no_mid_shrink_mismatch (p : Prog) (s : Shr) (c d : List UInt64) (e : Option Err) :
    accept p s c ≠ .mismatch d e := accept_no_mismatch p s c d e

/-- **L-PS discharged**: for property functions that draw from any nesting of the built-in
    generators (no Custom) and use the `*T` API, the hypothesis `PruneStable` holds whenever
    failing test cases end with the body producing a value or a failure (`BodyGood`; it
    excludes "Errorf, then Skip" and running out of model fuel) -/
theorem pruneStable_of_property (e : Env) (hrt : RTPos e) (p : Prog) (hp : PropProg e p) (hbg : BodyGood p) :
    PruneStable p := pruneStable_of_ps (propProg_ps e hrt hp) hbg

/-- end to end: such a property is never reported as flaky and the final replay fails as reported,
    for every seed, checks, fail files, clock and candidate sequence of the shrinker -/
theorem reported_failure_is_real (e : Env) (hrt : RTPos e) (p : Prog) (hp : PropProg e p) (hbg : BodyGood p)
    (checks : Nat) (seed : UInt64) (files : List FF) (early : Nat → Bool) (cands : List (List UInt64)) :
    match verdict checks (doCheck p checks seed files early cands) with
    | .flaky _ _ => False
    | .failed _ er _ buf => (checkOnce p (.buf buf) TS.fresh).err = some er ∧ er.isInvalid = false
    | _ => True :=
  verdict_of_doCheck p (pruneStable_of_property e hrt p hp hbg) checks seed files early cands

/-- the same with `Custom` generators nested to any depth `d`, whose functions draw, branch, skip,
    panic and register quiet cleanups but do not call `T.Error*/Fatal*` (`GenLvl`, `PropProgC`) -/
theorem pruneStable_of_property_with_custom (e : Env) (hrt : RTPos e) (d : Nat) (p : Prog) (hp : PropProgC e d p)
    (hbg : BodyGood p) : PruneStable p := pruneStable_of_ps (propProgC_ps e hrt hp) hbg

theorem reported_failure_is_real_with_custom (e : Env) (hrt : RTPos e) (d : Nat) (p : Prog) (hp : PropProgC e d p)
    (hbg : BodyGood p) (checks : Nat) (seed : UInt64) (files : List FF) (early : Nat → Bool) (cands : List (List UInt64)) :
    match verdict checks (doCheck p checks seed files early cands) with
    | .flaky _ _ => False
    | .failed _ er _ buf => (checkOnce p (.buf buf) TS.fresh).err = some er ∧ er.isInvalid = false
    | _ => True :=
  verdict_of_doCheck p (pruneStable_of_property_with_custom e hrt d p hp hbg) checks seed files early cands

/-- properties that fail only fatally (Fatal*/FailNow/panic) satisfy `BodyGood` -/
theorem bodyGood_of_fatal_only (p : Prog) (hp : TsPure p) (hfuel : ∀ src, (p.run src TS.fresh).res ≠ .error .fuel) :
    BodyGood p := bodyGood_of_pure hp hfuel

/-- non-vacuity: a concrete property with a failing run (site 7) satisfies the hypotheses of
    `blamed_case_fails` at the level of one test case -/
example : (checkOnce (Prog.fatal "boom" 7) (.buf []) TS.fresh).err = some (.stop "boom" 7) := by
  decide

end Rapid.C01
