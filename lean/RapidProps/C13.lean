/-
  C13 — MakeFuzz is total and faithful on arbitrary bytes.
  Totality of `checkFuzz` in the model is by construction (every Lean function is total); that
  the CODE is total on arbitrary bytes is what the correspondence and the monitor exercise.
-/
import RapidModel.Generated.CallOrders
import RapidProofs.Shrink
import RapidProofs.TranslatedFuzzEq

namespace Rapid.C13

theorem wordsOfBytes_nil : wordsOfBytes [] = [] := by
  unfold wordsOfBytes; simp

theorem wordsOfBytes_cons (b : UInt8) (bs : List UInt8) :
    wordsOfBytes (b :: bs) = wordOfBytes ((b :: bs).take 8) :: wordsOfBytes ((b :: bs).drop 8) := by
  rw [wordsOfBytes]; simp

/-- `⌈n/8⌉` words -/
theorem words_length : ∀ (n : Nat) (bs : List UInt8), bs.length = n → (wordsOfBytes bs).length = (n + 7) / 8 := by
  intro n
  induction n using Nat.strongRecOn with
  | _ n ih =>
    intro bs hl
    cases bs with
    | nil => simp at hl; subst hl; simp [wordsOfBytes_nil]
    | cons b bs =>
      rw [wordsOfBytes_cons, List.length_cons]
      have hd : ((b :: bs).drop 8).length = n - 8 := by simp [List.length_drop] at hl ⊢; omega
      have hn : 0 < n := by simp at hl; omega
      rw [ih (n - 8) (by omega) _ hd]
      omega

/-- a word is the little-endian value of its bytes -/
theorem word_little_endian (b0 b1 : UInt8) : wordOfBytes [b0, b1] = b0.toUInt64 ||| (b1.toUInt64 <<< 8) := by
  simp [wordOfBytes]

/-- **faithful**: the fuzz target is the test case on the words of the input, with the
    outcome mapped `no error ↦ pass`, `invalid ↦ skip`, `anything else ↦ fail` -/
theorem faithful (p : Prog) (input : List UInt8) :
    checkFuzz p input =
      match (checkOnce p (.buf (wordsOfBytes input)) TS.fresh).err with
      | none => .pass
      | some e => if e.isInvalid then .skip else .fail e := rfl

/-- it fails iff the test case is falsified -/
theorem fails_iff_falsified (p : Prog) (input : List UInt8) (e : Err) :
    checkFuzz p input = .fail e ↔
      (checkOnce p (.buf (wordsOfBytes input)) TS.fresh).err = some e ∧ e.isInvalid = false := by
  rw [faithful]
  cases h : (checkOnce p (.buf (wordsOfBytes input)) TS.fresh).err with
  | none => simp
  | some e' =>
    by_cases hi : e'.isInvalid = true
    · simp only [hi, if_true]
      constructor
      · intro h'; cases h'
      · rintro ⟨h1, h2⟩; simp only [Option.some.injEq] at h1; subst h1; simp [hi] at h2
    · simp only [hi, Bool.false_eq_true, if_false, FuzzOut.fail.injEq, Option.some.injEq]
      constructor
      · intro h'; subst h'; exact ⟨rfl, by simpa using hi⟩
      · rintro ⟨h1, _⟩; exact h1

/-- words the test case did not consume are irrelevant: the outcome on the recorded words
    followed by anything is the outcome on the recorded words -/
theorem unconsumed_words_irrelevant (p : Prog) (ws xs : List UInt64)
    (h : (checkOnce p (.buf ws) TS.fresh).overran = false) :
    (checkOnce p (.buf ((checkOnce p (.buf ws) TS.fresh).used ++ xs)) TS.fresh).err = (checkOnce p (.buf ws) TS.fresh).err := by
  rw [checkOnce_replay p (.buf ws) TS.fresh xs h]

example : wordsOfBytes [1, 2, 0, 0, 0, 0, 0, 0, 3] = [513, 3] := by
  simp only [wordsOfBytes_cons, wordsOfBytes_nil, wordOfBytes, List.take, List.drop]; decide

/-! ### facts re-read from /repo's source on every run -/

/-- `checkFuzz`: decode loop, fresh T on the buffer, one `checkOnce`, then the outcome switch -/
theorem checkFuzz_order_source :
    Rapid.Generated.order_checkFuzz = ["call tb.Helper", "stmt", "for", "call newT", "call checkOnce", "stmt"] := by decide

/-! ### the translated source -/

/-- **the statements of `checkFuzz` that turn the input bytes into the buffer of the bit stream, as translated
    from /repo's engine.go on every run, compute `wordsOfBytes`** — for every input (shorter than 2^63 bytes,
    as every Go slice is): the loop ends, nothing panics, and the buffer is the sequence of little-endian
    words of the input, the last one padded with zero bytes (a scratch array that keeps bytes of the previous
    word, a dropped tail, another byte order all change the translated loop and break this proof) -/
theorem source_fuzz_words (input : List UInt8) (fuel : Nat) (hsz : input.length < 2 ^ 63) (hf : input.length < fuel) :
    Rapid.Translated.checkFuzz_words input fuel = .ok (wordsOfBytes input) :=
  tr_checkFuzz_words input fuel hsz hf

/-- … hence the fuzz target decides by the test case on the words the **source** computes -/
theorem source_faithful (p : Prog) (input : List UInt8) (fuel : Nat) (ws : List UInt64)
    (hsz : input.length < 2 ^ 63) (hf : input.length < fuel)
    (hw : Rapid.Translated.checkFuzz_words input fuel = .ok ws) :
    checkFuzz p input =
      match (checkOnce p (.buf ws) TS.fresh).err with
      | none => .pass
      | some e => if e.isInvalid then .skip else .fail e := by
  rw [source_fuzz_words input fuel hsz hf] at hw
  cases hw
  rfl

example : Rapid.Translated.checkFuzz_words [1, 2, 0, 0, 0, 0, 0, 0, 3] 5 = .ok [513, 3] := by rfl

end Rapid.C13
