/-
  C16 — saving a fail file is atomic with respect to process crashes.
  A crash point is a position in the list of file-system operations issued by `saveFailFile`
  (mkdir, create-exclusive of a fresh temporary name, each write, close, rename, unlink); the
  order of these calls is re-read from the source on every run (Generated/CallOrders.lean) and
  compared with the real system calls (strace) by the correspondence check.
-/
import RapidModel.Generated.CallOrders
import RapidModel.Generated.Consts
import RapidProofs.FsAtomic

namespace Rapid.C16

/-- killed after ANY prefix of the operations: every path other than the temporary file is
    untouched, or it is the final name and holds the complete content -/
theorem prefix_safe (fs0 : Fs) (dir tmp final : String) (chunks : List Bytes)
    (hfresh : fs0.get tmp = none) (hne : final ≠ tmp) (pre post : List FsOp)
    (h : saveOps dir tmp final chunks = pre ++ post) (q : String) (hq : q ≠ tmp) :
    SafeAt fs0 (applyOps fs0 pre) final chunks.flatten q :=
  save_prefix_safe fs0 dir tmp final chunks hfresh hne pre post h q hq

/-- the temporary file is not picked up by the fail-file pattern `<name>-*.fail`: a name whose
    last character differs from the last character of ".fail" does not match -/
theorem temporary_name_not_matched (pre suf name : List Nat) (hs : suf ≠ [])
    (hlast : name.getLast? ≠ suf.getLast?) : starMatch pre suf name = false :=
  tmp_not_matched pre suf name hs hlast

example : (saveOps "d" "d/.tmp1" "d/x.fail" [[1], [2, 3]]).length = 7 := by decide

/-! ### facts re-read from /repo's source on every run -/

/-- the file-system calls of `saveFailFile` in source order: MkdirAll, CreateTemp, (deferred Remove,
    Close), the writes, Close, Rename — nothing touches the final name before the rename -/
theorem save_order_source :
    Rapid.Generated.order_saveFailFile = ["os.MkdirAll", "os.CreateTemp", "defer os.Remove", "defer f.Name",
      "defer f.Close", "f.WriteString", "f.WriteString", "f.Close", "os.Rename", "f.Name"] := by decide

theorem tmp_pattern_source : Rapid.Generated.c_failfileTmpPattern = ".rapid-failfile-tmp-*" := by decide

end Rapid.C16
