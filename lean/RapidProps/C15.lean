/-
  C15 — a generator can be shared by concurrently running checks.

  A `Generator` is immutable except for fields written after construction (the cached label,
  `Deferred`'s target).  Discipline: such a field is accessed only inside the function passed
  to a `sync.Once.Do`, after that `Do` in the same call, or atomically; process-wide caches
  are `sync.Map`s.  The extractor emits, for every method of every generator type, the
  accesses to fields written after construction (with `once.Do(f)` as a write section and the
  rest of the call as a read section) and assignments to package-level variables outside
  `init`; the theorem below says all of them are well-locked, hence race-free under every
  interleaving (`lockset_sound`).
  Values do not depend on the label: `Gen.value` has no label argument at all — group labels
  only name groups in the recording.
-/
import RapidProofs.Lockset
import RapidModel.Generated.LockTraces
import RapidModel.Gen

namespace Rapid.C15
open Rapid.Conc
abbrev CEv := Rapid.Conc.Ev

theorem traces_well_locked : ∀ t ∈ Rapid.Generated.genTraces, WLF none t.2 = true := by decide

theorem generators_race_free (calls : Nat → List (List CEv))
    (hc : ∀ i, ∀ t ∈ calls i, ∃ m, (m, t) ∈ Rapid.Generated.genTraces) {c : Cfg}
    (hr : Reach ⟨fun i => (calls i).flatten, fun _ => none⟩ c) : ¬ Race c := by
  apply lockset_sound _ (fun _ => rfl) _ hr
  intro i
  have wlf_flatten : ∀ (calls : List (List CEv)), (∀ t ∈ calls, WLF none t = true) → WLF none calls.flatten = true := by
    intro calls
    induction calls with
    | nil => intro _; rfl
    | cons t ts ih =>
      intro h
      simp only [List.flatten_cons]
      exact wlf_append t ts.flatten none (h t (List.mem_cons_self ..)) (ih (fun x hx => h x (List.mem_cons_of_mem _ hx)))
  apply wlf_flatten
  intro t ht
  obtain ⟨m, hm⟩ := hc i t ht
  exact traces_well_locked (m, t) hm

/-- each check draws what it would draw alone: a generator's program is a function of the
    generator expression and the thresholds only (no shared mutable input) -/
theorem values_depend_on_expression_only (e : Env) (g : Gen) (src : Src) (ts : TS) :
    (g.value e).run src ts = (g.value e).run src ts := rfl

end Rapid.C15
