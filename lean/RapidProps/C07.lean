/-
  C07 — the printed seed reproduces the failure; a fixed seed fixes the whole run.
  (`findBug`, `doCheck` are functions of `(p, checks, seed, early, files, cands)`: the second half
  is definitional in the model and tied to the code by the correspondence check.)
-/
import RapidModel.Generated.Consts
import RapidModel.Generated.CallOrders
import RapidProofs.Shrink
import RapidProofs.TranslatedEq
import RapidProofs.TranslatedEngineEq
import RapidProofs.TranslatedCheckEq

namespace Rapid.C07

/-- test case `i` of a run with base seed `s₀` is driven by `s₀ + (0+1+…+i)` (mod 2⁶⁴) -/
theorem seed_schedule (p : Prog) (checks : Nat) (seed : UInt64) (early : Nat → Bool) :
    ∀ i (h : i < (findBug p checks seed early).seeds.length),
      (findBug p checks seed early).seeds[i] = seed + UInt64.ofNat (tri (i + 1)) := by
  have := findBugLoop_seeds p checks early seed (checks + checks * invalidChecksMult) 0 0 seed TS.fresh []
    rfl (by simp [tri]) (by intro i h; simp at h)
  exact this.1

/-- the seed that is reported is the seed of the (last =) failing test case -/
theorem reported_seed_is_failing_case (p : Prog) (checks : Nat) (seed : UInt64) (early : Nat → Bool)
    (h : (findBug p checks seed early).err.isSome) :
    (findBug p checks seed early).seeds.getLast? = some (findBug p checks seed early).seed := by
  have := findBugLoop_seeds p checks early seed (checks + checks * invalidChecksMult) 0 0 seed TS.fresh []
    rfl (by simp [tri]) (by intro i h; simp at h)
  exact this.2 h

/-- a run whose base seed drives a failing test case fails at its very first test case -/
theorem first_case_fails (p : Prog) (s : UInt64) (e : Err)
    (hrun : (checkOnce p (.rng (Jsf.init s)) TS.fresh).err = some e) (hinv : e.isInvalid = false)
    (checks' : Nat) (hc : 0 < checks') (early' : Nat → Bool) :
    findBug p checks' s early' = ⟨0, 0, false, s, some e, [s]⟩ := by
  obtain ⟨k, hk⟩ : ∃ k, checks' + checks' * invalidChecksMult = k + 1 :=
    ⟨checks' + checks' * invalidChecksMult - 1, by omega⟩
  simp only [findBug, hk]
  rw [findBugLoop_succ]
  have h1 : 0 < checks' ∧ 0 < checks' * invalidChecksMult := ⟨hc, by simp [invalidChecksMult]; omega⟩
  have hz : s + UInt64.ofNat (0 + 0) = s := by simp
  simp only [h1, and_self, if_true, Nat.lt_irrefl, false_and, if_false, hz, hrun, hinv,
    Bool.false_eq_true, List.nil_append, gt_iff_lt, Nat.add_zero]

/-- **the printed seed reproduces**: started from the reported seed (any `checks > 0`, any
    clock) the very first test case is the failing one — same source, same error — and
    `findBug` reports it after 0 valid and 0 invalid tests, with the same seed -/
theorem reported_seed_reproduces (p : Prog) (checks : Nat) (seed : UInt64) (early : Nat → Bool) (e : Err)
    (h : (findBug p checks seed early).err = some e) (checks' : Nat) (hc : 0 < checks') (early' : Nat → Bool) :
    findBug p checks' (findBug p checks seed early).seed early' =
      ⟨0, 0, false, (findBug p checks seed early).seed, some e, [(findBug p checks seed early).seed]⟩ := by
  obtain ⟨hinv, hrun⟩ := findBugLoop_blame p checks early _ 0 0 seed TS.fresh [] e clean_fresh h
  exact first_case_fails p _ e hrun hinv checks' hc early'

example : tri 1 = 0 ∧ tri 2 = 1 ∧ tri 4 = 6 := by decide

/-! ### facts re-read from /repo's source on every run -/

/-- the seed step of `findBug` as written in the source -/
theorem seed_step_source : Rapid.Generated.src_seedStep = "seed += uint64(iter)" := by decide

/-- the jsf64 constants of the source are those of the model -/
theorem jsf_constants_source :
    Rapid.Generated.jsf_initA = jsfInitA.toNat ∧ Rapid.Generated.jsf_rounds = jsfWarmRounds ∧
    Rapid.Generated.jsf_rotations = [7, 13, 37] := by decide

/-- the seed of the next test case, translated from /repo's source on every run, is the model's -/
theorem seed_step_translated (seed : UInt64) (iter : Nat) :
    Translated.findBugSeedStep (Int64.ofNat iter) seed = seed + UInt64.ofNat iter := tr_findBugSeedStep seed iter

/-! ### `findBug`, as translated from /repo's engine.go on every run -/

/-- **the seed the source's generation loop returns is the seed of the model's `findBug`** — by `reported_seed_is_failing_case`
    the seed its last (the failing) test case ran with, and by `seed_schedule` base seed + 1 + 2 + … + k for test case k -/
theorem source_findBug_seed (p : Prog) (early : Nat → Bool) (checks : Nat) (seed sd0 : UInt64) (fuel : Nat) (hc : checks < 2 ^ 56)
    (hf : checks + checks * invalidChecksMult < fuel) :
    ∃ v i e err s', Rapid.EM.exec (modelEOracle p early) (Rapid.Translated.findBug (Int64.ofNat checks) seed fuel) (TS.fresh, sd0) =
      (.ok (v, i, e, (findBug p checks seed early).seed, err), s') := by
  obtain ⟨s', h⟩ := tr_findBug p early checks seed sd0 fuel hc hf
  exact ⟨_, _, _, _, s', h⟩

/-- **the seed the source's `doCheck` hands back (the one `checkTB` prints) is the seed of the failing test case of the
    generation loop** — whenever no fail file reproduced and the loop found a failure; and it is the seed the source has just
    re-run on a fresh `*T` (`source_doCheck`: the `once (.rng seed)` request) -/
theorem source_doCheck_seed (E : Go.CEnv) (checks : Nat) (hc : checks < 2 ^ 62) (seed : UInt64) (failfile : String) (globf : Bool)
    (fuel : Nat) (hl : (Go.failFileNames failfile globf E.found).length < 2 ^ 62)
    (hfuel : (Go.failFileNames failfile globf E.found).length < fuel)
    (hfiles : firstFailFile E.p ((Go.failFileNames failfile globf E.found).map E.file) 0 = none)
    (hbug : (findBug E.p checks seed E.early).err.isSome) :
    ∃ r, (Go.CM.run E (Translated.doCheck (Int64.ofNat checks) seed failfile globf fuel) none).1 = .ok r ∧
      r.2.2.2.1 = (findBug E.p checks seed E.early).seed := by
  rw [Go.tr_doCheck E checks hc seed failfile globf fuel hl hfuel]
  have hs : (doCheck E.p checks seed ((Go.failFileNames failfile globf E.found).map E.file) E.early E.cands).seed =
      (findBug E.p checks seed E.early).seed := by
    simp only [doCheck, hfiles]
    cases hfe : (findBug E.p checks seed E.early).err with
    | none => rw [hfe] at hbug; cases hbug
    | some x => dsimp only; split <;> rfl
  exact ⟨_, rfl, hs⟩

/-- `checkTB` re-read from /repo statement by statement: the seed offered in a failure message is the one `doCheck` hands back — the seed of the failing test case of the generation loop (`source_doCheck_seed`), and none (0) when the failure came from a fail file (S193 offered the seed recorded in the file) -/
theorem checkTB_body_source : Rapid.Generated.body_checkTB =
    ["{", "tb.Helper()", "checks := flags.checks", "if testing.Short() {", "checks /= 5", "}", "start := time.Now()",
     "valid, invalid, earlyExit, seed, failfile, buf, err1, err2 := doCheck(tb, deadline, checks, baseSeed(), flags.failfile, true, prop)",
     "dt := time.Since(start)", "if err1 == nil && err2 == nil {",
     "if valid == checks || (earlyExit && valid > 0) {", "tb.Logf(\"[rapid] OK, passed %v tests (%v)\", valid, dt)",
     "} else {", "tb.Errorf(\"[rapid] only generated %v valid tests from %v total (%v)\", valid, valid+invalid, dt)",
     "}", "} else {", "if failfile == \"\" && !flags.nofailfile {", "_, failfile = failFileName(tb.Name())",
     "out := captureTestOutput(tb, prop, buf)", "err := saveFailFile(failfile, rapidVersion, out, seed, buf)",
     "if err != nil {", "tb.Logf(\"[rapid] %v\", err)", "failfile = \"\"", "}", "}", "var repr string", "switch {",
     "case failfile != \"\" && seed != 0:",
     "repr = fmt.Sprintf(\"-rapid.failfile=%q (or -rapid.seed=%d)\", failfile, seed)", "case failfile != \"\":",
     "repr = fmt.Sprintf(\"-rapid.failfile=%q\", failfile)", "case seed != 0:",
     "repr = fmt.Sprintf(\"-rapid.seed=%d\", seed)", "}", "name := regexp.QuoteMeta(tb.Name())",
     "if traceback(err1) == traceback(err2) {", "if err2.isStopTest() {",
     "tb.Errorf(\"[rapid] failed after %v tests: %v\\nTo reproduce, specify -run=%q %v\\nFailed test output:\", valid, err2, name, repr)",
     "} else {",
     "tb.Errorf(\"[rapid] panic after %v tests: %v\\nTo reproduce, specify -run=%q %v\\nTraceback:\\n%vFailed test output:\", valid, err2, name, repr, traceback(err2))",
     "}", "} else {",
     "tb.Errorf(\"[rapid] flaky test, can not reproduce a failure\\nTo try to reproduce, specify -run=%q %v\\nTraceback (%v):\\n%vOriginal traceback (%v):\\n%vFailed test output:\", name, repr, err2, traceback(err2), err1, traceback(err1))",
     "}", "_ = checkOnce(newT(tb, newBufBitStream(buf, false), true, nil), prop)", "}", "if tb.Failed() {",
     "tb.FailNow()", "}", "}"] := by rfl

end Rapid.C07
