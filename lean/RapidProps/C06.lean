/-
  C06 — a failure is persisted and automatically replayed first on the next run.
-/
import RapidModel.Generated.Consts
import RapidProofs.Shrink
import RapidModel.Persist
import RapidProofs.RoundTrip
import RapidProofs.TranslatedPersistEq

namespace Rapid.C06

/-- a file name built as `<prefix><anything without '/'>.fail` matches `<prefix>*.fail` -/
theorem name_matches_pattern (pre mid suf : List Nat) (h : ¬ mid.contains 47) :
    starMatch pre suf (pre ++ mid ++ suf) = true := by
  simp only [starMatch, Bool.and_eq_true, Bool.not_eq_true', decide_eq_true_eq]
  refine ⟨⟨⟨?_, ?_⟩, ?_⟩, ?_⟩
  · rw [List.append_assoc]; exact List.isPrefixOf_iff_prefix.mpr (List.prefix_append _ _)
  · exact List.isSuffixOf_iff_suffix.mpr (List.suffix_append _ _)
  · simp
  · have : ((pre ++ mid ++ suf).drop pre.length).take ((pre ++ mid ++ suf).length - pre.length - suf.length) = mid := by
      rw [List.append_assoc, List.drop_left]
      have : (pre ++ (mid ++ suf)).length - pre.length - suf.length = mid.length := by simp
      rw [this, List.take_left]
    rw [this]; simpa using h

/-- the sanitised test name contains only letters, digits, '-' and '_' — in particular no path
    separator and no glob metacharacter (for every classification of runes that puts none of
    them among letters/digits, which `unicode` satisfies) -/
theorem safe_name_alphabet (isLD : Nat → Bool) (reserved : List Nat → Bool) (name : List Nat) :
    ∀ r ∈ safeName isLD reserved name, isLD r = true ∨ r = 45 ∨ r = 95 := by
  intro r hr
  simp only [safeName] at hr
  split at hr
  · simp only [List.mem_append, List.mem_map, List.mem_singleton] at hr
    rcases hr with ⟨x, _, hx⟩ | hr
    · split at hx
      · rename_i h; subst hx; simpa using h
      · right; right; exact hx.symm
    · right; right; exact hr
  · simp only [List.mem_map] at hr
    obtain ⟨x, _, hx⟩ := hr
    split at hx
    · rename_i h; subst hx; simpa using h
    · right; right; exact hx.symm

/-- a loadable fail file whose test case still fails is reported before any random test case -/
theorem replayed_first (p : Prog) (checks : Nat) (seed : UInt64) (files : List FF) (early : Nat → Bool)
    (cands : List (List UInt64)) (r : Nat × List UInt64 × Option Err × Option Err)
    (h : firstFailFile p files 0 = some r) :
    (doCheck p checks seed files early cands).seeds = [] ∧ (doCheck p checks seed files early cands).valid = 0 ∧
    (doCheck p checks seed files early cands).buf = r.2.1 := by
  simp [doCheck, h]

/-- …and replaying the persisted words reproduces the persisted test case exactly -/
theorem persisted_case_replays (p : Prog) (src : Src) (h : (checkOnce p src TS.fresh).overran = false) :
    checkOnce p (.buf (checkOnce p src TS.fresh).used) TS.fresh = { checkOnce p src TS.fresh with src := .buf [] } := by
  have := checkOnce_replay p src TS.fresh [] h
  simpa using this

/-- **the fail-file format round-trips**: whatever the test logged — any bytes, nothing, lines of
    any length, '#', '\r', no final newline — `loadFailFile` reads back exactly the version, the
    seed and every word that `saveFailFile` wrote -/
theorem save_load_round_trip (v : Bytes) (hv : VersionOK v) (output : Bytes) (seed : UInt64) (buf : List UInt64) :
    loadBytes (saveBytes v output seed buf) = .ok (v, seed, buf) := load_save v hv output seed buf

/-- the current version string is one the format can carry; its bytes are the ASCII codes of
    `rapidVersion` (which `version_source` ties to the source) -/
theorem current_version_ok : VersionOK versionBytes ∧
    rapidVersion.toList.map (fun c => c.toNat) = versionBytes.map (fun b => b.toNat) :=
  ⟨versionOK_current, by decide⟩

/-- in particular the empty test case and the empty output -/
example : loadBytes (saveBytes versionBytes [] 0 []) = .ok (versionBytes, 0, []) :=
  load_save _ versionOK_current _ _ _

/-! ### facts re-read from /repo's source on every run -/

theorem version_source : Rapid.Generated.c_rapidVersion = rapidVersion := by decide

/-! ### persist.go, translated from /repo on every run -/

/-- **what `saveFailFile` of /repo writes into the file is the model's `saveBytes`** (the comment lines, the header
    `version#seed`, one `0x…` line per word, joined by newlines), and it reports no error of its own -/
theorem source_saveFailFile (version output : Bytes) (seed : UInt64) (buf : List UInt64) (fuel : Nat)
    (ho : output.length < 2 ^ 61) (hb : buf.length < 2 ^ 62) (hf1 : output.length + 1 < fuel) (hf2 : buf.length < fuel) :
    Rapid.Translated.saveFailFile_bytes version output seed buf fuel = .ok (saveBytes version output seed buf, false) :=
  tr_saveFailFile version output seed buf fuel ho hb hf1 hf2

/-- **`loadFailFile` of /repo, from the lines of the file on, is the model's `loadBytes`**: the same version, seed and words, and
    an error exactly when the model has one (no data, a header that is not `version#seed`, a seed or a word that is not a number
    of at most 64 bits) -/
theorem source_loadFailFile (bs : Bytes) (fuel : Nat) (hl : (scanLines bs).length < 2 ^ 61) (hf : (scanLines bs).length + 1 < fuel)
    (hlines : ∀ l ∈ scanLines bs, (trimSpace l).length < 2 ^ 61) :
    Rapid.Translated.loadFailFile_bytes (scanLines bs) fuel = .ok (loadT (loadBytes bs)) :=
  tr_loadFailFile bs fuel hl hf hlines

/-- **the round trip for the source**: what the source's `saveFailFile` wrote, read by the source's `loadFailFile`, gives back the
    version, the seed and every word, and no error — for every version string the format can carry, every captured output, seed
    and bitstream (the file being shorter than 2^61 lines of fewer than 2^61 bytes) -/
theorem source_save_load_round_trip (v : Bytes) (hv : VersionOK v) (output : Bytes) (seed : UInt64) (buf : List UInt64) (fuel : Nat)
    (ho : output.length < 2 ^ 61) (hb : buf.length < 2 ^ 62) (hf1 : output.length + 1 < fuel) (hf2 : buf.length < fuel)
    (hl : (scanLines (saveBytes v output seed buf)).length < 2 ^ 61) (hf : (scanLines (saveBytes v output seed buf)).length + 1 < fuel)
    (hlines : ∀ l ∈ scanLines (saveBytes v output seed buf), (trimSpace l).length < 2 ^ 61) :
    (Rapid.Translated.saveFailFile_bytes v output seed buf fuel >>= fun w =>
      Rapid.Translated.loadFailFile_bytes (scanLines w.1) fuel) = .ok (v, seed, buf, false) := by
  rw [source_saveFailFile v output seed buf fuel ho hb hf1 hf2]
  show Rapid.Translated.loadFailFile_bytes (scanLines (saveBytes v output seed buf)) fuel = _
  rw [source_loadFailFile _ fuel hl hf hlines, save_load_round_trip v hv output seed buf]
  rfl

/-- the hypotheses are satisfiable -/
example : ∃ w, Rapid.Translated.saveFailFile_bytes [118, 49] [104, 105] 7 [255, 1] 10 = .ok (w, false) :=
  ⟨_, source_saveFailFile [118, 49] [104, 105] 7 [255, 1] 10 (by decide) (by decide) (by decide) (by decide)⟩

end Rapid.C06
