/-
  C06 — a failure is persisted and automatically replayed first on the next run.
-/
import RapidModel.Generated.Consts
import RapidModel.Generated.CallOrders
import RapidProofs.Shrink
import RapidModel.Persist
import RapidProofs.RoundTrip
import RapidProofs.TranslatedPersistEq
import RapidProofs.TranslatedCheckEq

namespace Rapid.C06

/-- a file name built as `<prefix><anything without '/'>.fail` matches `<prefix>*.fail` -/
theorem name_matches_pattern (pre mid suf : List Nat) (h : ¬ mid.contains 47) :
    starMatch pre suf (pre ++ mid ++ suf) = true := by
  simp only [starMatch, Bool.and_eq_true, Bool.not_eq_true', decide_eq_true_eq]
  refine ⟨⟨⟨?_, ?_⟩, ?_⟩, ?_⟩
  · rw [List.append_assoc]; exact List.isPrefixOf_iff_prefix.mpr (List.prefix_append _ _)
  · exact List.isSuffixOf_iff_suffix.mpr (List.suffix_append _ _)
  · simp
  · have : ((pre ++ mid ++ suf).drop pre.length).take ((pre ++ mid ++ suf).length - pre.length - suf.length) = mid := by
      rw [List.append_assoc, List.drop_left]
      have : (pre ++ (mid ++ suf)).length - pre.length - suf.length = mid.length := by simp
      rw [this, List.take_left]
    rw [this]; simpa using h

/-- the sanitised test name contains only letters, digits, '-' and '_' — in particular no path
    separator and no glob metacharacter (for every classification of runes that puts none of
    them among letters/digits, which `unicode` satisfies) -/
theorem safe_name_alphabet (isLD : Nat → Bool) (reserved : List Nat → Bool) (name : List Nat) :
    ∀ r ∈ safeName isLD reserved name, isLD r = true ∨ r = 45 ∨ r = 95 := by
  intro r hr
  simp only [safeName] at hr
  split at hr
  · simp only [List.mem_append, List.mem_map, List.mem_singleton] at hr
    rcases hr with ⟨x, _, hx⟩ | hr
    · split at hx
      · rename_i h; subst hx; simpa using h
      · right; right; exact hx.symm
    · right; right; exact hr
  · simp only [List.mem_map] at hr
    obtain ⟨x, _, hx⟩ := hr
    split at hx
    · rename_i h; subst hx; simpa using h
    · right; right; exact hx.symm

/-- a loadable fail file whose test case still fails is reported before any random test case -/
theorem replayed_first (p : Prog) (checks : Nat) (seed : UInt64) (files : List FF) (early : Nat → Bool)
    (cands : List (List UInt64)) (r : Nat × List UInt64 × Option Err × Option Err)
    (h : firstFailFile p files 0 = some r) :
    (doCheck p checks seed files early cands).seeds = [] ∧ (doCheck p checks seed files early cands).valid = 0 ∧
    (doCheck p checks seed files early cands).buf = r.2.1 := by
  simp [doCheck, h]

/-- **the source's `doCheck` replays a usable fail file before anything else**: when one of the files it looks at (the one named
    with `-rapid.failfile` first, then what the glob finds, in that order) holds a test case that still fails, the source hands
    back "0 valid, 0 invalid" — no random test case was generated —, the name of that file, its words and the errors of the two
    replays -/
theorem source_failfile_replayed_first (E : Go.CEnv) (checks : Nat) (hc : checks < 2 ^ 62) (seed : UInt64) (failfile : String)
    (globf : Bool) (fuel : Nat) (hl : (Go.failFileNames failfile globf E.found).length < 2 ^ 62)
    (hfuel : (Go.failFileNames failfile globf E.found).length < fuel)
    (i : Nat) (b : List UInt64) (e1 e2 : Option Err)
    (h : firstFailFile E.p ((Go.failFileNames failfile globf E.found).map E.file) 0 = some (i, b, e1, e2)) :
    (Go.CM.run E (Translated.doCheck (Int64.ofNat checks) seed failfile globf fuel) none).1 =
      .ok (0, 0, false, 0, (Go.failFileNames failfile globf E.found).getD i "", b, e1, e2) := by
  rw [Go.tr_doCheck E checks hc seed failfile globf fuel hl hfuel]
  simp [Go.dcOut, doCheck, h]

/-- …and replaying the persisted words reproduces the persisted test case exactly -/
theorem persisted_case_replays (p : Prog) (src : Src) (h : (checkOnce p src TS.fresh).overran = false) :
    checkOnce p (.buf (checkOnce p src TS.fresh).used) TS.fresh = { checkOnce p src TS.fresh with src := .buf [] } := by
  have := checkOnce_replay p src TS.fresh [] h
  simpa using this

/-- **the fail-file format round-trips**: whatever the test logged — any bytes, nothing, lines of
    any length, '#', '\r', no final newline — `loadFailFile` reads back exactly the version, the
    seed and every word that `saveFailFile` wrote -/
theorem save_load_round_trip (v : Bytes) (hv : VersionOK v) (output : Bytes) (seed : UInt64) (buf : List UInt64) :
    loadBytes (saveBytes v output seed buf) = .ok (v, seed, buf) := load_save v hv output seed buf

/-- the current version string is one the format can carry; its bytes are the ASCII codes of
    `rapidVersion` (which `version_source` ties to the source) -/
theorem current_version_ok : VersionOK versionBytes ∧
    rapidVersion.toList.map (fun c => c.toNat) = versionBytes.map (fun b => b.toNat) :=
  ⟨versionOK_current, by decide⟩

/-- in particular the empty test case and the empty output -/
example : loadBytes (saveBytes versionBytes [] 0 []) = .ok (versionBytes, 0, []) :=
  load_save _ versionOK_current _ _ _

/-! ### facts re-read from /repo's source on every run -/

theorem version_source : Rapid.Generated.c_rapidVersion = rapidVersion := by decide

/-! ### persist.go, translated from /repo on every run -/

/-- **what `saveFailFile` of /repo writes into the file is the model's `saveBytes`** (the comment lines, the header
    `version#seed`, one `0x…` line per word, joined by newlines), and it reports no error of its own -/
theorem source_saveFailFile (version output : Bytes) (seed : UInt64) (buf : List UInt64) (fuel : Nat)
    (ho : output.length < 2 ^ 61) (hb : buf.length < 2 ^ 62) (hf1 : output.length + 1 < fuel) (hf2 : buf.length < fuel) :
    Rapid.Translated.saveFailFile_bytes version output seed buf fuel = .ok (saveBytes version output seed buf, false) :=
  tr_saveFailFile version output seed buf fuel ho hb hf1 hf2

/-- **`loadFailFile` of /repo, from the lines of the file on, is the model's `loadBytes`**: the same version, seed and words, and
    an error exactly when the model has one (no data, a header that is not `version#seed`, a seed or a word that is not a number
    of at most 64 bits) -/
theorem source_loadFailFile (bs : Bytes) (fuel : Nat) (hl : (scanLines bs).length < 2 ^ 61) (hf : (scanLines bs).length + 1 < fuel)
    (hlines : ∀ l ∈ scanLines bs, (trimSpace l).length < 2 ^ 61) :
    Rapid.Translated.loadFailFile_bytes (scanLines bs) fuel = .ok (loadT (loadBytes bs)) :=
  tr_loadFailFile bs fuel hl hf hlines

/-- **the round trip for the source**: what the source's `saveFailFile` wrote, read by the source's `loadFailFile`, gives back the
    version, the seed and every word, and no error — for every version string the format can carry, every captured output, seed
    and bitstream (the file being shorter than 2^61 lines of fewer than 2^61 bytes) -/
theorem source_save_load_round_trip (v : Bytes) (hv : VersionOK v) (output : Bytes) (seed : UInt64) (buf : List UInt64) (fuel : Nat)
    (ho : output.length < 2 ^ 61) (hb : buf.length < 2 ^ 62) (hf1 : output.length + 1 < fuel) (hf2 : buf.length < fuel)
    (hl : (scanLines (saveBytes v output seed buf)).length < 2 ^ 61) (hf : (scanLines (saveBytes v output seed buf)).length + 1 < fuel)
    (hlines : ∀ l ∈ scanLines (saveBytes v output seed buf), (trimSpace l).length < 2 ^ 61) :
    (Rapid.Translated.saveFailFile_bytes v output seed buf fuel >>= fun w =>
      Rapid.Translated.loadFailFile_bytes (scanLines w.1) fuel) = .ok (v, seed, buf, false) := by
  rw [source_saveFailFile v output seed buf fuel ho hb hf1 hf2]
  show Rapid.Translated.loadFailFile_bytes (scanLines (saveBytes v output seed buf)) fuel = _
  rw [source_loadFailFile _ fuel hl hf hlines, save_load_round_trip v hv output seed buf]
  rfl

/-- the hypotheses are satisfiable -/
example : ∃ w, Rapid.Translated.saveFailFile_bytes [118, 49] [104, 105] 7 [255, 1] 10 = .ok (w, false) :=
  ⟨_, source_saveFailFile [118, 49] [104, 105] 7 [255, 1] 10 (by decide) (by decide) (by decide) (by decide)⟩

/-- `checkTB` re-read from /repo statement by statement: a failure is saved exactly when no fail file reproduced it and
    `-rapid.nofailfile` is off — under `failFileName(tb.Name())`, with `rapidVersion`, the captured output, the seed and the
    minimized words `doCheck` handed back —, and a save error only loses the file name in the message -/
theorem checkTB_body_source : Rapid.Generated.body_checkTB =
    ["{", "tb.Helper()", "checks := flags.checks", "if testing.Short() {", "checks /= 5", "}", "start := time.Now()",
     "valid, invalid, earlyExit, seed, failfile, buf, err1, err2 := doCheck(tb, deadline, checks, baseSeed(), flags.failfile, true, prop)",
     "dt := time.Since(start)", "if err1 == nil && err2 == nil {",
     "if valid == checks || (earlyExit && valid > 0) {", "tb.Logf(\"[rapid] OK, passed %v tests (%v)\", valid, dt)",
     "} else {", "tb.Errorf(\"[rapid] only generated %v valid tests from %v total (%v)\", valid, valid+invalid, dt)",
     "}", "} else {", "if failfile == \"\" && !flags.nofailfile {", "_, failfile = failFileName(tb.Name())",
     "out := captureTestOutput(tb, prop, buf)", "err := saveFailFile(failfile, rapidVersion, out, seed, buf)",
     "if err != nil {", "tb.Logf(\"[rapid] %v\", err)", "failfile = \"\"", "}", "}", "var repr string", "switch {",
     "case failfile != \"\" && seed != 0:",
     "repr = fmt.Sprintf(\"-rapid.failfile=%q (or -rapid.seed=%d)\", failfile, seed)", "case failfile != \"\":",
     "repr = fmt.Sprintf(\"-rapid.failfile=%q\", failfile)", "case seed != 0:",
     "repr = fmt.Sprintf(\"-rapid.seed=%d\", seed)", "}", "name := regexp.QuoteMeta(tb.Name())",
     "if traceback(err1) == traceback(err2) {", "if err2.isStopTest() {",
     "tb.Errorf(\"[rapid] failed after %v tests: %v\\nTo reproduce, specify -run=%q %v\\nFailed test output:\", valid, err2, name, repr)",
     "} else {",
     "tb.Errorf(\"[rapid] panic after %v tests: %v\\nTo reproduce, specify -run=%q %v\\nTraceback:\\n%vFailed test output:\", valid, err2, name, repr, traceback(err2))",
     "}", "} else {",
     "tb.Errorf(\"[rapid] flaky test, can not reproduce a failure\\nTo try to reproduce, specify -run=%q %v\\nTraceback (%v):\\n%vOriginal traceback (%v):\\n%vFailed test output:\", name, repr, err2, traceback(err2), err1, traceback(err1))",
     "}", "_ = checkOnce(newT(tb, newBufBitStream(buf, false), true, nil), prop)", "}", "if tb.Failed() {",
     "tb.FailNow()", "}", "}"] := by rfl

end Rapid.C06
