/-
  C11 — test cases are isolated.
-/
import RapidProofs.Shrink
import RapidModel.Generated.CallOrders

namespace Rapid.C11

/-- whatever a test case did, the `*T` it leaves behind has nothing pending: no failure, no
    cleanups, no context -/
theorem leaves_clean (p : Prog) (src : Src) (ts : TS) : Clean (checkOnce p src ts).ts :=
  checkOnce_clean_after p src ts

/-- on a clean `*T` a test case is judged exactly as on a fresh one: same error, same
    recording, same events — nothing carries over -/
theorem judged_on_its_own (p : Prog) (src : Src) (ts : TS) (h : Clean ts) :
    (checkOnce p src ts).err = (checkOnce p src TS.fresh).err ∧
    (checkOnce p src ts).used = (checkOnce p src TS.fresh).used ∧
    (checkOnce p src ts).kept = (checkOnce p src TS.fresh).kept ∧
    (checkOnce p src ts).evs = (checkOnce p src TS.fresh).evs ∧
    (checkOnce p src ts).src = (checkOnce p src TS.fresh).src :=
  checkOnce_clean p src h

/-- the test case `findBug` treats as falsifying is one that really signals that failure when
    run alone -/
theorem blamed_case_is_guilty (p : Prog) (checks : Nat) (seed : UInt64) (early : Nat → Bool) (e : Err)
    (h : (findBug p checks seed early).err = some e) :
    e.isInvalid = false ∧
    (checkOnce p (.rng (Jsf.init (findBug p checks seed early).seed)) TS.fresh).err = some e :=
  findBugLoop_blame p checks early _ 0 0 seed TS.fresh [] e clean_fresh h

/-- "Errorf then Skip": the pending non-fatal failure falsifies THIS test case -/
example : (checkOnce (.errorf "e" (Prog.skip "s")) (.buf []) TS.fresh).err = some (.stop "e" sitePending) := by
  decide
/-- a failure raised from a cleanup callback falsifies THIS test case -/
example : (checkOnce (.cleanup (.errorf "c" .done) (.ret .nil)) (.buf []) TS.fresh).err = some (.stop "c" sitePending) := by
  decide

/-- `runProp` re-read from /repo statement by statement: whatever ended the test case, the record of a skipping cleanup is *taken* (cleared) before the next test case runs on the reused `*T`; it makes the test case invalid only if nothing else ended it (S194 left it behind when the body had panicked) -/
theorem runProp_body_source : Rapid.Generated.body_runProp =
    ["{", "if t.tbLog {", "t.tb.Helper()", "}", "defer func() {", "err = panicToError(recover(), 3)",
     "if id := t.takeSkipped(); id != nil && err == nil {", "err = &testError{data: *id}", "}", "}()",
     "defer t.cleanup()", "prop(t)", "return nil", "}"] := by rfl

/-- `checkOnce` re-read from /repo statement by statement: `runProp`, then the pending non-fatal failure, then `resetFailed` on the reused `*T` -/
theorem checkOnce_body_source : Rapid.Generated.body_checkOnce =
    ["{", "if t.tbLog {", "t.tb.Helper()", "}", "err := runProp(t, prop)", "if err == nil || err.isInvalidData() {",
     "if failed := pendingFailure(t); failed != nil {", "err = failed", "}", "}", "t.resetFailed()", "return err",
     "}"] := by rfl

end Rapid.C11
