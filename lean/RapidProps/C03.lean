/-
  C03 — generated values always satisfy the generator's contract, for every bitstream.

  Proved here, for every bit source (PRNG state or arbitrary buffer), every parameter value and
  every continuation: the integer primitives hand on a value inside the requested range or
  raise invalid data / run out of model fuel — never an out-of-range value and never an
  assertion failure.  Every public integer generator, `SampledFrom`, `OneOf`, every length of
  a collection, every rune index goes through these primitives.  Signed ranges (the sign split
  and the negation, including -MinInt64), the length bounds of slices, distinct slices, maps of
  values and strings, key distinctness and the Filter predicate are theorems too; the remaining
  contracts (regexp, Make, the unicode tables behind Rune/String) are covered by the correspondence check +
  monitor (see DESIGN.md for what is theorem and what is validated).
  Floats: floats.go is integer arithmetic on IEEE-754 bit patterns; `Float32Range`/`Float64Range`
  are modelled on bit patterns (RapidModel/Float.lean) and the theorems below give, for every bit
  source and all non-NaN bounds `min ≤ max`: the value lies in `[min, max]` in the order of the
  real numbers, is never a NaN, is infinite only if a bound is infinite, and no assertion of
  `genUfloatRange`/`genUintRange`/`genIntRange` fires.
  Not provable here: termination of rejection loops on the PRNG (probabilistic); the dynamic
  Go type produced by `Make` (reflection).
-/
import RapidModel.Generated.Consts
import RapidModel.Generated.CallOrders
import RapidProofs.Contracts
import RapidProofs.ContractsGen
import RapidProofs.ContractsFloat
import RapidProofs.ContractsGen2
import RapidProofs.TranslatedEq
import RapidProofs.TranslatedProgEq
import RapidProofs.TranslatedFloatEq
import RapidProofs.TranslatedFindEq
import RapidProofs.TranslatedChoiceEq
import RapidProofs.TranslatedRepeatEq
import RapidProofs.ContractsRepeat
import RapidModel.Generated.Thresholds
import RapidModel.Minimize

namespace Rapid.C03

theorem uintNoReject_le (max : UInt64) : Yields (uintNoReject max) (fun u => u ≤ max) := yields_uintNoReject max

theorem uintN_le (ft : FT) (max : UInt64) (bias : Bool) (fuel : Nat) :
    Yields (fun (k : UInt64 × Bool × Bool → Prog) => uintN ft max bias fuel (fun u l r => k (u, l, r)))
      (fun x => x.1 ≤ max) := yields_uintN ft max bias fuel

theorem uintRange_mem (ft : FT) (min max : UInt64) (bias : Bool) (fuel : Nat) (h : min ≤ max) :
    Yields (fun (k : UInt64 × Bool × Bool → Prog) => uintRange ft min max bias fuel (fun u l r => k (u, l, r)))
      (fun x => min ≤ x.1 ∧ x.1 ≤ max) := yields_uintRange ft min max bias fuel h

theorem index_lt (ft : FT) (n : Nat) (bias : Bool) (fuel : Nat) (hn : 0 < n) (hs : n ≤ 2 ^ 64) :
    Yields (index ft n bias fuel) (fun i => i < n) := yields_index ft n bias fuel hn hs

/-- an invalid range is rejected by an assertion at draw time (the public constructors reject
    it earlier, at construction) -/
theorem invalid_range_rejected (ft : FT) (min max : UInt64) (bias : Bool) (fuel : Nat) (k : UInt64 → Bool → Bool → Prog)
    (h : min > max) : uintRange ft min max bias fuel k = .throw (.panic "invalid range" siteAssert) := by
  simp [uintRange, h]

/-- the hypotheses are satisfiable: a biased draw from `[3, 10]` on a concrete buffer -/
example : (3 : UInt64) ≤ 10 := by decide

/-- signed ranges: every value handed on lies in `[min, max]` — including ranges that touch
    `MinInt64` (whose magnitude is not representable) and one-point ranges -/
theorem intRange_mem (ft : FT) (min max : Int64) (fuel : Nat) (h : min ≤ max) :
    Yields (fun (k : Int64 × Bool × Bool → Prog) => intRange ft min max fuel (fun i l r => k (i, l, r)))
      (fun x => min ≤ x.1 ∧ x.1 ≤ max) := yields_intRange ft min max fuel h

/-- every `repeat` loop (collections, strings, maps): the number of accepted elements is between
    `minCount` and `maxCount` when the loop hands its accumulator on -/
theorem repeat_count (c : RCfg) (hmm : c.minC ≤ c.maxC) (step : Val → Prog) (hshape : StepShape step)
    (m : Val → Nat) (hstep : ∀ acc src ts a, ((step acc).run src ts).res = .ok (rAcc a) → m a = m acc + 1)
    (fuel : Nat) (s : RSt) (acc : Val) (hs : s.count ≤ c.maxC) (hm : m acc = s.count) :
    Reaches (fun k => repeatLoop c step k fuel s acc) (fun a => c.minC ≤ m a ∧ m a ≤ c.maxC) :=
  reaches_repeatLoop c hmm step hshape m hstep fuel s acc hs hm

theorem sliceOf_length (e : Env) (lab : Bool) (elem : Gen) (lo hi : Int) (hmm : normMin lo ≤ normMax hi)
    (src : Src) (ts : TS) (v : Val) (h : (((Gen.slice elem lo hi).body e lab).run src ts).res = .ok v) :
    normMin lo ≤ v.length ∧ v.length ≤ normMax hi := slice_length e lab elem lo hi hmm src ts v h

theorem sliceOfDistinct_length_and_keys (e : Env) (lab : Bool) (elem : Gen) (lo hi : Int) (key : Val → Val)
    (hmm : normMin lo ≤ normMax hi) (src : Src) (ts : TS) (v : Val)
    (h : (((Gen.distinct elem lo hi key).body e lab).run src ts).res = .ok v) :
    (normMin lo ≤ v.length ∧ v.length ≤ normMax hi) ∧ Val.distinctBy key v :=
  ⟨distinct_length e lab elem lo hi key hmm src ts v h, distinct_keys e lab elem lo hi key hmm src ts v h⟩

theorem mapOfValues_size (e : Env) (lab : Bool) (vg : Gen) (lo hi : Int) (key : Val → Val) (hmm : normMin lo ≤ normMax hi)
    (src : Src) (ts : TS) (v : Val) (h : (((Gen.mapOfValues vg lo hi key).body e lab).run src ts).res = .ok v) :
    normMin lo ≤ v.length ∧ v.length ≤ normMax hi := mapOfValues_length e lab vg lo hi key hmm src ts v h

theorem stringOf_runes (e : Env) (lab : Bool) (elem : Gen) (lo hi ml : Int) (hmm : normMin lo ≤ normMax hi)
    (src : Src) (ts : TS) (v : Val) (h : (((Gen.stringOf elem lo hi ml).body e lab).run src ts).res = .ok v) :
    normMin lo ≤ v.length ∧ v.length ≤ normMax hi := stringOf_length e lab elem lo hi ml hmm src ts v h

theorem filter_predicate_holds (e : Env) (lab : Bool) (g : Gen) (p : Val → Bool) (src : Src) (ts : TS) (v : Val)
    (h : (((Gen.filter g p).body e lab).run src ts).res = .ok v) : p v = true := filter_pred e lab g p src ts v h

/-- the premises are satisfiable: `[MinInt64, MinInt64+1]`, and lengths `2 ≤ 5` -/
example : (Int64.minValue ≤ Int64.minValue + 1) ∧ normMin 2 ≤ normMax 5 := by decide

/-- `StringOfN`: at most `maxLen` bytes and only runes that have a UTF-8 encoding (no surrogates, nothing
    beyond U+10FFFF, nothing negative) — whatever the element generator yields -/
theorem stringOf_byte_length_and_valid_runes (e : Env) (lab : Bool) (elem : Gen) (lo hi ml : Int) (hmm : normMin lo ≤ normMax hi)
    (src : Src) (ts : TS) (v : Val) (h : (((Gen.stringOf elem lo hi ml).body e lab).run src ts).res = .ok v) :
    v.byteLen ≤ normMax ml ∧ v.allRunes := stringOf_bytes_and_runes e lab elem lo hi ml hmm src ts v h

/-- `MapOfN`: pairwise distinct keys, size within the bounds -/
theorem mapOf_distinct_keys_and_size (e : Env) (lab : Bool) (kg vg : Gen) (lo hi : Int) (hmm : normMin lo ≤ normMax hi)
    (src : Src) (ts : TS) (v : Val) (h : (((Gen.mapOf kg vg lo hi).body e lab).run src ts).res = .ok v) :
    Val.distinctBy entryKey v ∧ normMin lo ≤ v.length ∧ v.length ≤ normMax hi := mapOf_keys_distinct e lab kg vg lo hi hmm src ts v h

/-- `Permutation`: the value is a permutation of the input -/
theorem permutation_is_a_permutation (e : Env) (lab : Bool) (n : Nat) (hn : n ≤ 2 ^ 63) (src : Src) (ts : TS) (v : Val)
    (h : (((Gen.perm n).body e lab).run src ts).res = .ok v) :
    v.toList.Perm ((List.range n).map fun (i : Nat) => Val.int (Int.ofNat i)) := perm_is_permutation e lab n hn src ts v h

/-! ### floats -/

/-- `Float64Range(min, max)`, every bit source: the value is in `[min, max]`, not a NaN — or the
    draw ends with invalid data (never with an assertion, never with an out-of-range value) -/
theorem float64_in_range (ft : FT) (min max : UInt64) (fuel : Nat) (hok : floatRangeOK fmt64 min max = true) :
    Yields (floatValue ft fmt64 min max fuel) (FloatOK fmt64 min max) :=
  yields_floatValue ft fmt64 wf64 min max fuel hok

/-- `Float32Range(min, max)` likewise -/
theorem float32_in_range (ft : FT) (min max : UInt64) (fuel : Nat) (hok : floatRangeOK fmt32 min max = true) :
    Yields (floatValue ft fmt32 min max fuel) (FloatOK fmt32 min max) :=
  yields_floatValue ft fmt32 wf32 min max fuel hok

/-- any format that fits a word (the statement does not depend on 23/8 or 52/11) -/
theorem float_in_range (ft : FT) (f : FFmt) (hf : f.WF) (min max : UInt64) (fuel : Nat)
    (hok : floatRangeOK f min max = true) : Yields (floatValue ft f min max fuel) (FloatOK f min max) :=
  yields_floatValue ft f hf min max fuel hok

/-- a value in range is infinite only if the bound on that side is infinite -/
theorem float_infinite_only_if_bound (f : FFmt) (hpos : 0 < f.inf.toNat) (min max b : UInt64)
    (hok : floatRangeOK f min max = true) (h : FloatOK f min max b) (hinf : f.mag b = f.inf) :
    (f.isNeg b = true → f.mag min = f.inf ∧ f.isNeg min = true) ∧
    (f.isNeg b = false → f.mag max = f.inf ∧ f.isNeg max = false) := by
  simp only [floatRangeOK, Bool.and_eq_true, Bool.not_eq_true', f.isNaN_iff, decide_eq_false_iff_not, Nat.not_lt,
    gt_iff_lt] at hok
  obtain ⟨⟨hn0, hn1⟩, _⟩ := hok
  obtain ⟨h1, h2, _⟩ := h
  rw [f.fle_eq] at h1 h2
  have h1 := of_decide_eq_true h1; have h2 := of_decide_eq_true h2
  rw [hinf] at h1 h2
  constructor
  · intro hb; rw [hb] at h1
    cases hm : f.isNeg min <;> simp only [hm, K, Bool.false_eq_true, if_false, if_true] at h1
    · omega
    · exact ⟨UInt64.toNat_inj.mp (by omega), rfl⟩
  · intro hb; rw [hb] at h2
    cases hm : f.isNeg max <;> simp only [hm, K, Bool.false_eq_true, if_false, if_true] at h2
    · exact ⟨UInt64.toNat_inj.mp (by omega), rfl⟩
    · omega

example : 0 < fmt32.inf.toNat ∧ 0 < fmt64.inf.toNat := by decide

/-! ### the float code of /repo, translated on every run, is the model the theorems are about

  `extract/translate.go` turns `bitmask64`, `ufloatFracBits`, `ufloat64Parts`, `ufloat64FromParts`, the
  two `switch` blocks and the bit-clearing loop of `genUfloatRange` (floats.go, utils.go) into Lean definitions
  (`RapidModel/Generated/Translated.lean`, rewritten from the working tree on every run).  The theorems
  below identify them with the hand-written model for ALL arguments: a change of any of these
  functions in /repo breaks a proof here, not only a sampled correspondence. -/

theorem source_bitmask64 (n : UInt64) : Translated.bitmask64 n = bitmask64 n.toNat := tr_bitmask64 n

theorem source_ufloatFracBits (e : Int32) (s : UInt64) :
    (Translated.ufloatFracBits e s).toNat = fracBits e.toInt s.toNat := tr_fracBits e s

theorem source_ufloat64Parts (f : UInt64) :
    ((Translated.ufloat64Parts f).1.toInt, (Translated.ufloat64Parts f).2.1, (Translated.ufloat64Parts f).2.2) = fmt64.parts f :=
  tr_parts64 f

theorem source_ufloat64FromParts (e : Int32) (si sf : UInt64) :
    Translated.ufloat64FromParts e si sf = fmt64.ufromParts e.toInt si sf := tr_fromParts64 e si sf

theorem source_ufloat32Parts (f : UInt32) :
    ((Translated.ufloat32Parts f).1.toInt, (Translated.ufloat32Parts f).2.1, (Translated.ufloat32Parts f).2.2) = fmt32.parts f.toUInt64 :=
  tr_parts32 f

theorem source_ufloat32FromParts (e : Int32) (si sf : UInt64) :
    (Translated.ufloat32FromParts e si sf).toUInt64 = fmt32.ufromParts e.toInt si sf := tr_fromParts32 e si sf

theorem source_genUfloatRange_switches (e : Int64) (fb S : UInt64) (l r : Bool) (maxExp minExp : Int32)
    (maxSI minSI F0 F1 si : UInt64) (he : e.toInt32.toInt = e.toInt) (hfb : fb.toNat = fracBits e.toInt S.toNat) :
    Translated.ufloatSwitchSI e fb l maxExp maxSI minExp minSI r S =
      siBounds S.toNat (minExp.toInt, minSI, F0) (maxExp.toInt, maxSI, F1) e.toInt l r ∧
    Translated.ufloatSwitchSF e fb l maxExp F1 maxSI minExp F0 minSI r si =
      sfBounds S.toNat (minExp.toInt, minSI, F0) (maxExp.toInt, maxSI, F1) e.toInt l r si :=
  ⟨tr_switchSI e fb S l r maxExp minExp maxSI minSI F0 F1 he hfb, tr_switchSF e fb S l r maxExp minExp maxSI minSI F0 F1 si he hfb⟩

/-- the loop at the end of `genUfloatRange` that clears low bits of the fractional significand -/
theorem source_genUfloatRange_clear_loop (maxR : Int64) (r sfMin : UInt64) (hb : (maxR.toUInt64 - r).toNat ≤ 64)
    (fuel : Nat) (sf : UInt64) (hf : (maxR.toUInt64 - r).toNat ≤ fuel) :
    Translated.ufloatClearLoop maxR r sfMin fuel 0 sf = clearLow sfMin (maxR.toUInt64 - r).toNat 0 sf := by
  have := tr_clearLoop maxR r sfMin hb fuel 0 sf (by rw [UInt64.le_iff_toNat_le]; simp) (by simpa using hf)
  simpa using this

/-- the premises are satisfiable: `[-1.5, +Inf]` in float64 and `[-0, 1]` in float32 are admissible
    ranges, and NaN bounds or reversed bounds are not -/
example : floatRangeOK fmt64 0xBFF8000000000000 0x7FF0000000000000 = true ∧
    floatRangeOK fmt32 0x80000000 0x3F800000 = true ∧
    floatRangeOK fmt64 0x7FF8000000000001 0x7FF0000000000000 = false ∧
    floatRangeOK fmt64 0x3FF0000000000000 0 = false := by decide

/-! ### the integer generators of utils.go, translated on every run, are the model

  The functions that work on the bit stream (`genUintNNoReject`, `genUintNUnbiased`, `genUintNBiased`,
  `genUintN`, `genUintRange`, `genIntRange`, `genIndex`, `flipBiasedCoin`, `genGeom`, `genFloat01`) are
  translated statement by statement into continuation-passing style over `Prog`
  (`extract/translate_prog.go`).  For every bit source and `*T` state the translated function and the
  hand-written model have the same run, given the floating-point facts `FloatFacts` (the thresholds
  measured on the real functions on every run); so the range contracts above hold of the source. -/

theorem source_genUintRange (fe : Go.FEval) (ft : FT) (H : FloatFacts fe ft) (min max : UInt64) (bias : Bool) (fuel : Nat)
    (k : UInt64 → Bool → Bool → Prog) (src : Src) (ts : TS) :
    (Translated.genUintRange fe min max bias fuel k).run src ts = (uintRange ft min max bias fuel k).run src ts :=
  tr_genUintRange fe ft H min max bias fuel k k (fun _ _ _ => RunEq.refl _) src ts

theorem source_genIntRange (fe : Go.FEval) (ft : FT) (H : FloatFacts fe ft) (min max : Int64) (fuel : Nat)
    (k : Int64 → Bool → Bool → Prog) (src : Src) (ts : TS) :
    (Translated.genIntRange fe min max true fuel k).run src ts = (intRange ft min max fuel k).run src ts :=
  tr_genIntRange fe ft H min max fuel k k (fun _ _ _ => RunEq.refl _) src ts

theorem source_genIndex (fe : Go.FEval) (ft : FT) (H : FloatFacts fe ft) (n : Nat) (hn : n < 2 ^ 62) (bias : Bool) (fuel : Nat)
    (k : Nat → Prog) (src : Src) (ts : TS) :
    (Translated.genIndex fe (Int64.ofNat n) bias fuel (fun i => k i.toUInt64.toNat)).run src ts = (index ft n bias fuel k).run src ts :=
  tr_genIndex fe ft H n hn bias fuel _ k (fun u => by
    have : u.toInt64.toUInt64 = u := by apply UInt64.toBitVec_inj.mp; simp [UInt64.toInt64, Int64.toUInt64]
    rw [this]; exact RunEq.refl _) src ts

theorem source_genUintNNoReject (fe : Go.FEval) (max : UInt64) (fuel : Nat) (k : UInt64 → Prog) (src : Src) (ts : TS) :
    (Translated.genUintNNoReject fe max fuel k).run src ts = (uintNoReject max k).run src ts :=
  tr_genUintNNoReject fe max fuel k k (fun _ => RunEq.refl _) src ts

/-- the range contract, for the source: `genIntRange(s, min, max, true)` hands on a value of `[min, max]` -/
theorem source_genIntRange_in_range (fe : Go.FEval) (ft : FT) (H : FloatFacts fe ft) (min max : Int64) (fuel : Nat) (h : min ≤ max) :
    Yields (fun (k : Int64 × Bool × Bool → Prog) => Translated.genIntRange fe min max true fuel (fun i l r => k (i, l, r)))
      (fun x => min ≤ x.1 ∧ x.1 ≤ max) :=
  Yields.of_runEq (fun k => tr_genIntRange fe ft H min max fuel _ _ (fun _ _ _ => RunEq.refl _)) (intRange_mem ft min max fuel h)

theorem source_genUintRange_in_range (fe : Go.FEval) (ft : FT) (H : FloatFacts fe ft) (min max : UInt64) (bias : Bool) (fuel : Nat)
    (h : min ≤ max) :
    Yields (fun (k : UInt64 × Bool × Bool → Prog) => Translated.genUintRange fe min max bias fuel (fun u l r => k (u, l, r)))
      (fun x => min ≤ x.1 ∧ x.1 ≤ max) :=
  Yields.of_runEq (fun k => tr_genUintRange fe ft H min max bias fuel _ _ (fun _ _ _ => RunEq.refl _)) (uintRange_mem ft min max bias fuel h)

/-- **`integerGen.value` of integers.go (every integer generator: `Int`, `Uint8Range`, `Int32Min` …), translated on every run**: a
    signed kind draws `genIntRange(smin, smax)`, an unsigned one `genUintRange(umin, umax)`, both with bias, and the value is
    converted to the kind — the `.int` / `.uint` cases of the model's `Gen.body` -/
theorem source_integerGen_value_signed (fe : Go.FEval) (ft : FT) (H : FloatFacts fe ft) {I : Type} [Go.Enc I] [Inhabited I]
    (smin smax : Int64) (umax umin : UInt64) (ci : Int64 → I) (cu : UInt64 → I) (fuel : Nat) (k : I → Prog) (src : Src) (ts : TS) :
    (Translated.integerGen_value fe true smin smax umax umin ci cu fuel k).run src ts =
      (intRange ft smin smax fuel fun i _ _ => k (ci i)).run src ts := by
  simp only [Translated.integerGen_value, if_true]
  exact tr_genIntRange fe ft H smin smax fuel _ _ (fun _ _ _ => RunEq.refl _) src ts

theorem source_integerGen_value_unsigned (fe : Go.FEval) (ft : FT) (H : FloatFacts fe ft) {I : Type} [Go.Enc I] [Inhabited I]
    (smin smax : Int64) (umax umin : UInt64) (ci : Int64 → I) (cu : UInt64 → I) (fuel : Nat) (k : I → Prog) (src : Src) (ts : TS) :
    (Translated.integerGen_value fe false smin smax umax umin ci cu fuel k).run src ts =
      (uintRange ft umin umax true fuel fun u _ _ => k (cu u)).run src ts := by
  simp only [Translated.integerGen_value, Bool.false_eq_true, if_false]
  exact tr_genUintRange fe ft H umin umax true fuel _ _ (fun _ _ _ => RunEq.refl _) src ts

/-- … so every value an integer generator of the source hands on lies between the bounds of the generator (before the
    conversion to the kind, which is the identity on values of the kind) -/
theorem source_integerGen_in_range (fe : Go.FEval) (ft : FT) (H : FloatFacts fe ft) (smin smax : Int64) (umax umin : UInt64) (fuel : Nat)
    (hs : smin ≤ smax) (hu : umin ≤ umax) :
    Yields (fun (k : Int64 → Prog) => Translated.integerGen_value fe true smin smax umax umin id (fun u => u.toInt64) fuel k)
        (fun x => smin ≤ x ∧ x ≤ smax) ∧
    Yields (fun (k : UInt64 → Prog) => Translated.integerGen_value fe false smin smax umax umin (fun i => i.toUInt64) id fuel k)
        (fun x => umin ≤ x ∧ x ≤ umax) := by
  constructor
  · have h := source_genIntRange_in_range fe ft H smin smax fuel hs
    intro k src ts
    have e : Translated.integerGen_value fe true smin smax umax umin id (fun u => u.toInt64) fuel k =
        Translated.genIntRange fe smin smax true fuel (fun i l r => (fun (x : Int64 × Bool × Bool) => k x.1) (i, l, r)) := by
      simp [Translated.integerGen_value]
    show (∃ a, _) ∨ _
    simp only []
    rw [e]
    rcases h (fun x => k x.1) src ts with ⟨a, hP, hrest⟩ | herr
    · exact Or.inl ⟨a.1, hP, hrest⟩
    · exact Or.inr herr
  · have h := source_genUintRange_in_range fe ft H umin umax true fuel hu
    intro k src ts
    have e : Translated.integerGen_value fe false smin smax umax umin (fun i => i.toUInt64) id fuel k =
        Translated.genUintRange fe umin umax true fuel (fun u l r => (fun (x : UInt64 × Bool × Bool) => k x.1) (u, l, r)) := by
      simp [Translated.integerGen_value]
    show (∃ a, _) ∨ _
    simp only []
    rw [e]
    rcases h (fun x => k x.1) src ts with ⟨a, hP, hrest⟩ | herr
    · exact Or.inl ⟨a.1, hP, hrest⟩
    · exact Or.inr herr

/-- **floats.go, translated on every run**: `genFloatRange` (sign coin, the two calls of `genUfloatRange` with
    their groups, both `switch` blocks, the rejection-free draw of `r`, the bit-clearing loop) for float64 runs
    in lock-step with the model and hands on the same sign, exponent and significand parts -/
theorem source_genFloatRange64 (fe : Go.FEval) (ft : FT) (H : FloatFacts fe ft) (HB : FloatFactsBits fe ft) (min max : UInt64)
    (fuel : Nat) (hok : floatRangeOK fmt64 min max = true) :
    Sim (fun (k : Bool × Int32 × UInt64 × UInt64 → Prog) => Translated.genFloatRange fe min max 52 fuel (fun s e si sf => k (s, e, si, sf)))
        (fun (k : Bool × Int × UInt64 × UInt64 → Prog) => floatRange ft fmt64 min max fuel (fun s e si sf => k (s, e, si, sf)))
        FloatRel :=
  sim_genFloatRange64 fe ft H HB min max fuel hok

/-- the range contract of `Float64Range`, for the source: `float64FromParts(genFloatRange(s, min, max, 52))` is in
    `[min, max]` and not a NaN, for every bit source -/
theorem source_float64_in_range (fe : Go.FEval) (ft : FT) (H : FloatFacts fe ft) (HB : FloatFactsBits fe ft) (min max : UInt64)
    (fuel : Nat) (hok : floatRangeOK fmt64 min max = true) :
    Yields (fun (k : UInt64 → Prog) =>
        Translated.genFloatRange fe min max 52 fuel (fun s e si sf => k (Translated.float64FromParts s e si sf)))
      (FloatOK fmt64 min max) :=
  Yields.of_runEq (fun k => (sim_float64Value fe ft H HB min max fuel hok).runEq k k (fun _ _ h => by subst h; exact fun _ _ => rfl))
    (float64_in_range ft min max fuel hok)

theorem source_floatFromParts (sign : Bool) (e : Int32) (si sf : UInt64) :
    Translated.float64FromParts sign e si sf = fmt64.fromParts sign e.toInt si sf ∧
    (Translated.float32FromParts sign e si sf).toUInt64 = fmt32.fromParts sign e.toInt si sf :=
  ⟨tr_float64FromParts sign e si sf, tr_float32FromParts sign e si sf⟩

/-- the float hypotheses can be met as well -/
theorem float_facts_bits_satisfiable : FloatFactsBits (feOf Rapid.Generated.ft) Rapid.Generated.ft :=
  floatFactsBits_feOf _

/-- `FloatFacts` is not an empty hypothesis: an evaluator that answers from the measured table meets it -/
theorem float_facts_satisfiable : FloatFacts (feOf Rapid.Generated.ft) Rapid.Generated.ft :=
  floatFacts_feOf _ (by decide +kernel)

/-! ### combinators.go, translated on every run: the retry loop, Filter, Custom, Map -/

/-- **`find(gen, t, 5)` of /repo is the model's `findLoop`** (an equality of programs): up to five tries, each inside a group
    `try` that is discarded when the try gave no value; after the fifth, invalid data "failed to find suitable value
    in 5 tries" -/
theorem source_find {V : Type} [Go.Enc V] [Inhabited V] (fe : Go.FEval) (gen : (V → Bool → Prog) → Prog) (k : V → Prog) (fuel : Nat) :
    Translated.find fe gen 5 (fuel + 6) k =
      findLoop (gen fun v ok => .ret (Go.Enc.enc (v, ok))) (fun val => (Go.Enc.dec val : V × Bool).2)
        (fun val => k (Go.Enc.dec val : V × Bool).1) 5 :=
  tr_find fe gen k fuel

/-- **`Filter` of /repo** (`filteredGen.value`, `filteredGen.maybeValue` and `find`, all translated) **is the `.filter` case of
    the model's generators**, for every inner generator and predicate -/
theorem source_filter (fe : Go.FEval) (e : Env) (lab : Bool) (g : Gen) (p : Val → Bool) (fuel : Nat) :
    RunEq (Translated.filteredGen_value fe (fun k' => (wrapValue (g.lbl lab) (g.body e lab)) >>- k') p (fuel + 6) fun v => .ret v)
      ((Gen.filter g p).body e lab) := by
  show RunEq _ (findLoop _ _ _ 5)
  refine tr_filter fe (wrapValue (g.lbl lab) (g.body e lab)) p fuel _ ?_
  intro v t; rfl

/-- `Filter` never yields a value its predicate refuses — for the translated source -/
theorem source_filter_contract (fe : Go.FEval) (e : Env) (lab : Bool) (g : Gen) (p : Val → Bool) (fuel : Nat) (src : Src) (ts : TS) (v : Val)
    (h : ((Translated.filteredGen_value fe (fun k' => (wrapValue (g.lbl lab) (g.body e lab)) >>- k') p (fuel + 6) fun v => .ret v).run src ts).res = .ok v) :
    p v = true := by
  rw [source_filter fe e lab g p fuel src ts] at h
  exact filter_pred e lab g p src ts v h

/-- **`Custom` of /repo**: `customGen.value` is `find` over `maybeValue`; with the model's `maybeValue` (fresh `T`, deferred
    cleanups, recovered invalid data — not translated) in its place it is the `.custom` case of the model -/
theorem source_custom_value (fe : Go.FEval) (e : Env) (lab : Bool) (body : Prog) (fuel : Nat) :
    RunEq (Translated.customGen_value fe
        (fun k' => (Prog.inner (.catchInv body fun o _ => .ret (match o with | some v => .cons v .nil | none => .nil)) .ret) >>- fun r =>
          if r != .nil then k' (match r with | .cons v _ => v | _ => .nil) true else k' (default : Val) false)
        (fuel + 6) fun v => .ret v)
      ((Gen.custom body).body e lab) := by
  show RunEq _ (findLoop _ _ _ 5)
  refine tr_custom fe _ fuel _ ?_ ?_
  · intro v t; rfl
  · intro r hr
    cases r with
    | cons v t => exact absurd rfl (hr v t)
    | int i => rfl
    | bool b => rfl
    | nil => rfl

/-- `Map` of /repo is the `.map` case of the model (an equality of programs) -/
theorem source_map (fe : Go.FEval) (e : Env) (lab : Bool) (g : Gen) (f : Val → Val) (fuel : Nat) :
    Translated.mappedGen_value fe (fun k' => (wrapValue (g.lbl lab) (g.body e lab)) >>- k') f fuel (fun v => .ret v) =
      (Gen.map g f).body e lab := by
  rfl

/-- **`SampledFrom` of /repo** (and `Just`): an index from `genIndex(len(slice), true)`, then `slice[i]` — run for run the
    model's `index` followed by the element (the runtime panic of an index out of range is never reached) -/
theorem source_sampled {E : Type} [Go.Enc E] [Inhabited E] (fe : Go.FEval) (ft : FT) (H : FloatFacts fe ft) (slice : List E)
    (h0 : 0 < slice.length) (hl : slice.length < 2 ^ 62) (fuel : Nat) (k : E → Prog) :
    RunEq (Translated.sampledGen_value fe slice fuel k) (index ft slice.length true fuel fun i => k (slice[i]?.getD default)) :=
  tr_sampled_model fe ft H slice h0 hl fuel k _ (fun i hi => by simp [List.getElem?_eq_getElem hi]; exact RunEq.refl _)

/-- … over the list of the indices themselves it is the `.sampled` case of the model's generators -/
theorem source_sampled_model (fe : Go.FEval) (e : Env) (H : FloatFacts fe e.ft) (lab : Bool) (n : Nat) (h0 : 0 < n) (hl : n < 2 ^ 62) :
    RunEq (Translated.sampledGen_value fe ((List.range n).map fun (i : Nat) => Val.int i) e.fuel fun v => .ret v)
      ((Gen.sampled n).body e lab) := by
  have := tr_sampled_model fe e.ft H ((List.range n).map fun (i : Nat) => Val.int i) (by simpa using h0) (by simpa using hl) e.fuel
    (fun v => .ret v) (fun i => .ret (.int i)) (fun i hi => by simp; exact RunEq.refl _)
  simpa [Gen.body] using this

/-- **`OneOf` of /repo**: an index from `genIndex(len(gens), true)`, then a draw from `gens[i]` — the `.oneOf` case of the
    model's generators -/
theorem source_oneOf (fe : Go.FEval) (e : Env) (H : FloatFacts fe e.ft) (lab : Bool) (n : Nat) (g : Nat → Gen) (h0 : 0 < n) (hl : n < 2 ^ 62) :
    RunEq (Translated.oneOfGen_value fe ((List.range n).map fun i => fun k' => (wrapValue ((g i).lbl lab) ((g i).body e lab)) >>- k')
        e.fuel fun v => .ret v)
      ((Gen.oneOf n g).body e lab) := by
  have := tr_oneOf_model fe e.ft H ((List.range n).map fun i => fun k' => (wrapValue ((g i).lbl lab) ((g i).body e lab)) >>- k')
    (by simpa using h0) (by simpa using hl) e.fuel (fun v => .ret v)
    (fun i => wrapValue ((g i).lbl lab) ((g i).body e lab)) (fun i hi => by simp; exact bind_ret_runEq _)
  show RunEq _ (index _ _ _ _ _)
  simpa using this

/-! ### `repeat.more` / `repeat.reject` of utils.go, translated from the source on every run -/

/-- the loop every collection generator writes around `repeat.more` (`for r.more(s) { … r.reject() … }`), started from
    `newRepeat`, is the model's `repeatLoop`: for every body, source of words and `*T` state the result, the rest of the
    source, the recorded tokens, the events and the overrun flag are the model's (or the model ran out of fuel: the
    deadline).  `pc` is the loop's `pContinue` as a float64 bit pattern and `c.thr` the threshold the model uses for it
    (`hcp`: the float facts the correspondence check tests on the runtime table). -/
theorem source_repeat_loop (fe : Go.FEval) (ft : FT) (HB : FloatFactsBits fe ft) (c : RCfg) (pc : UInt64)
    (hcp : Go.CoinOK fe (.ofBits pc) c.thr) (hmin : c.minC < 2 ^ 62) (hmax : c.maxC < 2 ^ 63) (step : Val → Prog)
    (hshape : StepShape step) (cf fuel : Nat) (hfuel : fuel < 2 ^ 59) (acc : Val) (src : Src) (ts : TS) :
    ((repeatLoop c step (fun a => .ret a) fuel {} acc).run src ts).res = .error .fuel ∨
    (Go.StM.run (Go.repeatWhile fe step cf fuel (Go.RS.fresh c pc) acc) (Go.StState.fresh src ts)).core =
      Go.outCore ((repeatLoop c step (fun a => .ret a) fuel {} acc).run src ts) :=
  Go.tr_repeat fe ft HB c pc hcp hmin hmax step hshape cf fuel hfuel acc src ts

/-- so the number of elements the *source's* loop has accepted when it hands its accumulator on lies between `minCount`
    and `maxCount` (`m` measures the accumulator; every accepted element adds one) -/
theorem source_repeat_count (fe : Go.FEval) (ft : FT) (HB : FloatFactsBits fe ft) (c : RCfg) (pc : UInt64)
    (hcp : Go.CoinOK fe (.ofBits pc) c.thr) (hmin : c.minC < 2 ^ 62) (hmax : c.maxC < 2 ^ 63) (hmm : c.minC ≤ c.maxC)
    (step : Val → Prog) (hshape : StepShape step) (m : Val → Nat)
    (hstep : ∀ acc src ts a, ((step acc).run src ts).res = .ok (rAcc a) → m a = m acc + 1)
    (cf fuel : Nat) (hfuel : fuel < 2 ^ 59) (acc : Val) (hm : m acc = 0) (src : Src) (ts : TS)
    (hdl : ((repeatLoop c step (fun a => .ret a) fuel {} acc).run src ts).res ≠ .error .fuel) (a : Val)
    (hres : (Go.StM.run (Go.repeatWhile fe step cf fuel (Go.RS.fresh c pc) acc) (Go.StState.fresh src ts)).core.res = .ok a) :
    c.minC ≤ m a ∧ m a ≤ c.maxC := by
  rcases source_repeat_loop fe ft HB c pc hcp hmin hmax step hshape cf fuel hfuel acc src ts with h | h
  · exact absurd h hdl
  · rw [h] at hres
    have hM : ((repeatLoop c step (fun a => .ret a) fuel {} acc).run src ts).res = .ok a := hres
    rcases repeat_count c hmm step hshape m hstep fuel {} acc (Nat.zero_le _) hm (fun a => .ret a) src ts with
      ⟨a', hP, src', ts', used, kept, toks, evs, ov, hrun⟩ | ⟨e, he⟩
    · rw [hrun] at hM
      have : a' = a := by simpa [Prog.run, Out.ofRes, Out.after] using hM
      exact this ▸ hP
    · rw [he] at hM; cases hM

/-- the hypotheses are satisfiable and the loop does run: two elements are forced (`minCount = 2`), then the coin stops it -/
example : ((repeatLoop ⟨2, 5, 4503599627370496, "x"⟩ (fun acc => .draw 8 fun w => .ret (rAcc (.cons (.int w.toNat) acc)))
    (fun a => .ret a) 9 {} .nil).run (.buf [0, 7, 0, 9, 0]) TS.fresh).res.toOption = some (.cons (.int 9) (.cons (.int 7) .nil)) := by decide +kernel

/-! ### facts re-read from /repo's source on every run -/

/-- the loop bodies that the collection, map and string generators put around `repeat.more` / `repeat.reject` (re-read from
    /repo on every run, statement by statement): each is the `repeatWhile` of `source_repeat_loop` — `for repeat.more(t.s) {
    element; if refused { repeat.reject() } else { keep it } }` from `newRepeat(min, max, -1, label)` on — with the element
    program and the refusal test that the model's `Gen.body` uses for it (a key seen before; a key already in the map; a rune
    that is not encodable or does not fit into `maxLen` bytes).  The set of keys seen is a local of the call (S97/S164 moved
    it onto the generator). -/
theorem slice_loop_source : Rapid.Generated.body_sliceGen_value =
    ["{", "repeat := newRepeat(g.minLen, g.maxLen, -1, g.elem.String())", "var seen map[K]struct{}",
     "if g.keyFn != nil {", "seen = make(map[K]struct{}, repeat.avg())", "}", "sl := make([]E, 0, repeat.avg())",
     "for repeat.more(t.s) {", "e := g.elem.value(t)", "if g.keyFn == nil {", "sl = append(sl, e)", "} else {",
     "k := g.keyFn(e)", "if _, ok := seen[k]; ok {", "repeat.reject()", "} else {", "seen[k] = struct{}{}",
     "sl = append(sl, e)", "}", "}", "}", "return sl", "}"] := by decide

theorem map_loop_source : Rapid.Generated.body_mapGen_value =
    ["{", "label := g.val.String()", "if g.key != nil {", "label = g.key.String() + \",\" + label", "}",
     "repeat := newRepeat(g.minLen, g.maxLen, -1, label)", "m := make(map[K]V, repeat.avg())",
     "for repeat.more(t.s) {", "var k K", "var v V", "if g.key != nil {", "k = g.key.value(t)", "v = g.val.value(t)",
     "} else {", "v = g.val.value(t)", "k = g.keyFn(v)", "}", "if _, ok := m[k]; ok {", "repeat.reject()",
     "} else {", "m[k] = v", "}", "}", "return m", "}"] := by decide

theorem string_loop_source : Rapid.Generated.body_stringGen_value =
    ["{", "repeat := newRepeat(g.minRunes, g.maxRunes, -1, g.elem.String())", "var b strings.Builder",
     "b.Grow(repeat.avg())", "maxLen := g.maxLen", "if maxLen < 0 {", "maxLen = math.MaxInt", "}",
     "for repeat.more(t.s) {", "r := g.elem.value(t)", "n := utf8.RuneLen(r)", "if n < 0 || b.Len()+n > maxLen {",
     "repeat.reject()", "} else {", "b.WriteRune(r)", "}", "}", "return b.String()", "}"] := by decide



theorem small_source : Rapid.Generated.c_small = small.toNat := by decide

/-- the bounds of every integer kind (the sized generators differ from the modelled 64-bit ones
    only by this table): each kind spans exactly its Go type -/
theorem integer_kinds_source : Rapid.Generated.src_integerKinds =
    ["byteKind: size=1 umax=math.MaxUint8",
     "intKind: signed=true size=intSize / 8 smin=math.MinInt smax=math.MaxInt",
     "int8Kind: signed=true size=1 smin=math.MinInt8 smax=math.MaxInt8",
     "int16Kind: signed=true size=2 smin=math.MinInt16 smax=math.MaxInt16",
     "int32Kind: signed=true size=4 smin=math.MinInt32 smax=math.MaxInt32",
     "int64Kind: signed=true size=8 smin=math.MinInt64 smax=math.MaxInt64",
     "uintKind: size=uintSize / 8 umax=math.MaxUint",
     "uint8Kind: size=1 umax=math.MaxUint8",
     "uint16Kind: size=2 umax=math.MaxUint16",
     "uint32Kind: size=4 umax=math.MaxUint32",
     "uint64Kind: size=8 umax=math.MaxUint64",
     "uintptrKind: size=uintptrSize / 8 umax=maxUintptr"] := by decide

/-- make.go is outside the model (reflection): its functions are re-read from /repo statement by statement — the generator chosen for every kind, the cast to the named type, pointers, arrays, slices, structs -/
theorem make_kind_source : Rapid.Generated.body_newMakeKindGen =
    ["{", "switch typ.Kind() {", "case reflect.Bool:", "return Bool().AsAny(), true", "case reflect.Int:",
     "return Int().AsAny(), true", "case reflect.Int8:", "return Int8().AsAny(), true", "case reflect.Int16:",
     "return Int16().AsAny(), true", "case reflect.Int32:", "return Int32().AsAny(), true", "case reflect.Int64:",
     "return Int64().AsAny(), true", "case reflect.Uint:", "return Uint().AsAny(), true", "case reflect.Uint8:",
     "return Uint8().AsAny(), true", "case reflect.Uint16:", "return Uint16().AsAny(), true", "case reflect.Uint32:",
     "return Uint32().AsAny(), true", "case reflect.Uint64:", "return Uint64().AsAny(), true",
     "case reflect.Uintptr:", "return Uintptr().AsAny(), true", "case reflect.Float32:",
     "return Float32().AsAny(), true", "case reflect.Float64:", "return Float64().AsAny(), true",
     "case reflect.Array:", "return genAnyArray(typ), false", "case reflect.Map:", "return genAnyMap(typ), false",
     "case reflect.Pointer:", "return Deferred(func() *Generator[any] { return genAnyPointer(typ) }), false",
     "case reflect.Slice:", "return genAnySlice(typ), false", "case reflect.String:",
     "return String().AsAny(), true", "case reflect.Struct:", "return genAnyStruct(typ), false", "default:",
     "panic(fmt.Sprintf(\"unsupported type kind for Make: %v\", typ.Kind()))", "}", "}"] := by rfl

/-- make.go is outside the model (reflection): its functions are re-read from /repo statement by statement — the generator chosen for every kind, the cast to the named type, pointers, arrays, slices, structs -/
theorem make_pointer_source : Rapid.Generated.body_genAnyPointer =
    ["{", "elem := typ.Elem()", "elemGen := newMakeGen(elem)", "const pNonNil = 0.5",
     "return Custom[any](func(t *T) any {", "if flipBiasedCoin(t.s, pNonNil) {", "val := elemGen.value(t)",
     "ptr := reflect.New(elem)", "ptr.Elem().Set(reflect.ValueOf(val))", "return ptr.Interface()", "} else {",
     "return reflect.Zero(typ).Interface()", "}", "})", "}"] := by rfl

/-- make.go is outside the model (reflection): its functions are re-read from /repo statement by statement — the generator chosen for every kind, the cast to the named type, pointers, arrays, slices, structs -/
theorem make_array_source : Rapid.Generated.body_genAnyArray =
    ["{", "count := typ.Len()", "elemGen := newMakeGen(typ.Elem())", "return Custom[any](func(t *T) any {",
     "a := reflect.Indirect(reflect.New(typ))", "if count == 0 {", "t.s.drawBits(0)", "} else {",
     "for i := 0; i < count; i++ {", "e := reflect.ValueOf(elemGen.value(t))", "a.Index(i).Set(e)", "}", "}",
     "return a.Interface()", "})", "}"] := by rfl

/-- make.go is outside the model (reflection): its functions are re-read from /repo statement by statement — the generator chosen for every kind, the cast to the named type, pointers, arrays, slices, structs -/
theorem make_slice_source : Rapid.Generated.body_genAnySlice =
    ["{", "elemGen := newMakeGen(typ.Elem())", "return Custom[any](func(t *T) any {",
     "repeat := newRepeat(-1, -1, -1, elemGen.String())", "sl := reflect.MakeSlice(typ, 0, repeat.avg())",
     "for repeat.more(t.s) {", "e := reflect.ValueOf(elemGen.value(t))", "sl = reflect.Append(sl, e)", "}",
     "return sl.Interface()", "})", "}"] := by rfl

/-- make.go is outside the model (reflection): its functions are re-read from /repo statement by statement — the generator chosen for every kind, the cast to the named type, pointers, arrays, slices, structs -/
theorem make_struct_source : Rapid.Generated.body_genAnyStruct =
    ["{", "numFields := typ.NumField()", "fieldGens := make([]*Generator[any], numFields)",
     "for i := 0; i < numFields; i++ {", "fieldGens[i] = newMakeGen(typ.Field(i).Type)", "}",
     "return Custom[any](func(t *T) any {", "s := reflect.Indirect(reflect.New(typ))", "if numFields == 0 {",
     "t.s.drawBits(0)", "} else {", "for i := 0; i < numFields; i++ {",
     "f := reflect.ValueOf(fieldGens[i].value(t))", "s.Field(i).Set(f)", "}", "}", "return s.Interface()", "})", "}"] := by rfl

/-- make.go is outside the model (reflection): its functions are re-read from /repo statement by statement — the generator chosen for every kind, the cast to the named type, pointers, arrays, slices, structs -/
theorem make_cast_source : Rapid.Generated.body_castGen_value =
    ["{", "v := g.gen.value(t)", "return reflect.ValueOf(v).Convert(g.typ).Interface()", "}"] := by rfl

/-- `genAnyMap` re-read from /repo statement by statement: a key that is already in the map rejects the attempt *before* anything is stored (S192 stored first) -/
theorem make_map_source : Rapid.Generated.body_genAnyMap =
    ["{", "keyGen := newMakeGen(typ.Key())", "valGen := newMakeGen(typ.Elem())",
     "return Custom[any](func(t *T) any {", "label := keyGen.String() + \",\" + valGen.String()",
     "repeat := newRepeat(-1, -1, -1, label)", "m := reflect.MakeMapWithSize(typ, repeat.avg())",
     "for repeat.more(t.s) {", "k := reflect.ValueOf(keyGen.value(t))", "v := reflect.ValueOf(valGen.value(t))",
     "if m.MapIndex(k).IsValid() {", "repeat.reject()", "} else {", "m.SetMapIndex(k, v)", "}", "}",
     "return m.Interface()", "})", "}"] := by rfl

/-- `permGen.value` re-read from /repo statement by statement: a copy of the input is shuffled -/
theorem perm_source : Rapid.Generated.body_permGen_value =
    ["{", "s := append(S(nil), g.slice...)", "n := len(s)", "m := n - 1", "if m < 0 {", "m = 0", "}",
     "repeat := newRepeat(0, m, math.MaxInt, \"permute\")", "for i := 0; repeat.more(t.s); i++ {",
     "j, _, _ := genUintRange(t.s, uint64(i), uint64(n-1), false)", "s[i], s[j] = s[j], s[i]", "}", "return s", "}"] := by rfl

/-- `ptrGen.value` re-read from /repo statement by statement -/
theorem ptr_source : Rapid.Generated.body_ptrGen_value =
    ["{", "pNonNil := float64(1)", "if g.allowNil {", "pNonNil = 0.5", "}", "if flipBiasedCoin(t.s, pNonNil) {",
     "e := g.elem.value(t)", "return &e", "} else {", "return nil", "}", "}"] := by rfl

end Rapid.C03
