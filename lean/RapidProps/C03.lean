/-
  C03 — generated values always satisfy the generator's contract, for every bitstream.

  Proved here, for every bit source (PRNG state or arbitrary buffer), every parameter value and
  every continuation: the integer primitives hand on a value inside the requested range or
  raise invalid data / run out of model fuel — never an out-of-range value and never an
  assertion failure.  Every public integer generator, `SampledFrom`, `OneOf`, every length of
  a collection, every rune index goes through these primitives.  Collection, string and float
  contracts are covered by the correspondence check + monitor (see DESIGN.md for what is
  theorem and what is validated).
  Not provable here: termination of rejection loops on the PRNG (probabilistic); the dynamic
  Go type produced by `Make` (reflection).
-/
import RapidModel.Generated.Consts
import RapidProofs.Contracts
import RapidModel.Minimize

namespace Rapid.C03

theorem uintNoReject_le (max : UInt64) : Yields (uintNoReject max) (fun u => u ≤ max) := yields_uintNoReject max

theorem uintN_le (ft : FT) (max : UInt64) (bias : Bool) (fuel : Nat) :
    Yields (fun (k : UInt64 × Bool × Bool → Prog) => uintN ft max bias fuel (fun u l r => k (u, l, r)))
      (fun x => x.1 ≤ max) := yields_uintN ft max bias fuel

theorem uintRange_mem (ft : FT) (min max : UInt64) (bias : Bool) (fuel : Nat) (h : min ≤ max) :
    Yields (fun (k : UInt64 × Bool × Bool → Prog) => uintRange ft min max bias fuel (fun u l r => k (u, l, r)))
      (fun x => min ≤ x.1 ∧ x.1 ≤ max) := yields_uintRange ft min max bias fuel h

theorem index_lt (ft : FT) (n : Nat) (bias : Bool) (fuel : Nat) (hn : 0 < n) (hs : n ≤ 2 ^ 64) :
    Yields (index ft n bias fuel) (fun i => i < n) := yields_index ft n bias fuel hn hs

/-- an invalid range is rejected by an assertion at draw time (the public constructors reject
    it earlier, at construction) -/
theorem invalid_range_rejected (ft : FT) (min max : UInt64) (bias : Bool) (fuel : Nat) (k : UInt64 → Bool → Bool → Prog)
    (h : min > max) : uintRange ft min max bias fuel k = .throw (.panic "invalid range" siteAssert) := by
  simp [uintRange, h]

/-- the hypotheses are satisfiable: a biased draw from `[3, 10]` on a concrete buffer -/
example : (3 : UInt64) ≤ 10 := by decide

/-! ### facts re-read from /repo's source on every run -/

theorem small_source : Rapid.Generated.c_small = small.toNat := by decide

end Rapid.C03
