/-
  RapidModel.GoCheck — what the translator needs for the orchestration of engine.go (`doCheck`, `checkFailFile`): code that
  loads fail files, runs single test cases on fresh `*T`s, calls the generation loop and the shrinker and decides what to
  hand back.

  `Go.CM α` is a script over six requests whose result is a value or a Go panic:

    glob                    filepath.Glob(failFilePattern(tb.Name())): the names found
    load file               loadFailFile(file): version, words, "is an error" (the seed of the file is not looked at)
    once spec               newT on a fresh stream (`newBufBitStream(ws, false)` / `newRandomBitStream(seed, true)`) and
                            checkOnce(t, prop): the error of the test case and the words the stream has handed out (`s.data`)
    findBug checks seed     findBug(tb, deadline, checks, seed, prop)  (translated and proved on its own: TranslatedEngineEq)
    shrink err              shrink(tb, shrinkDeadline(deadline), s.recordedBits, err, prop) on the recording of the last `once`
    pruned                  s.rec = s2.recordedBits; s.rec.prune() (shrinker.accept): the pruned words of the last `once`

  A `*testError` is the model's `Option Err` (`err == nil`, `err.isInvalidData()`, `sameError(a, b)` are the model's);
  logging, `tb.Helper()` and the assertion that the TB has not failed yet are not translated.
-/
import RapidModel.GoImp
import RapidModel.GoProg
import RapidModel.Engine
import RapidModel.Rec

namespace Rapid.Go

/-- the stream a fresh `*T` is created on -/
inductive SSpec where
  | buf (ws : List UInt64)      -- newBufBitStream(ws, false)
  | rng (seed : UInt64)         -- newRandomBitStream(seed, true)
deriving Inhabited

abbrev ErrV := Option Rapid.Err

def errvInvalid : ErrV → Bool
  | some e => e.isInvalid
  | none => false

inductive CScript (α : Type) where
  | ret (a : α)
  | glob (k : List String → CScript α)
  | load (file : String) (k : String × List UInt64 × Bool → CScript α)
  | once (s : SSpec) (k : ErrV × List UInt64 → CScript α)
  | findBug (checks : Int64) (seed : UInt64) (k : Int64 × Int64 × Bool × UInt64 × ErrV → CScript α)
  | shrink (err : ErrV) (k : List UInt64 × ErrV → CScript α)
  | pruned (k : Option (List UInt64) → CScript α)

def CScript.bind {α β : Type} : CScript α → (α → CScript β) → CScript β
  | .ret a, f => f a
  | .glob k, f => .glob fun x => (k x).bind f
  | .load n k, f => .load n fun x => (k x).bind f
  | .once s k, f => .once s fun x => (k x).bind f
  | .findBug c s k, f => .findBug c s fun x => (k x).bind f
  | .shrink e k, f => .shrink e fun x => (k x).bind f
  | .pruned k, f => .pruned fun x => (k x).bind f

def CM (α : Type) : Type := CScript (Except Panic α)

namespace CM

def ret {α : Type} (a : α) : CM α := CScript.ret (.ok a)

def bind {α β : Type} (x : CM α) (f : α → CM β) : CM β :=
  CScript.bind x fun r =>
    match r with
    | .ok a => f a
    | .error e => CScript.ret (.error e)

instance : Monad CM where
  pure := ret
  bind := bind

def ofM {α : Type} (x : M α) : CM α := CScript.ret x
def fuel {α : Type} : CM α := CScript.ret (.error .fuel)
def glob : CM (List String) := CScript.glob fun x => CScript.ret (.ok x)
def load (file : String) : CM (String × List UInt64 × Bool) := CScript.load file fun x => CScript.ret (.ok x)
def once (s : SSpec) : CM (ErrV × List UInt64) := CScript.once s fun x => CScript.ret (.ok x)
def findBug (checks : Int64) (seed : UInt64) : CM (Int64 × Int64 × Bool × UInt64 × ErrV) :=
  CScript.findBug checks seed fun x => CScript.ret (.ok x)
def shrink (err : ErrV) : CM (List UInt64 × ErrV) := CScript.shrink err fun x => CScript.ret (.ok x)
/-- `s.rec = s2.recordedBits; s.rec.prune()`: the pruned words of the recording of the last test case; the assertion of `prune`
    (a kept group that used no data) is a panic -/
def pruned : CM (List UInt64) :=
  CScript.pruned fun x => match x with
    | some d => CScript.ret (.ok d)
    | none => CScript.ret (.error .assertion)
def andThen (a b : CM Bool) : CM Bool := a >>= fun x => if x then b else pure false
def orElse (a b : CM Bool) : CM Bool := a >>= fun x => if x then pure true else b

end CM

/-- what the requests mean on the model: the property, the fail files by name, what the glob finds, the clock of the
    generation loop and the candidates of the shrinker -/
structure CEnv where
  p : Prog
  file : String → FF
  found : List String
  early : Nat → Bool
  cands : List (List UInt64)

def SSpec.src : SSpec → Src
  | .buf ws => .buf ws
  | .rng seed => .rng (Jsf.init seed)

/-- run a script on the model; the state is the test case of the last `once` (what `shrink` starts from) -/
def CScript.run {α : Type} (E : CEnv) : CScript α → Option Once → α × Option Once
  | .ret a, o => (a, o)
  | .glob k, o => (k E.found).run E o
  | .load n k, o =>
    match E.file n with
    | .unloadable => (k ("", [], true)).run E o
    | .loaded v _ buf => (k (v, buf, false)).run E o
  | .once s k, _ =>
    let r := checkOnce E.p s.src TS.fresh
    (k (r.err, r.used)).run E (some r)
  | .findBug checks seed k, o =>
    let fb := Rapid.findBug E.p (natOfInt checks) seed E.early
    (k (Int64.ofNat fb.valid, Int64.ofNat fb.invalid, fb.early, fb.seed, fb.err)).run E o
  | .shrink e k, o =>
    match o with
    | some r => (k (shrinkWith E.p ⟨r.kept, e⟩ E.cands)).run E o
    | none => (k ([], none)).run E o
  | .pruned k, o =>
    match o with
    | some r => (k (if (prunedOfToks r.toks).noEmptyGroup then some (prunedOfToks r.toks).data else none)).run E o
    | none => (k none).run E o

end Rapid.Go
