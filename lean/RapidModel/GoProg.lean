/-
  RapidModel.GoProg — what the translator needs to put Go functions that *use the bit stream*
  (`s.drawBits`, `s.beginGroup … s.endGroup`) into Lean, in continuation-passing style over `Prog`
  (RapidModel/Generated/Translated.lean, second half):

    * floating-point expressions are kept as syntax (`FX`): the translation does not interpret them.
      Where the code turns a float into an integer or compares two floats, the translation asks a
      float evaluator `FEval`; the theorems that tie the translated functions to the model say
      which facts about that evaluator they need (RapidProofs/TranslatedProgEq.lean: `FloatFacts`),
      and these are exactly the thresholds measured on the real functions on every run;
    * the values that leave a group body go through `Val` (`Enc`), as the interaction tree wants it.
-/
import RapidModel.Prog
import RapidModel.GoSem

namespace Rapid.Go

/-- a float64 expression of the source, uninterpreted -/
inductive FX where
  | lit (text : String)                 -- a constant, as written in the source
  | ofBits (b : UInt64)                 -- the float64 with this bit pattern (a value handed over by floats.go)
  | ofU64 (u : UInt64)                  -- float64(u)
  | ofI64 (i : Int64)                   -- float64(i)
  | neg (a : FX)
  | add (a b : FX)
  | sub (a b : FX)
  | mul (a b : FX)
  | div (a b : FX)
  | call1 (fn : String) (a : FX)        -- math.Log1p(a), …
  | call2 (fn : String) (a b : FX)      -- math.Max(a, b), …
deriving DecidableEq, Repr, Inhabited

/-- the float operations with an integer or boolean result -/
structure FEval where
  toU64 : FX → UInt64          -- uint64(f)
  toI64 : FX → Int64           -- int(f), int64(f)
  le : FX → FX → Bool          -- a <= b
  lt : FX → FX → Bool          -- a < b
  f64to32 : UInt64 → UInt32    -- float32(f) on bit patterns (floats.go narrows only what it widened before)

/-- `bits.Len64` (an `int`) -/
def len64 (u : UInt64) : Int64 := Int64.ofNat (Rapid.len64 u)

/-- the bit count handed to `drawBits` -/
def natOfInt (i : Int64) : Nat := i.toInt.toNat

/-- `assert`, `assertf`: the panic of a failed internal assertion -/
def siteAssert : Nat := 9002
def assertFailed : Err := .panic "assertion failed" siteAssert

/-! ### values that leave a group body -/

class Enc (α : Type) where
  enc : α → Val
  dec : Val → α

instance : Enc UInt64 := ⟨fun u => .int u.toNat, fun v => match v with | .int i => UInt64.ofNat i.toNat | _ => 0⟩
instance : Enc Int32 := ⟨fun i => .int i.toInt, fun v => match v with | .int i => Int32.ofInt i | _ => 0⟩
instance : Enc Int64 := ⟨fun i => .int i.toInt, fun v => match v with | .int i => Int64.ofInt i | _ => 0⟩
instance : Enc Bool := ⟨fun b => .bool b, fun v => match v with | .bool b => b | _ => false⟩
instance : Enc Unit := ⟨fun _ => .nil, fun _ => ()⟩
instance {α β : Type} [Enc α] [Enc β] : Enc (α × β) :=
  ⟨fun p => .cons (Enc.enc p.1) (Enc.enc p.2),
   fun v => match v with
     | .cons a b => (Enc.dec a, Enc.dec b)
     | _ => (Enc.dec .nil, Enc.dec .nil)⟩

def strVal (s : String) : Val := s.toList.foldr (fun c acc => .cons (.int c.toNat) acc) .nil
def valStr : Val → List Char
  | .cons (.int i) t => Char.ofNat i.toNat :: valStr t
  | _ => []

def FX.toVal : FX → Val
  | .lit s => .cons (.int 0) (strVal s)
  | .ofU64 u => .cons (.int 1) (.int u.toNat)
  | .ofI64 i => .cons (.int 2) (.int i.toInt)
  | .neg a => .cons (.int 3) a.toVal
  | .add a b => .cons (.int 4) (.cons a.toVal b.toVal)
  | .sub a b => .cons (.int 5) (.cons a.toVal b.toVal)
  | .mul a b => .cons (.int 6) (.cons a.toVal b.toVal)
  | .div a b => .cons (.int 7) (.cons a.toVal b.toVal)
  | .call1 f a => .cons (.int 8) (.cons (strVal f) a.toVal)
  | .call2 f a b => .cons (.int 9) (.cons (strVal f) (.cons a.toVal b.toVal))
  | .ofBits b => .cons (.int 10) (.int b.toNat)

def FX.ofVal : Val → FX
  | .cons (.int 0) s => .lit (String.ofList (valStr s))
  | .cons (.int 1) (.int u) => .ofU64 (UInt64.ofNat u.toNat)
  | .cons (.int 2) (.int i) => .ofI64 (Int64.ofInt i)
  | .cons (.int 3) a => .neg (FX.ofVal a)
  | .cons (.int 4) (.cons a b) => .add (FX.ofVal a) (FX.ofVal b)
  | .cons (.int 5) (.cons a b) => .sub (FX.ofVal a) (FX.ofVal b)
  | .cons (.int 6) (.cons a b) => .mul (FX.ofVal a) (FX.ofVal b)
  | .cons (.int 7) (.cons a b) => .div (FX.ofVal a) (FX.ofVal b)
  | .cons (.int 8) (.cons f a) => .call1 (String.ofList (valStr f)) (FX.ofVal a)
  | .cons (.int 9) (.cons f (.cons a b)) => .call2 (String.ofList (valStr f)) (FX.ofVal a) (FX.ofVal b)
  | .cons (.int 10) (.int b) => .ofBits (UInt64.ofNat b.toNat)
  | _ => .lit ""

instance : Enc FX := ⟨FX.toVal, FX.ofVal⟩

end Rapid.Go
