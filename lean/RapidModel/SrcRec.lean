/-
  RapidModel.SrcRec — the recording calls a run makes, replayed through the functions translated from /repo
  (`recordedBits.record`, `beginGroup`, `endGroup` of data.go): what the *source* records for a token sequence.
  The driver runs it on every recording it sees; `RapidProofs.TranslatedRecEq` proves it equal to `recOfToks`.
-/
import RapidModel.Generated.Translated
import RapidModel.Rec

namespace Rapid

/-- replay the recording calls with the translated source functions; `st`: indices of the open groups -/
def srcRecGo : List Tok → List UInt64 → List Translated.groupInfo → List Int64 → Option (List UInt64 × List Translated.groupInfo)
  | [], d, g, _ => some (d, g)
  | .w u :: ts, d, g, st =>
    match Translated.recordedBits_record d 0 true u with
    | .ok (d', _, _) => srcRecGo ts d' g st
    | .error _ => none
  | .opn l s :: ts, d, g, st =>
    match Translated.recordedBits_beginGroup d g 0 true l s with
    | .ok (i, d', g', _, _) => srcRecGo ts d' g' (i :: st)
    | .error _ => none
  | .cls dis :: ts, d, g, i :: st =>
    -- (a `cls false` token exists only for a group that used data: the assertion of endGroup holds)
    match Translated.recordedBits_endGroup d g 0 true i dis with
    | .ok (d', g', _, _) => srcRecGo ts d' g' st
    | .error _ => none
  | .cls _ :: ts, d, g, [] => srcRecGo ts d g []
  | .abort :: ts, d, g, st => srcRecGo ts d g st.tail

end Rapid
