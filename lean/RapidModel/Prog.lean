/-
  RapidModel.Prog — the interaction tree of rapid's API and its execution.

  A `Prog` is what a property function (or a generator) does with the `*T` it is given, as
  far as rapid can observe: it draws bits, opens and closes groups, fails fatally or
  not, skips, registers cleanups, asks for the context, calls a Custom function on an inner
  `*T`.  Every deterministic, terminating property function is such a tree; theorems that
  quantify over all `Prog` assume nothing else about it.
-/
import RapidModel.Bits

namespace Rapid

inductive Val where
  | int (i : Int)
  | bool (b : Bool)
  | nil
  | cons (h t : Val)
deriving DecidableEq, Repr, Inhabited

/-- what a test case can end with.  `site` stands for the traceback (call stack up to
    `checkOnce`) — rapid compares tracebacks as strings, the model compares sites. -/
inductive Err where
  | invalid (msg : String)               -- panic(invalidData(msg)): Skip*, overrun, rejections
  | stop (msg : String) (site : Nat)     -- panic(stopTest(msg)): Fatal*, FailNow, failOnError
  | panic (msg : String) (site : Nat)    -- any other panic value (incl. internal assertions)
  | fuel                                 -- model artefact: a loop of the model ran out of fuel
deriving DecidableEq, Repr, Inhabited

def Err.isInvalid : Err → Bool
  | .invalid _ => true
  | _ => false

def Err.site : Err → Nat
  | .invalid _ => 0
  | .stop _ s => s
  | .panic _ s => s
  | .fuel => 0

def Err.msg : Err → String
  | .invalid m => "invalid data: " ++ m
  | .stop m _ => m
  | .panic m _ => m
  | .fuel => "model: out of fuel"

/-- trace events (what the harness can observe besides values) -/
inductive Ev where
  | user (id : Nat)                 -- emitted by the program (body, action, cleanup)
  | ctx (id : Nat) (live : Bool)    -- T.Context() returned context `id`; live or cancelled
  | cancel (id : Nat)               -- context `id` cancelled by T.cleanup
  | cleanupBegin | cleanupEnd
  | signal                          -- a non-fatal failure was signalled (T.Error/Errorf/Fail, also Fatal*)
  | innerBegin | innerEnd
deriving DecidableEq, Repr

/-- a cleanup callback: a finite tree of what it does with `*T` -/
inductive CTree where
  | done
  | emit (id : Nat) (k : CTree)
  | errorf (msg : String) (k : CTree)
  | throw (e : Err)                    -- a panic (of any kind) inside a cleanup ends it
  | reg (c : CTree) (k : CTree)         -- t.Cleanup(c)
  | ctx (k : CTree)                    -- t.Context() during cleanup
deriving Repr, Inhabited

def CTree.size : CTree → Nat
  | .done => 1
  | .emit _ k => k.size + 1
  | .errorf _ k => k.size + 1
  | .throw _ => 1
  | .reg c k => c.size + k.size + 1
  | .ctx k => k.size + 1

/-- recording tokens: recorded words and group brackets, in order.  A group whose body
    raised is left unfinished in Go (`end = -1`): token `abort`. -/
inductive Tok where
  | w (u : UInt64)
  | opn (label : String) (standalone : Bool)
  | cls (discard : Bool)
  | abort
deriving DecidableEq, Repr

inductive Prog where
  | ret (v : Val)
  | draw (n : Nat) (k : UInt64 → Prog)                     -- s.drawBits(n)
  | group (label : String) (standalone : Bool) (body : Prog)
          (discard : Val → Bool) (k : Val → Prog)           -- beginGroup … endGroup(i, discard)
  | throw (e : Err)
  | catchInv (body : Prog) (k : Option Val → Bool → Prog)   -- recover() swallowing invalidData only;
                                                            -- the Bool: did `t.draws` change during body
  | errorf (msg : String) (k : Prog)                        -- T.Error/Errorf/Fail (non-fatal)
  | failOnError (site : Nat) (k : Prog)                     -- t.failOnError()
  | tick (k : Prog)                                         -- t.draws++
  | cleanup (c : CTree) (k : Prog)                          -- T.Cleanup(c)
  | ctx (k : Prog)                                          -- T.Context()
  | inner (body : Prog) (k : Val → Prog)                    -- Custom: fn on a fresh inner *T
  | emit (id : Nat) (k : Prog)
deriving Inhabited

/-- the mutable part of `*T` -/
structure TS where
  failed : Option String := none
  draws : Nat := 0
  cleanups : List CTree := []      -- head = registered last
  ctx : Option Nat := none          -- live context, if one was created
  ctxCount : Nat := 0               -- contexts created so far (fresh ids)
deriving Repr, Inhabited

def TS.fresh : TS := {}

structure Out where
  res : Except Err Val
  src : Src
  ts : TS
  used : List UInt64     -- recorded words
  kept : List UInt64     -- recorded words minus finished discarded groups (= `prune`)
  toks : List Tok        -- full recording with group brackets
  evs : List Ev
  overran : Bool         -- `invalidData("overrun")` was raised at least once (it may have been recovered)
deriving Inhabited

def Out.ofRes (r : Except Err Val) (src : Src) (ts : TS) : Out := ⟨r, src, ts, [], [], [], [], false⟩

/-- prefix recorded material of an earlier part of the run -/
def Out.after (o : Out) (used kept : List UInt64) (toks : List Tok) (evs : List Ev) (ov : Bool := false) : Out :=
  { o with used := used ++ o.used, kept := kept ++ o.kept, toks := toks ++ o.toks, evs := evs ++ o.evs,
           overran := ov || o.overran }

/-- result of running cleanup callbacks -/
structure COut where
  ts : TS
  evs : List Ev
  err : Option Err      -- the last failure raised by a cleanup, if any; else the last invalid data
deriving Inhabited

/-- run one cleanup callback.  `T.Context()` during cleanup: the context has been cancelled
    and cleared, `cleaning` is set ⇒ a fresh, already cancelled context. -/
def CTree.run : CTree → TS → COut
  | .done, ts => ⟨ts, [], none⟩
  | .emit id k, ts => let o := k.run ts; { o with evs := .user id :: o.evs }
  | .errorf m k, ts => let o := k.run { ts with failed := some m }; { o with evs := .signal :: o.evs }
  | .throw e, ts => ⟨ts, [], some e⟩
  | .reg c k, ts => k.run { ts with cleanups := c :: ts.cleanups }
  | .ctx k, ts =>
      let o := k.run { ts with ctxCount := ts.ctxCount + 1 }
      { o with evs := .ctx ts.ctxCount false :: o.evs }

/-- what `T.cleanup` ends with when an earlier callback ended with `e1` and the later ones with `e2`:
    a failure raised by a callback is a panic (the latest one wins, as with Go's `recover`); invalid
    data raised by a callback (a call of `Skip`, usually) is recovered and only recorded (the latest
    one), so that it cannot replace a failure -/
def pickErr (e1 e2 : Option Err) : Option Err :=
  match e2 with
  | none => e1
  | some b =>
    if b.isInvalid then
      match e1 with
      | some a => if a.isInvalid then some b else some a
      | none => some b
    else some b

/-- the pop-and-run loop of `T.cleanup` (a panicking cleanup does not stop the rest).  Fuel bounds
    the number of callbacks run. -/
def runStack : Nat → TS → COut
  | 0, ts => ⟨ts, [], none⟩
  | fuel+1, ts =>
    match ts.cleanups with
    | [] => ⟨ts, [], none⟩
    | c :: rest =>
      let o1 := c.run { ts with cleanups := rest }
      let o2 := runStack fuel o1.ts
      ⟨o2.ts, o1.evs ++ o2.evs, pickErr o1.err o2.err⟩

def stackSize (cs : List CTree) : Nat := (cs.map CTree.size).sum

/-- `T.cleanup()`: cancel the context first, then run the callbacks LIFO -/
def cleanupPhase (ts : TS) : COut :=
  let (ts1, ev1) := match ts.ctx with
    | some id => ({ ts with ctx := none }, [Ev.cancel id])
    | none => (ts, [])
  let o := runStack (stackSize ts1.cleanups) ts1
  { o with evs := Ev.cleanupBegin :: ev1 ++ o.evs ++ [Ev.cleanupEnd] }

/-! ### tracebacks of panics raised while another panic is in flight

  `T.cleanup` runs as a deferred call: when the body panicked (with anything, `invalidData`
  included) its frames are still on the stack while the callbacks run, and when a callback panics
  the remaining ones are run from a deferred re-entry *on top of* that callback's frames.  The
  traceback rapid compares (`panicToError`: the stack up to `checkOnce`) of a panic raised by a
  callback therefore contains the panic sites of everything that panicked before it in this test
  case.  The model's `site` of such an error is the pair (context, own site), the context being
  the sequence of those earlier errors. -/

def strCode (m : String) : Nat := m.foldl (fun h c => (h * 31 + c.toNat) % 999983) 7

def errCode : Err → Nat
  | .invalid m => 1000000 + strCode m
  | .stop _ s => s
  | .panic _ s => s
  | .fuel => 0

def ctxStep : Nat := 2000003

/-- the context after one more error is in flight -/
def ctxPush (cx : Nat) (e : Err) : Nat := cx * ctxStep + errCode e + 1

/-- an error raised with context `cx` below it on the stack -/
def Err.nest (cx : Nat) : Err → Err
  | .stop m s => .stop m (s + ctxStep * cx)
  | .panic m s => .panic m (s + ctxStep * cx)
  | e => e

/-- the errors thrown by the callbacks of `runStack`, in order -/
def runStackErrs : Nat → TS → List Err
  | 0, _ => []
  | fuel+1, ts =>
    match ts.cleanups with
    | [] => []
    | c :: rest =>
      let o1 := c.run { ts with cleanups := rest }
      (match o1.err with | some e => [e] | none => []) ++ runStackErrs fuel o1.ts

/-- the context of the LAST error thrown by a callback of `T.cleanup()` on `ts`, when the call
    it cleans up after ended with `res` -/
def cleanupCtx (res : Except Err Val) (ts : TS) : Nat :=
  let ts1 : TS := match ts.ctx with | some _ => { ts with ctx := none } | none => ts
  -- invalid data raised by a callback is recovered on the spot: it is never in flight
  let errs := (runStackErrs (stackSize ts1.cleanups) ts1).filter (fun e => !e.isInvalid)
  let cx0 := match res with | .error e => ctxPush 0 e | .ok _ => 0
  errs.dropLast.foldl ctxPush cx0

def groupAssertMsg : String := "group did not use any data from bitstream"
def siteGroupAssert : Nat := 9001

def Prog.run : Prog → Src → TS → Out
  | .ret v, src, ts => .ofRes (.ok v) src ts
  | .throw e, src, ts => .ofRes (.error e) src ts
  | .draw n k, src, ts =>
      match src.next n with
      | none => { Out.ofRes (.error (.invalid "overrun")) src ts with overran := true }
      | some (u, src') => ((k u).run src' ts).after [u] [u] [.w u] []
  | .group l s b d k, src, ts =>
      let o := b.run src ts
      match o.res with
      | .error _ => { o with toks := .opn l s :: o.toks ++ [.abort] }
      | .ok v =>
        if !d v && o.used.isEmpty then
          { o with res := .error (.panic groupAssertMsg siteGroupAssert),
                   toks := .opn l s :: o.toks ++ [.abort] }
        else
          ((k v).run o.src o.ts).after o.used (if d v then [] else o.kept)
            (.opn l s :: o.toks ++ [.cls (d v)]) o.evs o.overran
  | .catchInv b k, src, ts =>
      let o := b.run src ts
      match o.res with
      | .ok v => ((k (some v) (o.ts.draws != ts.draws)).run o.src o.ts).after o.used o.kept o.toks o.evs o.overran
      | .error (.invalid _) =>
          ((k none (o.ts.draws != ts.draws)).run o.src o.ts).after o.used o.kept o.toks o.evs o.overran
      | .error _ => o
  | .errorf m k, src, ts => (k.run src { ts with failed := some m }).after [] [] [] [.signal]
  | .failOnError site k, src, ts =>
      match ts.failed with
      | some m => .ofRes (.error (.stop m site)) src ts
      | none => k.run src ts
  | .tick k, src, ts => k.run src { ts with draws := ts.draws + 1 }
  | .cleanup c k, src, ts => k.run src { ts with cleanups := c :: ts.cleanups }
  | .ctx k, src, ts =>
      match ts.ctx with
      | some id => (k.run src ts).after [] [] [] [.ctx id true]
      | none => (k.run src { ts with ctx := some ts.ctxCount, ctxCount := ts.ctxCount + 1 }).after
                  [] [] [] [.ctx ts.ctxCount true]
  | .inner b k, src, ts =>
      -- customGen.maybeValue: fresh T on the same stream; deferred cleanup; a non-fatal
      -- failure of the inner T is a failure of the parent (it shares the test case)
      let o := b.run src TS.fresh
      let c := cleanupPhase o.ts
      let failed := match c.ts.failed with | some m => some m | none => ts.failed
      let ts' : TS := { ts with failed := failed }
      let evs := Ev.innerBegin :: o.evs ++ c.evs ++ [Ev.innerEnd]
      match c.err with
      | some e =>
        -- invalid data from a cleanup callback rejects the attempt unless the function is failing
        { o with res := (if e.isInvalid && (match o.res with | .error e0 => !e0.isInvalid | .ok _ => false) then o.res
                         else .error (e.nest (cleanupCtx o.res o.ts))),
                 ts := ts', evs := evs }
      | none =>
        match o.res with
        | .error _ => { o with ts := ts', evs := evs }
        | .ok v => ((k v).run o.src ts').after o.used o.kept o.toks evs o.overran
  | .emit id k, src, ts => (k.run src ts).after [] [] [] [.user id]

/-- sequencing -/
def Prog.bind : Prog → (Val → Prog) → Prog
  | .ret v, f => f v
  | .throw e, _ => .throw e
  | .draw n k, f => .draw n (fun w => (k w).bind f)
  | .group l s b d k, f => .group l s b d (fun v => (k v).bind f)
  | .catchInv b k, f => .catchInv b (fun o d => (k o d).bind f)
  | .errorf m k, f => .errorf m (k.bind f)
  | .failOnError s k, f => .failOnError s (k.bind f)
  | .tick k, f => .tick (k.bind f)
  | .cleanup c k, f => .cleanup c (k.bind f)
  | .ctx k, f => .ctx (k.bind f)
  | .inner b k, f => .inner b (fun v => (k v).bind f)
  | .emit id k, f => .emit id (k.bind f)

infixl:55 " >>- " => Prog.bind

/-- `T.Fatal*/FailNow` at call site `site`: `fail(now=true)` sets `failed`, then panics -/
def Prog.fatal (msg : String) (site : Nat) : Prog := .errorf msg (.throw (.stop msg site))
def CTree.fatal (msg : String) (site : Nat) : CTree := .errorf msg (.throw (.stop msg site))
/-- `T.Skip*` -/
def Prog.skip (msg : String) : Prog := .throw (.invalid msg)

end Rapid
