/-
  RapidModel.Gen — the public generators (integers.go, collections.go, combinators.go,
  strings.go without the unicode tables) as a deep syntax `Gen` compiled to `Prog`.

  Values: integers and runes are `Val.int`, booleans `Val.bool`, slices / strings / maps are
  `cons` chains (a map is the chain of `cons key value` pairs in insertion order), a nil
  pointer is `nil`, a non-nil pointer `cons v nil`, `SampledFrom(slice)` yields the index.
  User callbacks (`Filter`, `Map`, key functions) are arbitrary Lean functions.
-/
import RapidModel.Prim
import RapidModel.Float

namespace Rapid

/-- repeat thresholds come from float arithmetic on user parameters; the model takes them
    from an oracle (computed with IEEE doubles in the driver, universally quantified in
    theorems) -/
structure RT where
  /-- `newRepeat(min, max, -1, _)`: `min`/`max` already normalised (`<0 ↦ 0` / `MaxInt`) -/
  rep : Nat → Nat → UInt64
  /-- `Permutation`'s repeat (`avgCount = MaxInt`) -/
  perm : UInt64
  /-- `T.Repeat` (`avgCount = steps`) -/
  steps : UInt64

def maxInt : Nat := 9223372036854775807

def normMin (m : Int) : Nat := if m < 0 then 0 else m.toNat
def normMax (m : Int) : Nat := if m < 0 then maxInt else m.toNat

def Val.ofList : List Val → Val
  | [] => .nil
  | v :: vs => .cons v (Val.ofList vs)

def Val.toList : Val → List Val
  | .cons h t => h :: t.toList
  | _ => []

def Val.snoc : Val → Val → Val
  | .cons h t, x => .cons h (t.snoc x)
  | _, x => .cons x .nil

def Val.length : Val → Nat
  | .cons _ t => t.length + 1
  | _ => 0

/-- is `k` among the elements of the chain (maps: among the keys) -/
def Val.hasKey (key : Val → Val) : Val → Val → Bool
  | .cons h t, k => key h == k || Val.hasKey key t k
  | _, _ => false

/-- UTF-8 length of a rune, `none` for surrogates / out of range (`utf8.RuneLen < 0`) -/
def runeLen (r : Int) : Option Nat :=
  if r < 0 then none
  else if r < 0x80 then some 1
  else if r < 0x800 then some 2
  else if 0xD800 ≤ r ∧ r ≤ 0xDFFF then none
  else if r < 0x10000 then some 3
  else if r ≤ 0x10FFFF then some 4
  else none

def Val.byteLen : Val → Nat
  | .cons (.int r) t => (runeLen r).getD 0 + t.byteLen
  | .cons _ t => t.byteLen
  | _ => 0

inductive Gen where
  | bool
  | uint (min max : UInt64)                 -- every unsigned kind / range
  | int (min max : Int64)                   -- every signed kind / range
  | sampled (n : Nat)                       -- SampledFrom / Just: index into a slice of n
  | oneOf (n : Nat) (g : Nat → Gen)
  | filter (g : Gen) (p : Val → Bool)
  | map (g : Gen) (f : Val → Val)
  | slice (elem : Gen) (minLen maxLen : Int)
  | distinct (elem : Gen) (minLen maxLen : Int) (key : Val → Val)
  | mapOf (key val : Gen) (minLen maxLen : Int)
  | mapOfValues (val : Gen) (minLen maxLen : Int) (key : Val → Val)
  | ptr (elem : Gen) (allowNil : Bool)
  | perm (n : Nat)
  | custom (body : Prog)                    -- Custom(fn): fn as a Prog over the inner *T
  | deferred (g : Gen)
  | asAny (g : Gen)                         -- g.AsAny()
  | runeFrom (runes : List Int)             -- RuneFrom(runes) without tables
  | stringOf (elem : Gen) (minRunes maxRunes maxLen : Int)
  | float (f : FFmt) (min max : UInt64)     -- Float32Range / Float64Range on bit patterns; the value is the bit pattern
deriving Inhabited

structure Env where
  ft : FT
  rt : RT
  fuel : Nat
  /-- has `String()` been called on every generator before it is used (a generator's group is
      labelled with its cached string, which is empty until then) -/
  strAll : Bool := false

def swapAt (l : List Val) (i j : Nat) : List Val :=
  let a := l.getD i .nil
  let b := l.getD j .nil
  (l.set i b).set j a

def customFailMsg := "failed to find suitable value in 5 tries"

/-- `String()` of a generator: the label of its standalone group.  Only equality of labels
    matters (the shrinker's `sortGroups` swaps groups with equal labels); type names (`%T`) are
    the ones of the harness, where every value type is `any` and every integer kind 64-bit. -/
def Gen.label : Gen → String
  | .bool => "Bool()"
  | .uint a b => s!"Uint64Range({a.toNat}, {b.toNat})"
  | .int a b => s!"Int64Range({a.toInt}, {b.toInt})"
  | .sampled n => if n == 1 then "Just(0)" else s!"SampledFrom({n} int64)"
  | .oneOf n g => "OneOf(" ++ ", ".intercalate ((List.range n).map fun i => (g i).label) ++ ")"
  | .filter g _ => g.label ++ ".Filter(...)"
  | .map g _ => "Map(" ++ g.label ++ ", func)"
  | .slice e lo hi =>
      if lo < 0 ∧ hi < 0 then s!"SliceOf({e.label})" else s!"SliceOfN({e.label}, minLen={lo}, maxLen={hi})"
  | .distinct e lo hi _ =>
      if lo < 0 ∧ hi < 0 then s!"SliceOfDistinct({e.label}, key=func)"
      else s!"SliceOfNDistinct({e.label}, minLen={lo}, maxLen={hi}, key=func)"
  | .mapOf k v lo hi =>
      if lo < 0 ∧ hi < 0 then s!"MapOf({k.label}, {v.label})"
      else s!"MapOfN({k.label}, {v.label}, minLen={lo}, maxLen={hi})"
  | .mapOfValues v lo hi _ =>
      if lo < 0 ∧ hi < 0 then s!"MapOfValues({v.label}, key=func)"
      else s!"MapOfNValues({v.label}, minLen={lo}, maxLen={hi}, key=func)"
  | .ptr e b => s!"Ptr({e.label}, allowNil={b})"
  | .perm n => s!"Permutation({n} any)"
  | .custom _ => "Custom(any)"
  | .deferred _ => "Deferred(any)"
  | .asAny g => g.label ++ ".AsAny()"
  | .runeFrom rs => s!"Rune({rs.length} runes, 0 tables)"
  | .stringOf e a b c =>
      if a < 0 ∧ b < 0 ∧ c < 0 then s!"StringOf({e.label})"
      else s!"StringOfN({e.label}, minRunes={a}, maxRunes={b}, maxLen={c})"
  | .float f a b => s!"Float{1 + f.E + f.S}Range({a.toNat}, {b.toNat})"

/-- the label `Generator.value` gives its group: `g.str`, the cached `String()`, empty until
    `String()` has been called on this generator.  Collections call `String()` on their element
    generators before drawing (it is the label of the repeat), and `String()` formats the
    sub-generators (`%v`), which caches theirs; nothing else does. -/
def Gen.lbl (lab : Bool) (g : Gen) : String := if lab then g.label else ""

/-- `Generator.value`: the standalone group around `impl.value` -/
def wrapValue (label : String) (body : Prog) : Prog := .group label true body (fun _ => false) .ret

/-- `impl.value` -/
def Gen.body (e : Env) : Bool → Gen → Prog
  | _, .bool => .draw 1 fun w => .ret (.bool (w == 1))
  | _, .uint min max => uintRange e.ft min max true e.fuel fun u _ _ => .ret (uv u)
  | _, .int min max => intRange e.ft min max e.fuel fun i _ _ => .ret (.int i.toInt)
  | _, .sampled n => index e.ft n true e.fuel fun i => .ret (.int i)
  | lab, .oneOf n g => index e.ft n true e.fuel fun i => wrapValue ((g i).lbl lab) ((g i).body e lab)
  | lab, .filter g p =>
      findLoop ((wrapValue (g.lbl lab) (g.body e lab)) >>- fun v => .ret (if p v then .cons v .nil else .nil))
        (fun r => r != .nil) (fun r => match r with | .cons v _ => .ret v | _ => .ret .nil) 5
  | lab, .map g f => (wrapValue (g.lbl lab) (g.body e lab)) >>- fun v => .ret (f v)
  | _, .slice elem minLen maxLen =>
      let c : RCfg := ⟨normMin minLen, normMax maxLen, e.rt.rep (normMin minLen) (normMax maxLen), elem.label⟩
      repeatLoop c (fun acc => (wrapValue elem.label (elem.body e true)) >>- fun v => .ret (rAcc (acc.snoc v))) .ret e.fuel {} .nil
  | _, .distinct elem minLen maxLen key =>
      let c : RCfg := ⟨normMin minLen, normMax maxLen, e.rt.rep (normMin minLen) (normMax maxLen), elem.label⟩
      repeatLoop c (fun acc => (wrapValue elem.label (elem.body e true)) >>- fun v =>
          .ret (if acc.hasKey key (key v) then rRej else rAcc (acc.snoc v))) .ret e.fuel {} .nil
  | _, .mapOf kg vg minLen maxLen =>
      let c : RCfg := ⟨normMin minLen, normMax maxLen, e.rt.rep (normMin minLen) (normMax maxLen), (kg.label ++ "," ++ vg.label)⟩
      repeatLoop c (fun acc => (wrapValue kg.label (kg.body e true)) >>- fun k => (wrapValue vg.label (vg.body e true)) >>- fun v =>
          .ret (if acc.hasKey (fun kv => match kv with | .cons k' _ => k' | x => x) k then rRej
                else rAcc (acc.snoc (.cons k v)))) .ret e.fuel {} .nil
  | _, .mapOfValues vg minLen maxLen key =>
      let c : RCfg := ⟨normMin minLen, normMax maxLen, e.rt.rep (normMin minLen) (normMax maxLen), vg.label⟩
      repeatLoop c (fun acc => (wrapValue vg.label (vg.body e true)) >>- fun v =>
          .ret (if acc.hasKey (fun kv => match kv with | .cons k' _ => k' | x => x) (key v) then rRej
                else rAcc (acc.snoc (.cons (key v) v)))) .ret e.fuel {} .nil
  | lab, .ptr elem allowNil =>
      coin (if allowNil then e.ft.coinHalf else thrAlways) fun nonNil =>
        if nonNil then (wrapValue (elem.lbl lab) (elem.body e lab)) >>- fun v => .ret (.cons v .nil) else .ret .nil
  | _, .perm n =>
      let c : RCfg := ⟨0, n - 1, e.rt.perm, "permute"⟩
      -- acc = cons (int i) slice
      repeatLoop c (fun acc =>
          match acc with
          | .cons (.int i) sl =>
            uintRange e.ft (UInt64.ofNat i.toNat) (UInt64.ofNat (n - 1)) false e.fuel fun j _ _ =>
              .ret (rAcc (.cons (.int (i + 1)) (Val.ofList (swapAt sl.toList i.toNat j.toNat))))
          | _ => .ret (rAcc acc))   -- unreachable: the accumulator always has this shape
        (fun acc => match acc with | .cons _ sl => .ret sl | _ => .ret .nil)
        e.fuel {} (.cons (.int 0) (Val.ofList ((List.range n).map fun (i : Nat) => Val.int (Int.ofNat i))))
  | _, .custom body =>
      findLoop (.inner (.catchInv body fun o _ => .ret (match o with | some v => .cons v .nil | none => .nil)) .ret)
        (fun r => r != .nil) (fun r => match r with | .cons v _ => .ret v | _ => .ret .nil) 5
  | _, .deferred g => wrapValue (g.lbl e.strAll) (g.body e e.strAll)
  | lab, .asAny g => wrapValue (g.lbl lab) (g.body e lab)
  | _, .runeFrom runes =>
      dieRoll e.ft [0] e.fuel fun _ =>
        index e.ft runes.length true e.fuel fun i => .ret (.int (runes.getD i 0))
  | _, .stringOf elem minRunes maxRunes maxLen =>
      let c : RCfg := ⟨normMin minRunes, normMax maxRunes, e.rt.rep (normMin minRunes) (normMax maxRunes), elem.label⟩
      let maxB : Nat := normMax maxLen
      repeatLoop c (fun acc => (wrapValue elem.label (elem.body e true)) >>- fun v =>
          .ret (match v with
            | .int r => match runeLen r with
              | some n => if acc.byteLen + n > maxB then rRej else rAcc (acc.snoc v)
              | none => rRej
            | _ => rRej)) .ret e.fuel {} .nil
  | _, .float f min max => floatValue e.ft f min max e.fuel fun b => .ret (uv b)

def Gen.value (e : Env) (g : Gen) : Prog := wrapValue (g.lbl e.strAll) (g.body e e.strAll)

/-- `g.Draw(t, label)`: value, then `t.draws++` -/
def Gen.draw (e : Env) (g : Gen) (k : Val → Prog) : Prog :=
  (wrapValue (g.lbl e.strAll) (g.body e e.strAll)) >>- fun v => .tick (k v)

end Rapid
