/-
  RapidModel.Gen — the public generators (integers.go, collections.go, combinators.go,
  strings.go without the unicode tables) as a deep syntax `Gen` compiled to `Prog`.

  Values: integers and runes are `Val.int`, booleans `Val.bool`, slices / strings / maps are
  `cons` chains (a map is the chain of `cons key value` pairs in insertion order), a nil
  pointer is `nil`, a non-nil pointer `cons v nil`, `SampledFrom(slice)` yields the index.
  User callbacks (`Filter`, `Map`, key functions) are arbitrary Lean functions.
-/
import RapidModel.Prim

namespace Rapid

/-- repeat thresholds come from float arithmetic on user parameters; the model takes them
    from an oracle (computed with IEEE doubles in the driver, universally quantified in
    theorems) -/
structure RT where
  /-- `newRepeat(min, max, -1, _)`: `min`/`max` already normalised (`<0 ↦ 0` / `MaxInt`) -/
  rep : Nat → Nat → UInt64
  /-- `Permutation`'s repeat (`avgCount = MaxInt`) -/
  perm : UInt64
  /-- `T.Repeat` (`avgCount = steps`) -/
  steps : UInt64

def maxInt : Nat := 9223372036854775807

def normMin (m : Int) : Nat := if m < 0 then 0 else m.toNat
def normMax (m : Int) : Nat := if m < 0 then maxInt else m.toNat

def Val.ofList : List Val → Val
  | [] => .nil
  | v :: vs => .cons v (Val.ofList vs)

def Val.toList : Val → List Val
  | .cons h t => h :: t.toList
  | _ => []

def Val.snoc : Val → Val → Val
  | .cons h t, x => .cons h (t.snoc x)
  | _, x => .cons x .nil

def Val.length : Val → Nat
  | .cons _ t => t.length + 1
  | _ => 0

/-- is `k` among the elements of the chain (maps: among the keys) -/
def Val.hasKey (key : Val → Val) : Val → Val → Bool
  | .cons h t, k => key h == k || Val.hasKey key t k
  | _, _ => false

/-- UTF-8 length of a rune, `none` for surrogates / out of range (`utf8.RuneLen < 0`) -/
def runeLen (r : Int) : Option Nat :=
  if r < 0 then none
  else if r < 0x80 then some 1
  else if r < 0x800 then some 2
  else if 0xD800 ≤ r ∧ r ≤ 0xDFFF then none
  else if r < 0x10000 then some 3
  else if r ≤ 0x10FFFF then some 4
  else none

def Val.byteLen : Val → Nat
  | .cons (.int r) t => (runeLen r).getD 0 + t.byteLen
  | .cons _ t => t.byteLen
  | _ => 0

inductive Gen where
  | bool
  | uint (min max : UInt64)                 -- every unsigned kind / range
  | int (min max : Int64)                   -- every signed kind / range
  | sampled (n : Nat)                       -- SampledFrom / Just: index into a slice of n
  | oneOf (n : Nat) (g : Nat → Gen)
  | filter (g : Gen) (p : Val → Bool)
  | map (g : Gen) (f : Val → Val)
  | slice (elem : Gen) (minLen maxLen : Int)
  | distinct (elem : Gen) (minLen maxLen : Int) (key : Val → Val)
  | mapOf (key val : Gen) (minLen maxLen : Int)
  | mapOfValues (val : Gen) (minLen maxLen : Int) (key : Val → Val)
  | ptr (elem : Gen) (allowNil : Bool)
  | perm (n : Nat)
  | custom (body : Prog)                    -- Custom(fn): fn as a Prog over the inner *T
  | deferred (g : Gen)
  | runeFrom (runes : List Int)             -- RuneFrom(runes) without tables
  | stringOf (elem : Gen) (minRunes maxRunes maxLen : Int)
deriving Inhabited

structure Env where
  ft : FT
  rt : RT
  fuel : Nat

def swapAt (l : List Val) (i j : Nat) : List Val :=
  let a := l.getD i .nil
  let b := l.getD j .nil
  (l.set i b).set j a

def customFailMsg := "failed to find suitable value in 5 tries"

/-- `Generator.value`: the standalone group around `impl.value` -/
def wrapValue (body : Prog) : Prog := .group "*" true body (fun _ => false) .ret

/-- `impl.value` -/
def Gen.body (e : Env) : Gen → Prog
  | .bool => .draw 1 fun w => .ret (.bool (w == 1))
  | .uint min max => uintRange e.ft min max true e.fuel fun u _ _ => .ret (uv u)
  | .int min max => intRange e.ft min max e.fuel fun i _ _ => .ret (.int i.toInt)
  | .sampled n => index e.ft n true e.fuel fun i => .ret (.int i)
  | .oneOf n g => index e.ft n true e.fuel fun i => wrapValue ((g i).body e)
  | .filter g p =>
      findLoop ((wrapValue (g.body e)) >>- fun v => .ret (if p v then .cons v .nil else .nil))
        (fun r => r != .nil) (fun r => match r with | .cons v _ => .ret v | _ => .ret .nil) 5
  | .map g f => (wrapValue (g.body e)) >>- fun v => .ret (f v)
  | .slice elem minLen maxLen =>
      let c : RCfg := ⟨normMin minLen, normMax maxLen, e.rt.rep (normMin minLen) (normMax maxLen), "*"⟩
      repeatLoop c (fun acc => (wrapValue (elem.body e)) >>- fun v => .ret (rAcc (acc.snoc v))) .ret e.fuel {} .nil
  | .distinct elem minLen maxLen key =>
      let c : RCfg := ⟨normMin minLen, normMax maxLen, e.rt.rep (normMin minLen) (normMax maxLen), "*"⟩
      repeatLoop c (fun acc => (wrapValue (elem.body e)) >>- fun v =>
          .ret (if acc.hasKey key (key v) then rRej else rAcc (acc.snoc v))) .ret e.fuel {} .nil
  | .mapOf kg vg minLen maxLen =>
      let c : RCfg := ⟨normMin minLen, normMax maxLen, e.rt.rep (normMin minLen) (normMax maxLen), "*"⟩
      repeatLoop c (fun acc => (wrapValue (kg.body e)) >>- fun k => (wrapValue (vg.body e)) >>- fun v =>
          .ret (if acc.hasKey (fun kv => match kv with | .cons k' _ => k' | x => x) k then rRej
                else rAcc (acc.snoc (.cons k v)))) .ret e.fuel {} .nil
  | .mapOfValues vg minLen maxLen key =>
      let c : RCfg := ⟨normMin minLen, normMax maxLen, e.rt.rep (normMin minLen) (normMax maxLen), "*"⟩
      repeatLoop c (fun acc => (wrapValue (vg.body e)) >>- fun v =>
          .ret (if acc.hasKey (fun kv => match kv with | .cons k' _ => k' | x => x) (key v) then rRej
                else rAcc (acc.snoc (.cons (key v) v)))) .ret e.fuel {} .nil
  | .ptr elem allowNil =>
      coin (if allowNil then e.ft.coinHalf else thrAlways) fun nonNil =>
        if nonNil then (wrapValue (elem.body e)) >>- fun v => .ret (.cons v .nil) else .ret .nil
  | .perm n =>
      let c : RCfg := ⟨0, n - 1, e.rt.perm, "permute"⟩
      -- acc = cons (int i) slice
      repeatLoop c (fun acc =>
          match acc with
          | .cons (.int i) sl =>
            uintRange e.ft (UInt64.ofNat i.toNat) (UInt64.ofNat (n - 1)) false e.fuel fun j _ _ =>
              .ret (rAcc (.cons (.int (i + 1)) (Val.ofList (swapAt sl.toList i.toNat j.toNat))))
          | _ => .ret (rAcc acc))   -- unreachable: the accumulator always has this shape
        (fun acc => match acc with | .cons _ sl => .ret sl | _ => .ret .nil)
        e.fuel {} (.cons (.int 0) (Val.ofList ((List.range n).map fun (i : Nat) => Val.int (Int.ofNat i))))
  | .custom body =>
      findLoop (.inner (.catchInv body fun o _ => .ret (match o with | some v => .cons v .nil | none => .nil)) .ret)
        (fun r => r != .nil) (fun r => match r with | .cons v _ => .ret v | _ => .ret .nil) 5
  | .deferred g => wrapValue (g.body e)
  | .runeFrom runes =>
      dieRoll e.ft [0] e.fuel fun _ =>
        index e.ft runes.length true e.fuel fun i => .ret (.int (runes.getD i 0))
  | .stringOf elem minRunes maxRunes maxLen =>
      let c : RCfg := ⟨normMin minRunes, normMax maxRunes, e.rt.rep (normMin minRunes) (normMax maxRunes), "*"⟩
      let maxB : Nat := normMax maxLen
      repeatLoop c (fun acc => (wrapValue (elem.body e)) >>- fun v =>
          .ret (match v with
            | .int r => match runeLen r with
              | some n => if acc.byteLen + n > maxB then rRej else rAcc (acc.snoc v)
              | none => rRej
            | _ => rRej)) .ret e.fuel {} .nil

def Gen.value (e : Env) (g : Gen) : Prog := wrapValue (g.body e)

/-- `g.Draw(t, label)`: value, then `t.draws++` -/
def Gen.draw (e : Env) (g : Gen) (k : Val → Prog) : Prog :=
  (wrapValue (g.body e)) >>- fun v => .tick (k v)

end Rapid
