/-
  RapidModel.GoScript — what the translator needs for the passes of the shrinker (shrink.go): code that reads the
  shrinker's state (`s.rec.data`, `s.rec.groups`, `s.shrinks`) again and again while calls of `s.accept` replace it.

  `Go.SM α` is a `Script` (RapidModel/Passes.lean: `get` the current view of the shrinker, `try_` a candidate =
  `shrinker.accept`) whose result is a value or a panic of the Go code (`Go.Panic`: index or slice expression out of
  range, a failed assertion, or — an artefact of the translation — a loop that ran out of fuel).  The deadline of the
  source never expires in the translation; a loop that runs out of fuel is a deadline cut.
-/
import RapidModel.Passes
import RapidModel.GoImp

namespace Rapid.Go

def SM (α : Type) : Type := Script (Except Panic α)

namespace SM

def ret {α : Type} (a : α) : SM α := Script.ret (.ok a)

def bind {α β : Type} (x : SM α) (f : α → SM β) : SM β :=
  Script.bind x fun r =>
    match r with
    | .ok a => f a
    | .error e => Script.ret (.error e)

instance : Monad SM where
  pure := ret
  bind := bind

/-- a computation of the pure imperative fragment (index expressions, `without`, …) -/
def ofM {α : Type} (x : M α) : SM α := Script.ret x

/-- a loop of the translation ran out of fuel -/
def fuel {α : Type} : SM α := Script.ret (.error .fuel)

/-- `s.rec.data` -/
def data : SM (List UInt64) := Script.get fun v => Script.ret (.ok v.rc.data)

/-- `s.rec.groups`, its entries converted to the translated `groupInfo` -/
def groups {γ : Type} (conv : GI → γ) : SM (List γ) := Script.get fun v => Script.ret (.ok (v.rc.groups.map conv))

/-- `s.shrinks` -/
def shrinks : SM Int64 := Script.get fun v => Script.ret (.ok (Int64.ofNat v.shrinks))

/-- `s.accept(buf, …)` -/
def accept (buf : List UInt64) : SM Bool := Script.try_ buf fun b => Script.ret (.ok b)

/-- `a && b`: `b` is evaluated only if `a` holds -/
def andThen (a b : SM Bool) : SM Bool := a >>= fun x => if x then b else pure false

/-- `a || b` likewise -/
def orElse (a b : SM Bool) : SM Bool := a >>= fun x => if x then pure true else b

end SM

end Rapid.Go
