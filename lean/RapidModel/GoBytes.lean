/-
  RapidModel.GoBytes — what the translator needs for persist.go (the content of a fail file): Go strings are byte lists,
  the library calls are the model's ports (RapidModel/Persist.lean), an `error` is a Bool ("is not nil").
-/
import RapidModel.Persist
import RapidModel.GoImp

namespace Rapid.Go

/-- `strings.HasPrefix(s, p)` -/
def hasPrefix (s p : List UInt8) : Bool := p.isPrefixOf s

/-- `u, err := strconv.ParseUint(…)`: the value (0 on error) -/
def parsedValue (r : Except NumErr UInt64) : UInt64 :=
  match r with
  | .ok v => v
  | .error _ => 0

/-- … and whether `err != nil` -/
def parsedError (r : Except NumErr UInt64) : Bool :=
  match r with
  | .ok _ => false
  | .error _ => true

end Rapid.Go
