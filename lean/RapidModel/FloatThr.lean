/-
  RapidModel.FloatThr — thresholds that depend on user parameters, computed with IEEE doubles
  exactly as utils.go does (`newRepeat`, `flipBiasedCoin`).  Executable only: no theorem
  depends on this file (theorems quantify over the thresholds).
-/
import RapidModel.Gen

namespace Rapid

def two53 : Float := 9007199254740992.0

/-- least 53-bit word `w` with `float64(w) * 2^-53 >= 1 - p` -/
def coinThrOfP (p : Float) : UInt64 :=
  let x := (1.0 - p) * two53          -- exact: scaling by a power of two
  if x ≤ 0.0 then 0 else (Float.ceil x).toUInt64

/-- `newRepeat(minCount, maxCount, avgCount<0, _).pContinue` for normalised counts -/
def repPContinue (minC maxC : Nat) : Float :=
  let mn := minC.toFloat
  let mx := maxC.toFloat
  let a := if mn < 5.0 then 5.0 else mn          -- math.Max(float64(minCount), small)
  let b := (mx - mn) / 2.0
  let avg := mn + (if a < b then a else b)       -- math.Min
  1.0 - 1.0 / (1.0 + avg - mn)

def pContinueAvg (minC : Nat) (avg : Float) : Float := 1.0 - 1.0 / (1.0 + avg - minC.toFloat)

def floatRT (steps : Nat) : RT where
  rep := fun mn mx => coinThrOfP (repPContinue mn mx)
  perm := coinThrOfP (pContinueAvg 0 maxInt.toFloat)
  steps := coinThrOfP (pContinueAvg 0 steps.toFloat)

end Rapid
