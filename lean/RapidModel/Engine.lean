/-
  RapidModel.Engine — engine.go / statemachine.go / shrink.go (`accept`, `compareData`) as
  pure functions over `Prog`.
-/
import RapidModel.Gen

namespace Rapid

/-! ### T.Repeat (statemachine.go) -/

def sitePending : Nat := 9101       -- failOnError in pendingFailure, after the property and its cleanups
def siteAfterAction : Nat := 9110   -- failOnError in runAction
def siteAfterCheck : Nat := 9111    -- failOnError after sm.check in the loop
def siteInitCheck : Nat := 9112     -- failOnError after the initial sm.check
def siteNoValid : Nat := 9113       -- "can't find a valid (non-skipped) action"
def siteSkipFail : Nat := 9114      -- failOnError in runAction's recover (failed, then skipped)

def noValidActionsMsg := "can't find a valid (non-skipped) action"
def validActionTries : Nat := 100

/-- `runAction`: `(invalid, skipped)` -/
def runActionP (action : Prog) (k : Bool → Bool → Prog) : Prog :=
  .catchInv (action >>- fun _ => .failOnError siteAfterAction (.ret .nil)) fun o drew =>
    match o with
    | some _ => k false false
    | none => .failOnError siteSkipFail (k true (!drew))

/-- `executeAction` -/
def execAction (e : Env) (n : Nat) (actions : Nat → Prog) (k : Bool → Prog) : Nat → Prog
  | 0 => .throw (.stop noValidActionsMsg siteNoValid)
  | tries+1 =>
    .group actionLabel false
      ((Gen.sampled n).draw e fun v =>
        runActionP (actions (match v with | .int i => i.toNat | _ => 0))
          (fun inv sk => .ret (.cons (.bool inv) (.bool sk))))
      (fun _ => false)
      (fun r => match r with
        | .cons (.bool inv) (.bool sk) => if sk then execAction e n actions k tries else k (!inv)
        | _ => k false)

/-- `T.Repeat` with `n` named actions (sorted) and the invariant `check` -/
def smRepeat (e : Env) (n : Nat) (actions : Nat → Prog) (check : Prog) : Prog :=
  if n = 0 then .ret .nil
  else
    check >>- fun _ => .failOnError siteInitCheck <|
      repeatLoop ⟨0, maxInt, e.rt.steps, "Repeat"⟩
        (fun _ => execAction e n actions
          (fun ok => if ok then check >>- fun _ => .failOnError siteAfterCheck (.ret (rAcc .nil))
                     else .ret rRej) validActionTries)
        (fun _ => .ret .nil) e.fuel {} .nil

/-! ### checkOnce -/

structure Once where
  err : Option Err
  ts : TS               -- the T afterwards (findBug reuses it)
  src : Src
  used : List UInt64
  kept : List UInt64
  toks : List Tok
  evs : List Ev
  overran : Bool
deriving Inhabited

/-- `checkOnce(t, prop)`: `runProp` (prop, deferred cleanup, deferred recover: a failure in a
    cleanup supersedes the body's; invalid data raised by a cleanup counts only if the body ended
    normally), then `pendingFailure`: a non-fatal failure — however the
    property ended: returned, skipped afterwards, signalled from a cleanup — falsifies this
    test case (one traceback for all of them) and is cleared. -/
def checkOnce (p : Prog) (src : Src) (ts : TS) : Once :=
  let o := p.run src { ts with ctxCount := 0 }
  let c := cleanupPhase o.ts
  let err0 : Option Err := match c.err with
    | some e =>
      if e.isInvalid then (match o.res with | .error e0 => some e0 | .ok _ => some e)
      else some (e.nest (cleanupCtx o.res o.ts))
    | none => match o.res with | .error e => some e | .ok _ => none
  let err : Option Err := match c.ts.failed with
    | some m => (match err0 with
        | none => some (.stop m sitePending)
        | some (.invalid _) => some (.stop m sitePending)
        | some e => some e)
    | none => err0
  ⟨err, { c.ts with failed := none }, o.src, o.used, o.kept, o.toks, o.evs ++ c.evs, o.overran⟩

/-- `traceback(err)` as a comparable key -/
def tbKey : Option Err → Option (Bool × Nat)
  | none => none
  | some (.invalid _) => some (false, 0)
  | some e => some (true, e.site)

def errString : Option Err → String
  | none => ""
  | some e => e.msg

def sameError (a b : Option Err) : Bool := errString a == errString b && tbKey a == tbKey b

def Err.isStop : Err → Bool
  | .stop _ _ => true
  | _ => false

/-! ### findBug -/

structure FB where
  valid : Nat
  invalid : Nat
  early : Bool
  seed : UInt64
  err : Option Err
  seeds : List UInt64      -- the seed of every test case run, in order
deriving Repr

def invalidChecksMult : Nat := 10

/-- `early i`: does the early-exit test fire before iteration `i` (`i > 0`) -/
def findBugLoop (p : Prog) (checks : Nat) (early : Nat → Bool) :
    Nat → Nat → Nat → UInt64 → TS → List UInt64 → FB
  | 0, valid, invalid, _, _, seeds => ⟨valid, invalid, false, 0, none, seeds⟩
  | fuel+1, valid, invalid, seed, ts, seeds =>
    if valid < checks ∧ invalid < checks * invalidChecksMult then
      let iter := valid + invalid
      if iter > 0 ∧ early iter then ⟨valid, invalid, true, 0, none, seeds⟩
      else
        let seed := seed + UInt64.ofNat iter
        let o := checkOnce p (.rng (Jsf.init seed)) ts
        match o.err with
        | none => findBugLoop p checks early fuel (valid + 1) invalid seed o.ts (seeds ++ [seed])
        | some e =>
          if e.isInvalid then findBugLoop p checks early fuel valid (invalid + 1) seed o.ts (seeds ++ [seed])
          else ⟨valid, invalid, false, seed, some e, seeds ++ [seed]⟩
    else ⟨valid, invalid, false, 0, none, seeds⟩

def findBug (p : Prog) (checks : Nat) (seed : UInt64) (early : Nat → Bool) : FB :=
  findBugLoop p checks early (checks + checks * invalidChecksMult) 0 0 seed TS.fresh []

/-! ### shrink: `compareData`, `accept` -/

/-- `compareData`: length first, then lexicographic; -1 / 0 / 1 -/
def cmpLex : List UInt64 → List UInt64 → Int
  | [], [] => 0
  | [], _ => -1
  | _, [] => 1
  | a :: as, b :: bs => if a < b then -1 else if a > b then 1 else cmpLex as bs

def compareData (a b : List UInt64) : Int :=
  if a.length < b.length then -1 else if a.length > b.length then 1 else cmpLex a b

structure Shr where
  data : List UInt64      -- s.rec.data (pruned)
  err : Option Err        -- s.err
deriving Repr

inductive AcceptRes where
  | rejected                          -- not smaller, or a different / no failure
  | accepted (s : Shr)
  | mismatch (data : List UInt64) (err : Option Err)   -- second run differs: `panic(err2)`

/-- `shrinker.accept(buf)` without the cache (the cache only remembers rejections) -/
def accept (p : Prog) (s : Shr) (buf : List UInt64) : AcceptRes :=
  if compareData buf s.data ≥ 0 then .rejected
  else
    let r1 := checkOnce p (.buf buf) TS.fresh
    if tbKey r1.err != tbKey s.err then .rejected
    else
      let r2 := checkOnce p (.buf buf) TS.fresh
      if sameError r1.err r2.err then .accepted ⟨r2.kept, r1.err⟩
      else .mismatch r2.kept r2.err

/-- the shrinker driven by any sequence of candidate buffers (every pass, present or future,
    and every deadline cut is such a sequence); returns `(buf, err)` like `shrink` -/
def shrinkWith (p : Prog) : Shr → List (List UInt64) → List UInt64 × Option Err
  | s, [] => (s.data, s.err)
  | s, c :: cs =>
    match accept p s c with
    | .rejected => shrinkWith p s cs
    | .accepted s' => shrinkWith p s' cs
    | .mismatch d e => (d, e)

/-! ### fail files, doCheck, checkTB -/

/-- a fail file as `loadFailFile` sees it -/
inductive FF where
  | unloadable                                        -- any load error
  | loaded (version : String) (seed : UInt64) (buf : List UInt64)
deriving Repr

def rapidVersion := "v0.4.8"

/-- `checkFailFile`: `(buf, err1, err2)`; all `none`/empty = ignored -/
def checkFailFile (p : Prog) : FF → Option (List UInt64 × Option Err × Option Err)
  | .unloadable => none
  | .loaded v _ buf =>
    if v != rapidVersion then none
    else
      let r1 := checkOnce p (.buf buf) TS.fresh
      match r1.err with
      | none => none
      | some e => if e.isInvalid then none
                  else some (buf, r1.err, (checkOnce p (.buf buf) TS.fresh).err)

structure DC where
  valid : Nat
  invalid : Nat
  early : Bool
  seed : UInt64
  fromFile : Option Nat          -- index of the fail file that reproduced
  buf : List UInt64
  err1 : Option Err
  err2 : Option Err
  seeds : List UInt64            -- seeds of the random test cases findBug ran
deriving Repr

def firstFailFile (p : Prog) : List FF → Nat → Option (Nat × List UInt64 × Option Err × Option Err)
  | [], _ => none
  | f :: fs, i =>
    match checkFailFile p f with
    | some (b, e1, e2) => some (i, b, e1, e2)
    | none => firstFailFile p fs (i + 1)

/-- `doCheck`; `cands` is the candidate sequence of the shrinker (see `shrinkWith`) -/
def doCheck (p : Prog) (checks : Nat) (seed : UInt64) (files : List FF) (early : Nat → Bool)
    (cands : List (List UInt64)) : DC :=
  match firstFailFile p files 0 with
  | some (i, b, e1, e2) => ⟨0, 0, false, 0, some i, b, e1, e2, []⟩
  | none =>
    let fb := findBug p checks seed early
    match fb.err with
    | none => ⟨fb.valid, fb.invalid, fb.early, 0, none, [], none, none, fb.seeds⟩
    | some _ =>
      let r := checkOnce p (.rng (Jsf.init fb.seed)) TS.fresh
      if !sameError fb.err r.err then
        ⟨fb.valid, fb.invalid, false, fb.seed, none, r.used, fb.err, r.err, fb.seeds⟩
      else
        let (buf, e3) := shrinkWith p ⟨r.kept, r.err⟩ cands
        ⟨fb.valid, fb.invalid, false, fb.seed, none, buf, r.err, e3, fb.seeds⟩

inductive Verdict where
  | pass (valid : Nat)
  | onlyGenerated (valid total : Nat)
  | failed (valid : Nat) (err : Err) (seed : UInt64) (buf : List UInt64)    -- "failed after"/"panic after"
  | flaky (seed : UInt64) (buf : List UInt64)
deriving Repr

/-- the verdict part of `checkTB` -/
def verdict (checks : Nat) (d : DC) : Verdict :=
  match d.err1, d.err2 with
  | none, none =>
    if d.valid = checks ∨ (d.early ∧ d.valid > 0) then .pass d.valid
    else .onlyGenerated d.valid (d.valid + d.invalid)
  | e1, e2 =>
    if tbKey e1 == tbKey e2 then
      match e2 with
      | some e => .failed d.valid e d.seed d.buf
      | none => .flaky d.seed d.buf          -- unreachable: both none is the first case
    else .flaky d.seed d.buf

def Verdict.failsTB : Verdict → Bool
  | .pass _ => false
  | _ => true

/-- `checkFuzz`: what happens to the fuzz test -/
inductive FuzzOut where
  | pass | skip | fail (e : Err)
deriving Repr

def checkFuzz (p : Prog) (input : List UInt8) : FuzzOut :=
  match (checkOnce p (.buf (wordsOfBytes input)) TS.fresh).err with
  | none => .pass
  | some e => if e.isInvalid then .skip else .fail e

end Rapid
