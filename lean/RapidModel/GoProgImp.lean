/-
  RapidModel.GoProgImp — what the stream translator needs from the imperative side: indexing a slice held in a field
  of a generator (`g.slice[i]`, `g.gens[i]`) inside a function that draws.  Out of range is Go's runtime panic.
-/
import RapidModel.GoProg
import RapidModel.GoImp

namespace Rapid.Go

def siteRuntime : Nat := 9003

/-- `x[i]` in continuation-passing style -/
def idxP {α : Type} (l : List α) (i : Int64) (k : α → Prog) : Prog :=
  match Go.idx l i with
  | .ok a => k a
  | .error _ => .throw (.panic "index out of range" siteRuntime)

end Rapid.Go
