/-
  RapidModel.GoImp — what the translator needs for imperative Go code over slices and structs
  (data.go, shrink.go): slices are *values* (`List`; no aliasing is modelled), `int` is `Int64`, and
  everything that can panic runs in `Except Panic`:

    * an index or slice expression out of range is `Panic.runtime` (slice expressions are bounded by the
      length here — Go allows up to the capacity; the translated code never reslices beyond the length);
    * `assert`/`assertf` that fail are `Panic.assertion`;
    * `panic(invalidData(msg))` is `Panic.invalidData msg`;
    * a loop of the translation that runs out of fuel is `Panic.fuel` (an artefact of the translation).
-/
import RapidModel.GoSem

namespace Rapid.Go

inductive Panic where
  | invalidData (msg : String)
  | assertion
  | runtime
  | fuel
deriving DecidableEq, Repr, Inhabited

abbrev M := Except Panic

/-- `len(x)` -/
def glen {α : Type} (l : List α) : Int64 := Int64.ofNat l.length

/-- the position an `int` index denotes, if it is one -/
def pos? (i : Int64) (bound : Nat) : Option Nat :=
  if 0 ≤ i.toInt ∧ i.toInt.toNat < bound then some i.toInt.toNat else none

/-- `x[i]` -/
def idx {α : Type} (l : List α) (i : Int64) : M α :=
  match pos? i l.length with
  | some n => match l[n]? with
    | some a => .ok a
    | none => .error .runtime
  | none => .error .runtime

/-- `x[:j]` -/
def sliceTo {α : Type} (l : List α) (j : Int64) : M (List α) :=
  match pos? j (l.length + 1) with
  | some n => .ok (l.take n)
  | none => .error .runtime

/-- `x[i:]` -/
def sliceFrom {α : Type} (l : List α) (i : Int64) : M (List α) :=
  match pos? i (l.length + 1) with
  | some n => .ok (l.drop n)
  | none => .error .runtime

/-- `x[i] = f(x[i])` (assignment to an element or to a field of an element) -/
def setIdx {α : Type} (l : List α) (i : Int64) (f : α → α) : M (List α) :=
  match pos? i l.length with
  | some n => .ok (l.modify n f)
  | none => .error .runtime

def assert (c : Bool) : M Unit := if c then .ok () else .error .assertion

/-- `a && b` where evaluating `b` may panic: `b` is only looked at when `a` holds -/
def andThen (a : M Bool) (b : M Bool) : M Bool :=
  match a with
  | .ok true => b
  | .ok false => .ok false
  | .error e => .error e

/-- `a || b` likewise -/
def orElse (a : M Bool) (b : M Bool) : M Bool :=
  match a with
  | .ok true => .ok true
  | .ok false => b
  | .error e => .error e

end Rapid.Go
