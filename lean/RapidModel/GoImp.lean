/-
  RapidModel.GoImp — what the translator needs for imperative Go code over slices and structs
  (data.go, shrink.go): slices are *values* (`List`; no aliasing is modelled), `int` is `Int64`, and
  everything that can panic runs in `Except Panic`:

    * an index or slice expression out of range is `Panic.runtime` (slice expressions are bounded by the
      length here — Go allows up to the capacity; the translated code never reslices beyond the length);
    * `assert`/`assertf` that fail are `Panic.assertion`;
    * `panic(invalidData(msg))` is `Panic.invalidData msg`;
    * a loop of the translation that runs out of fuel is `Panic.fuel` (an artefact of the translation).
-/
import RapidModel.GoSem

namespace Rapid.Go

inductive Panic where
  | invalidData (msg : String)
  | assertion
  | runtime
  | fuel
  | mismatch              -- `panic(err)` with a `*testError` value (shrinker.accept: the second run of a candidate differs)
deriving DecidableEq, Repr, Inhabited

abbrev M := Except Panic

/-- `len(x)` -/
def glen {α : Type} (l : List α) : Int64 := Int64.ofNat l.length

/-- the position an `int` index denotes, if it is one -/
def pos? (i : Int64) (bound : Nat) : Option Nat :=
  if 0 ≤ i.toInt ∧ i.toInt.toNat < bound then some i.toInt.toNat else none

/-- `x[i]` -/
def idx {α : Type} (l : List α) (i : Int64) : M α :=
  match pos? i l.length with
  | some n => match l[n]? with
    | some a => .ok a
    | none => .error .runtime
  | none => .error .runtime

/-- `x[:j]` -/
def sliceTo {α : Type} (l : List α) (j : Int64) : M (List α) :=
  match pos? j (l.length + 1) with
  | some n => .ok (l.take n)
  | none => .error .runtime

/-- `x[i:]` -/
def sliceFrom {α : Type} (l : List α) (i : Int64) : M (List α) :=
  match pos? i (l.length + 1) with
  | some n => .ok (l.drop n)
  | none => .error .runtime

/-- `x[i:j]` (bounded by the length here, as the other slice expressions) -/
def slice {α : Type} (l : List α) (i j : Int64) : M (List α) :=
  match pos? i (l.length + 1), pos? j (l.length + 1) with
  | some a, some b => if a ≤ b then .ok ((l.take b).drop a) else .error .runtime
  | _, _ => .error .runtime

/-- `x[i] = f(x[i])` (assignment to an element or to a field of an element) -/
def setIdx {α : Type} (l : List α) (i : Int64) (f : α → α) : M (List α) :=
  match pos? i l.length with
  | some n => .ok (l.modify n f)
  | none => .error .runtime

/-- `n := copy(dst, src)`: the destination afterwards and the number of elements copied -/
def copyInto {α : Type} (dst src : List α) : List α × Int64 :=
  let n := min dst.length src.length
  (src.take n ++ dst.drop n, Int64.ofNat n)

/-- `binary.LittleEndian.Uint64(b)`: the first eight bytes, least significant first; panics on a shorter slice -/
def leU64 (b : List UInt8) : M UInt64 :=
  match b with
  | b0 :: b1 :: b2 :: b3 :: b4 :: b5 :: b6 :: b7 :: _ =>
    .ok (b0.toUInt64 ||| (b1.toUInt64 <<< 8) ||| (b2.toUInt64 <<< 16) ||| (b3.toUInt64 <<< 24) |||
         (b4.toUInt64 <<< 32) ||| (b5.toUInt64 <<< 40) ||| (b6.toUInt64 <<< 48) ||| (b7.toUInt64 <<< 56))
  | _ => .error .runtime

def assert (c : Bool) : M Unit := if c then .ok () else .error .assertion

/-- `a && b` where evaluating `b` may panic: `b` is only looked at when `a` holds -/
def andThen (a : M Bool) (b : M Bool) : M Bool :=
  match a with
  | .ok true => b
  | .ok false => .ok false
  | .error e => .error e

/-- `a || b` likewise -/
def orElse (a : M Bool) (b : M Bool) : M Bool :=
  match a with
  | .ok true => .ok true
  | .ok false => b
  | .error e => .error e

end Rapid.Go
