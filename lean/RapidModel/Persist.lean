/-
  RapidModel.Persist — persist.go: the fail-file format (save / load on bytes), file names
  and patterns, and the sequence of file-system operations of `saveFailFile`.

  External library behaviour is carried as small ports validated differentially by the
  harness: `bufio.ScanLines`, `strings.TrimSpace`, `strings.Split(·, "#")`,
  `strconv.ParseUint(·, 10|0, 64)`.
-/
import RapidModel.Bits

namespace Rapid

abbrev Bytes := List UInt8

def strBytes (s : String) : Bytes := s.toUTF8.toList

/-! ### formatting -/

def hexDigit (d : Nat) : UInt8 := if d < 10 then (48 + d).toUInt8 else (87 + d).toUInt8

def natDigits (base : Nat) (hb : 2 ≤ base) : Nat → List UInt8
  | n => if h : n < base then [hexDigit n] else natDigits base hb (n / base) ++ [hexDigit (n % base)]
decreasing_by
  have : 0 < n := by omega
  exact Nat.div_lt_self this (by omega)

def fmtDec (u : UInt64) : Bytes := natDigits 10 (by decide) u.toNat
def hexDigits (u : UInt64) : Bytes := natDigits 16 (by decide) u.toNat               -- "%x"
def fmtHex (u : UInt64) : Bytes := [48, 120] ++ natDigits 16 (by decide) u.toNat   -- "0x%x"

def nl : UInt8 := 10
def hash : UInt8 := 35
def sp : UInt8 := 32

def splitOn (c : UInt8) : Bytes → List Bytes
  | [] => [[]]
  | b :: bs =>
    if b == c then [] :: splitOn c bs
    else match splitOn c bs with
      | [] => [[b]]
      | l :: ls => (b :: l) :: ls

def joinWith (c : UInt8) : List Bytes → Bytes
  | [] => []
  | [l] => l
  | l :: ls => l ++ c :: joinWith c ls

/-- the bytes `saveFailFile` writes -/
def saveBytes (version : Bytes) (output : Bytes) (seed : UInt64) (buf : List UInt64) : Bytes :=
  let comments := ((splitOn nl output).map fun s => [hash, sp] ++ s ++ [nl]).flatten
  comments ++ joinWith nl ((version ++ [hash] ++ fmtDec seed) :: buf.map fmtHex)

/-! ### loading -/

/-- `bufio.ScanLines` over the whole input (no token limit): split at '\n', drop one trailing
    '\r' of each line, no empty final token -/
def dropCR (l : Bytes) : Bytes :=
  match l.getLast? with
  | some 13 => l.dropLast
  | _ => l

def scanLines (bs : Bytes) : List Bytes :=
  let parts := splitOn nl bs
  let parts := match parts.getLast? with
    | some [] => parts.dropLast      -- input ends with '\n' (or is empty): no final token
    | _ => parts
  parts.map dropCR

def isAsciiSpace (b : UInt8) : Bool := b == 9 || b == 10 || b == 11 || b == 12 || b == 13 || b == 32

/-- UTF-8 encodings of the non-ASCII runes with `unicode.IsSpace` -/
def uniSpaces : List Bytes :=
  [[0xC2, 0x85], [0xC2, 0xA0], [0xE1, 0x9A, 0x80],
   [0xE2, 0x80, 0x80], [0xE2, 0x80, 0x81], [0xE2, 0x80, 0x82], [0xE2, 0x80, 0x83],
   [0xE2, 0x80, 0x84], [0xE2, 0x80, 0x85], [0xE2, 0x80, 0x86], [0xE2, 0x80, 0x87],
   [0xE2, 0x80, 0x88], [0xE2, 0x80, 0x89], [0xE2, 0x80, 0x8A],
   [0xE2, 0x80, 0xA8], [0xE2, 0x80, 0xA9], [0xE2, 0x80, 0xAF], [0xE2, 0x81, 0x9F],
   [0xE3, 0x80, 0x80]]

def leadSpaceLen (bs : Bytes) : Nat :=
  match bs with
  | [] => 0
  | b :: _ =>
    if isAsciiSpace b then 1
    else match uniSpaces.find? (fun p => p.isPrefixOf bs) with
      | some p => p.length
      | none => 0

def trimLeft : Nat → Bytes → Bytes
  | 0, bs => bs
  | n+1, bs => match leadSpaceLen bs with
    | 0 => bs
    | k => trimLeft n (bs.drop k)

def trailSpaceLen (bs : Bytes) : Nat :=
  match bs.getLast? with
  | none => 0
  | some b =>
    if isAsciiSpace b then 1
    else match uniSpaces.find? (fun p => p.isSuffixOf bs) with
      | some p => p.length
      | none => 0

def trimRight : Nat → Bytes → Bytes
  | 0, bs => bs
  | n+1, bs => match trailSpaceLen bs with
    | 0 => bs
    | k => trimRight n (bs.take (bs.length - k))

/-- `strings.TrimSpace` -/
def trimSpace (bs : Bytes) : Bytes :=
  let l := trimLeft bs.length bs
  trimRight l.length l

def lower (b : UInt8) : UInt8 := b ||| 0x20

def digitVal (c : UInt8) : Option Nat :=
  if 48 ≤ c ∧ c ≤ 57 then some (c.toNat - 48)
  else if 97 ≤ lower c ∧ lower c ≤ 122 then some ((lower c).toNat - 87)
  else none

inductive NumErr | syntax | range
deriving DecidableEq, Repr

/-- digit loop of `strconv.ParseUint` (bitSize 64) -/
def parseDigits (base : Nat) (base0 : Bool) : Bytes → Nat → Bool → Except NumErr (Nat × Bool)
  | [], n, us => .ok (n, us)
  | c :: cs, n, us =>
    if c == 95 ∧ base0 then parseDigits base base0 cs n true
    else match digitVal c with
      | none => .error .syntax
      | some d =>
        if d ≥ base then .error .syntax
        else
          let n' := n * base + d
          if n' ≥ 2 ^ 64 then .error .range
          else parseDigits base base0 cs n' us

/-- `strconv.underscoreOK` -/
def underscoreOK (s : Bytes) : Bool :=
  let s := match s with
    | c :: r => if c == 45 ∨ c == 43 then r else s
    | [] => s
  -- optional base prefix
  let (s, i, hex) : Bytes × UInt8 × Bool := match s with
    | 48 :: c :: r =>
      if lower c == 98 ∨ lower c == 111 ∨ lower c == 120 then (r, 48, lower c == 120) else (s, 94, false)
    | _ => (s, 94, false)
  let rec go : Bytes → UInt8 → Bool
    | [], i => i != 95
    | c :: cs, i =>
      if (48 ≤ c ∧ c ≤ 57) ∨ (hex ∧ 97 ≤ lower c ∧ lower c ≤ 102) then go cs 48
      else if c == 95 then (if i != 48 then false else go cs 95)
      else (if i == 95 then false else go cs 33)
  go s i

/-- `strconv.ParseUint(s, base, 64)` for `base ∈ {0, 10}` -/
def parseUint (s : Bytes) (base : Nat) : Except NumErr UInt64 :=
  if s = [] then .error .syntax
  else
    let base0 := base == 0
    let (b, digits) : Nat × Bytes :=
      if !base0 then (base, s)
      else match s with
        | 48 :: rest =>
          match rest with
          | c :: r =>
            if r ≠ [] ∧ lower c == 98 then (2, r)
            else if r ≠ [] ∧ lower c == 111 then (8, r)
            else if r ≠ [] ∧ lower c == 120 then (16, r)
            else (8, rest)
          | [] => (8, [])
        | _ => (10, s)
    match parseDigits b base0 digits 0 false with
    | .error e => .error e
    | .ok (n, us) =>
      if us ∧ !underscoreOK s then .error .syntax else .ok (UInt64.ofNat n)

inductive LoadErr
  | scan | noData | badHeader | badSeed | badWord
deriving DecidableEq, Repr

/-- `loadFailFile` on the file's bytes: `(version, seed, buf)` -/
def loadBytes (bs : Bytes) : Except LoadErr (Bytes × UInt64 × List UInt64) :=
  let lines := (scanLines bs).map trimSpace
  let data := lines.filter fun s => !(s.head? == some hash || s.isEmpty)
  match data with
  | [] => .error .noData
  | hd :: rest =>
    match splitOn hash hd with
    | [v, sd] =>
      match parseUint sd 10 with
      | .error _ => .error .badSeed
      | .ok seed =>
        let rec words : List Bytes → Except LoadErr (List UInt64)
          | [] => .ok []
          | w :: ws => match parseUint w 0 with
            | .error _ => .error .badWord
            | .ok u => match words ws with
              | .error e => .error e
              | .ok us => .ok (u :: us)
        match words rest with
        | .error e => .error e
        | .ok buf => .ok (v, seed, buf)
    | _ => .error .badHeader

/-! ### names -/

/-- `kindaSafeFilename` on runes; `isLD r` = `unicode.IsLetter(r) || unicode.IsDigit(r)`,
    `reserved` = "the upper-cased name is a reserved Windows name" (decided by the caller) -/
def safeName (isLD : Nat → Bool) (reserved : List Nat → Bool) (name : List Nat) : List Nat :=
  let s := name.map fun r => if isLD r ∨ r == 45 ∨ r == 95 then r else 95
  if reserved s then s ++ [95] else s

/-- does `name` match `<pre>*<suf>` where `*` does not cross '/' -/
def starMatch (pre suf name : List Nat) : Bool :=
  pre.isPrefixOf name && suf.isSuffixOf name && pre.length + suf.length ≤ name.length &&
    !((name.drop pre.length).take (name.length - pre.length - suf.length)).contains 47

/-! ### the file-system operations of `saveFailFile`, in order -/

inductive FsOp where
  | mkdirAll (dir : String)
  | createExcl (path : String)          -- os.CreateTemp: O_CREAT|O_EXCL on a fresh temp name
  | write (path : String) (data : Bytes)
  | close (path : String)
  | rename (src dst : String)
  | remove (path : String)
deriving DecidableEq, Repr

def saveOps (dir tmp final : String) (chunks : List Bytes) : List FsOp :=
  [.mkdirAll dir, .createExcl tmp] ++ chunks.map (.write tmp) ++
  [.close tmp, .rename tmp final, .remove tmp]

/-- a file system: path ↦ content (directories are not tracked beyond existence) -/
abbrev Fs := List (String × Bytes)

def Fs.get (fs : Fs) (p : String) : Option Bytes := (fs.find? (·.1 == p)).map (·.2)
def Fs.set (fs : Fs) (p : String) (d : Bytes) : Fs := (p, d) :: fs.filter (·.1 != p)
def Fs.del (fs : Fs) (p : String) : Fs := fs.filter (·.1 != p)

def FsOp.apply (fs : Fs) : FsOp → Fs
  | .mkdirAll _ => fs
  | .createExcl p => if (fs.get p).isSome then fs else fs.set p []
  | .write p d => match fs.get p with
      | some old => fs.set p (old ++ d)
      | none => fs
  | .close _ => fs
  | .rename s d => match fs.get s with
      | some c => (fs.del s).set d c
      | none => fs
  | .remove p => fs.del p

def applyOps (fs : Fs) (ops : List FsOp) : Fs := ops.foldl FsOp.apply fs

end Rapid
