/-
  RapidModel.GoSem — the semantics of the Go operators that differ from Lean's on fixed-width
  integers, as used by the generated translation (RapidModel/Generated/Translated.lean): a shift
  by at least the width of the operand gives 0 in Go (Lean reduces the count modulo the width).
-/
namespace Rapid.Go

def shl64 (a n : UInt64) : UInt64 := if n ≥ 64 then 0 else a <<< n
def shr64 (a n : UInt64) : UInt64 := if n ≥ 64 then 0 else a >>> n
def shl32 (a : UInt32) (n : UInt64) : UInt32 := if n ≥ 32 then 0 else a <<< n.toUInt32
def shr32 (a : UInt32) (n : UInt64) : UInt32 := if n ≥ 32 then 0 else a >>> n.toUInt32

/-- `bits.RotateLeft64(x, k)` for a constant `0 < k < 64` -/
def rotl64 (x : UInt64) (k : Nat) : UInt64 := (x <<< k.toUInt64) ||| (x >>> (64 - k).toUInt64)

/-! ### float64/float32 values as IEEE-754 bit patterns (floats.go never computes with them: it compares,
    negates and takes them apart) -/

def f64signBit : UInt64 := 0x8000000000000000
def f64mag (a : UInt64) : UInt64 := a &&& 0x7FFFFFFFFFFFFFFF
def f64isNaN (a : UInt64) : Bool := f64mag a > 0x7FF0000000000000
/-- unary minus -/
def f64neg (a : UInt64) : UInt64 := a ^^^ f64signBit
/-- the order of the real numbers (with ±Inf, and -0 = +0) on non-NaN patterns -/
def f64key (a : UInt64) : Int := if a &&& f64signBit != 0 then - ((f64mag a).toNat : Int) else (f64mag a).toNat
/-- `a <= b`: false when either side is a NaN -/
def f64le (a b : UInt64) : Bool := !f64isNaN a && !f64isNaN b && decide (f64key a ≤ f64key b)
def f64lt (a b : UInt64) : Bool := !f64isNaN a && !f64isNaN b && decide (f64key a < f64key b)
def f32neg (a : UInt32) : UInt32 := a ^^^ 0x80000000

end Rapid.Go
