/-
  RapidModel.GoSem — the semantics of the Go operators that differ from Lean's on fixed-width
  integers, as used by the generated translation (RapidModel/Generated/Translated.lean): a shift
  by at least the width of the operand gives 0 in Go (Lean reduces the count modulo the width).
-/
namespace Rapid.Go

def shl64 (a n : UInt64) : UInt64 := if n ≥ 64 then 0 else a <<< n
def shr64 (a n : UInt64) : UInt64 := if n ≥ 64 then 0 else a >>> n
def shl32 (a : UInt32) (n : UInt64) : UInt32 := if n ≥ 32 then 0 else a <<< n.toUInt32
def shr32 (a : UInt32) (n : UInt64) : UInt32 := if n ≥ 32 then 0 else a >>> n.toUInt32

/-- `bits.RotateLeft64(x, k)` for a constant `0 < k < 64` -/
def rotl64 (x : UInt64) (k : Nat) : UInt64 := (x <<< k.toUInt64) ||| (x >>> (64 - k).toUInt64)

end Rapid.Go
