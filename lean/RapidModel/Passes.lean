/-
  RapidModel.Passes — the shrinker of shrink.go with its passes: `removeGroups`,
  `minimizeBlocks` (with `minimize` calling back into `accept`), `lowerFloatHack`,
  `removeGroupsAndLower`, `sortGroups`, `removeGroupSpans` and the round loop.

  A pass is a `Script`: it looks at the shrinker's current recording (`get`), proposes a
  candidate buffer (`try_`, = `shrinker.accept`) and continues with the answer.  A Go index or
  slice expression that would panic is `oob`.  The deadline never expires in the model; every
  loop carries fuel, and running out of fuel is a deadline cut (any prefix of the shrinker's
  work is a legal run).
-/
import RapidModel.Rec
import RapidModel.Engine
import RapidModel.Minimize

namespace Rapid

/-- what a pass can see of the shrinker -/
structure View where
  rc : Rec
  shrinks : Nat

inductive Script (α : Type) where
  | ret (a : α)
  | get (k : View → Script α)
  | try_ (buf : List UInt64) (k : Bool → Script α)
  | oob

def Script.bind {α β : Type} : Script α → (α → Script β) → Script β
  | .ret a, f => f a
  | .get k, f => .get fun v => (k v).bind f
  | .try_ b k, f => .try_ b fun ok => (k ok).bind f
  | .oob, _ => .oob

instance : Monad Script where
  pure := .ret
  bind := Script.bind

def getV : Script View := .get .ret
def tryBuf (buf : List UInt64) : Script Bool := .try_ buf .ret
def oobS {α : Type} : Script α := .oob

/-- an `Option` that is `none` exactly when Go would panic -/
def orOob {α : Type} : Option α → Script α
  | some a => .ret a
  | none => .oob

/-! ### `minimize` with a condition that calls back into the shrinker -/

def mAccept (cond : UInt64 → Script Bool) (best u : UInt64) : Script (UInt64 × Bool) :=
  if u ≥ best ∨ u < small then pure (best, false)
  else do
    if (← cond u) then pure (u, true) else pure (best, false)

def trySmallS (cond : UInt64 → Script Bool) (u : UInt64) : Nat → UInt64 → Script (Option UInt64)
  | 0, _ => pure none
  | n+1, i =>
    if i < u ∧ i < small then do
      if (← cond i) then pure (some i) else trySmallS cond u n (i + 1)
    else pure none

def rShiftS (cond : UInt64 → Script Bool) : Nat → UInt64 → Script UInt64
  | 0, b => pure b
  | n+1, b => do
    let (b', ok) ← mAccept cond b (b >>> 1)
    if ok then rShiftS cond n b' else pure b'

def unsetBitsS (cond : UInt64 → Script Bool) : Nat → UInt64 → Script UInt64
  | 0, b => pure b
  | i+1, b => do
    let (b', _) ← mAccept cond b (b ^^^ ((1 : UInt64) <<< i.toUInt64))
    unsetBitsS cond i b'

def sortInnerS (cond : UInt64 → Script Bool) (i : Nat) (h : UInt64) : Nat → Nat → UInt64 → Script UInt64
  | 0, _, b => pure b
  | n+1, j, b =>
    if j < i then
      let l : UInt64 := (1 : UInt64) <<< j.toUInt64
      if b &&& l == 0 then do
        let (b', ok) ← mAccept cond b (b ^^^ (l ||| h))
        if ok then pure b' else sortInnerS cond i h n (j + 1) b'
      else sortInnerS cond i h n (j + 1) b
    else pure b

def sortBitsS (cond : UInt64 → Script Bool) : Nat → UInt64 → Script UInt64
  | 0, b => pure b
  | i+1, b => do
    let h : UInt64 := (1 : UInt64) <<< i.toUInt64
    let b' ← if b &&& h != 0 then sortInnerS cond i h i 0 b else pure b
    sortBitsS cond i b'

def binLoopS (cond : UInt64 → Script Bool) : Nat → UInt64 → UInt64 → UInt64 → Script UInt64
  | 0, _, _, b => pure b
  | n+1, i, j, b =>
    if i < j then do
      let h := i + (j - i) / 2
      let (b', ok) ← mAccept cond b h
      if ok then binLoopS cond n i h b' else binLoopS cond n (h + 1) j b'
    else pure b

def binSearchS (cond : UInt64 → Script Bool) (b : UInt64) : Script UInt64 := do
  let (b', ok) ← mAccept cond b (b - 1)
  if !ok then pure b' else binLoopS cond 65 0 b' b'

def minimizeS (u : UInt64) (cond : UInt64 → Script Bool) : Script UInt64 :=
  if u == 0 then pure 0
  else do
    match (← trySmallS cond u 5 0) with
    | some i => pure i
    | none =>
      if u ≤ small then pure u
      else
        let b ← rShiftS cond 64 u
        let b ← unsetBitsS cond (len64 b) b
        let b ← sortBitsS cond (len64 b) b
        binSearchS cond b

/-! ### the passes -/

def removeGroups : Nat → Nat → Script Unit
  | 0, _ => pure ()
  | f+1, i => do
    let v ← getV
    if i < v.rc.groups.length then
      let g ← orOob v.rc.groups[i]?
      if !g.standalone || g.end_ < 0 then removeGroups f (i + 1)
      else
        let buf ← orOob (without? v.rc.data [g])
        if (← tryBuf buf) then removeGroups f i      -- `i--`, then `i++`
        else removeGroups f (i + 1)
    else pure ()

def minimizeBlocks : Nat → Nat → Script Unit
  | 0, _ => pure ()
  | f+1, i => do
    let v ← getV
    if i < v.rc.data.length then
      let u ← orOob v.rc.data[i]?
      let _ ← minimizeS u fun x => do
        let v ← getV
        if i ≥ v.rc.data.length then pure false   -- an accepted candidate made the test case shorter
        else
          let buf ← orOob (setIdx? v.rc.data i x)
          tryBuf buf
      minimizeBlocks f (i + 1)
    else pure ()

def maxU64 : UInt64 := 0xFFFFFFFFFFFFFFFF

/-- `buf[k] -= 1; buf[j] = MaxUint64` for the `j`s -/
def lowerAt? (data : List UInt64) (k : Nat) (fill : List Nat) : Option (List UInt64) :=
  match data[k]? with
  | none => none
  | some x => (setIdx? data k (x - 1)).bind fun d => fill.foldlM (fun d j => setIdx? d j maxU64) d

def lowerFloatHack : Nat → Nat → Script Unit
  | 0, _ => pure ()
  | f+1, i => do
    let v ← getV
    if i < v.rc.groups.length then
      let g ← orOob v.rc.groups[i]?
      if !g.standalone || g.end_ != (g.begin : Int) + 7 then lowerFloatHack f (i + 1)
      else
        let b := g.begin
        let buf ← orOob (lowerAt? v.rc.data (b + 3) [b + 4, b + 5, b + 6])
        if !(← tryBuf buf) then
          let v ← getV
          let buf ← orOob (lowerAt? v.rc.data (b + 4) [b + 5, b + 6])
          if !(← tryBuf buf) then
            let v ← getV
            let buf ← orOob (lowerAt? v.rc.data (b + 5) [b + 6])
            let _ ← tryBuf buf
        lowerFloatHack f (i + 1)
    else pure ()

/-- the inner loop of `removeGroupsAndLower`: was a candidate accepted -/
def rglInner (buf : List UInt64) (i : Nat) : Nat → Nat → Script Bool
  | 0, _ => pure false
  | f+1, j => do
    let v ← getV
    if j < v.rc.groups.length then
      let g ← orOob v.rc.groups[j]?
      if !g.standalone || g.end_ < 0 || (decide (g.begin ≤ i) && decide ((i : Int) < g.end_)) then rglInner buf i f (j + 1)
      else
        let c ← orOob (without? buf [g])
        if (← tryBuf c) then pure true else rglInner buf i f (j + 1)
    else pure false

def removeGroupsAndLower : Nat → Nat → Script Unit
  | 0, _ => pure ()
  | f+1, i => do
    let v ← getV
    if i < v.rc.data.length then
      let x ← orOob v.rc.data[i]?
      if x == 0 then removeGroupsAndLower f (i + 1)
      else
        let buf ← orOob (setIdx? v.rc.data i (x - 1))
        if (← rglInner buf i (v.rc.groups.length + 1) 0) then removeGroupsAndLower f i
        else removeGroupsAndLower f (i + 1)
    else pure ()

/-- the swap candidate of `sortGroups` -/
def swapBuf? (data : List UInt64) (g h : GI) : Option (List UInt64) := do
  let a ← slice? data 0 h.begin
  let b ← slice? data g.begin g.end_.toNat
  let c ← slice? data h.end_.toNat g.begin
  let d ← slice? data h.begin h.end_.toNat
  let e ← slice? data g.end_.toNat data.length
  pure (a ++ b ++ c ++ d ++ e)

/-- `for j--; j >= 0; j--`: examine `j = n-1 … 0`; the index of the accepted `h`, if any -/
def sortScan (g : GI) : Nat → Script (Option Nat)
  | 0 => pure none
  | j+1 => do
    let v ← getV
    let h ← orOob v.rc.groups[j]?
    if !h.standalone || h.end_ < 0 || h.end_ > (g.begin : Int) || h.label != g.label then sortScan g j
    else
      let buf ← orOob (swapBuf? v.rc.data g h)
      if (← tryBuf buf) then pure (some j) else sortScan g j

/-- `for j := i; j > 0 && j < len(s.rc.groups); { … }` -/
def sortFrom : Nat → Nat → Script Unit
  | 0, _ => pure ()
  | f+1, j => do
    let v ← getV
    if j > 0 ∧ j < v.rc.groups.length then
      let g ← orOob v.rc.groups[j]?
      if !g.standalone || g.end_ < 0 then pure ()
      else
        match (← sortScan g j) with
        | some j' => sortFrom f j'
        | none => pure ()
    else pure ()

def sortGroups : Nat → Nat → Script Unit
  | 0, _ => pure ()
  | f+1, i => do
    let v ← getV
    if i < v.rc.groups.length then
      sortFrom (f + 1) i
      sortGroups f (i + 1)
    else pure ()

/-- inner loop of `removeGroupSpans`: `gs` = groups collected so far, `lastEnd` = end of the last -/
def spansInner : Nat → List GI → Int → Nat → Script Bool
  | 0, _, _, _ => pure false
  | f+1, gs, lastEnd, j => do
    let v ← getV
    if j < v.rc.groups.length then
      let h ← orOob v.rc.groups[j]?
      if !h.standalone || h.end_ < 0 || (h.begin : Int) < lastEnd then spansInner f gs lastEnd (j + 1)
      else
        let gs' := gs ++ [h]
        let buf ← orOob (without? v.rc.data gs')
        if (← tryBuf buf) then pure true else spansInner f gs' h.end_ (j + 1)
    else pure false

def removeGroupSpans : Nat → Nat → Script Unit
  | 0, _ => pure ()
  | f+1, i => do
    let v ← getV
    if i < v.rc.groups.length then
      let g ← orOob v.rc.groups[i]?
      if !g.standalone || g.end_ < 0 then removeGroupSpans f (i + 1)
      else
        if (← spansInner (v.rc.groups.length + 1) [g] g.end_ (i + 1)) then removeGroupSpans f i
        else removeGroupSpans f (i + 1)
    else pure ()

/-- `shrinker.shrink`: rounds until one makes no progress; `prev` = `shrinks` before the round -/
def rounds (F : Nat) : Nat → Int → Script Unit
  | 0, _ => pure ()
  | r+1, prev => do
    let v ← getV
    if (v.shrinks : Int) > prev then
      let cur := v.shrinks
      removeGroups F 0
      minimizeBlocks F 0
      let v2 ← getV
      if v2.shrinks == cur then
        lowerFloatHack F 0
        removeGroupsAndLower F 0
        sortGroups F 1
        removeGroupSpans F 0
      rounds F r cur
    else pure ()

def shrinkScript (F : Nat) : Script Unit := rounds F F (-1)

/-! ### running a script against a property -/

structure SS where
  rc : Rec
  err : Option Err
  cache : List (List UInt64) := []
  shrinks : Nat := 0
  log : List (List UInt64) := []      -- candidates `checkOnce` was run on (once or twice), newest first
deriving Inhabited

inductive Stop where
  | mismatch (data : List UInt64) (err : Option Err) (log : List (List UInt64))   -- `panic(err2)`
  | oob (log : List (List UInt64))       -- index / slice out of range: crashes the test binary
  | badRec (log : List (List UInt64))    -- an assertion of `prune` / `accept` failed

/-- `shrinker.accept(buf)` -/
def SS.accept (p : Prog) (s : SS) (buf : List UInt64) : Except Stop (Bool × SS) :=
  if compareData buf s.rc.data ≥ 0 then .ok (false, s)
  else if s.cache.contains buf then .ok (false, s)
  else
    let r1 := checkOnce p (.buf buf) TS.fresh
    if tbKey r1.err != tbKey s.err then .ok (false, { s with cache := buf :: s.cache, log := buf :: s.log })
    else
      let r2 := checkOnce p (.buf buf) TS.fresh
      let log := buf :: s.log
      let rec' := prunedOfToks r2.toks
      if !rec'.noEmptyGroup then .error (.badRec log)
      else if compareData rec'.data buf > 0 then .error (.badRec log)
      else if !sameError r1.err r2.err then .error (.mismatch rec'.data r2.err log)
      else .ok (true, { s with rc := rec', err := r1.err, shrinks := s.shrinks + 1, log := log })

def Script.run {α : Type} (p : Prog) : Script α → SS → Except Stop (α × SS)
  | .ret a, s => .ok (a, s)
  | .get k, s => (k ⟨s.rc, s.shrinks⟩).run p s
  | .try_ buf k, s =>
    match s.accept p buf with
    | .error e => .error e
    | .ok (b, s') => (k b).run p s'
  | .oob, s => .error (.oob s.log)

structure ShrinkOut where
  data : List UInt64
  err : Option Err
  crashed : Option String       -- the shrinker panicked with something that is not a *testError
  log : List (List UInt64)      -- buffers run, in order

/-- `shrink(tb, deadline, rec, err, prop)` with a deadline that never expires -/
def shrinkFull (p : Prog) (toks : List Tok) (err : Option Err) (F : Nat) : ShrinkOut :=
  let rec0 := prunedOfToks toks
  if !rec0.noEmptyGroup then ⟨rec0.data, err, some "assertion failed", []⟩
  else
    match (shrinkScript F).run p { rc := rec0, err := err } with
    | .ok (_, s) => ⟨s.rc.data, s.err, none, s.log.reverse⟩
    | .error (.mismatch d e log) => ⟨d, e, none, log.reverse⟩
    | .error (.oob log) => ⟨[], none, some "index out of range", log.reverse⟩
    | .error (.badRec log) => ⟨[], none, some "assertion failed", log.reverse⟩

end Rapid
