/-
  RapidModel.Rec — `recordedBits` (data.go): the recording state machine (`record`,
  `beginGroup`, `endGroup`), `removeGroup` and `prune`, literally; `without` of shrink.go.

  A Go slice expression or index that would panic (`index out of range`, `slice bounds out of
  range`) or a failed `assert` is `none` here — the theorems show it is never reached.
-/
import RapidModel.Prog

namespace Rapid

/-- `groupInfo`; `end_ = -1`: unfinished -/
structure GI where
  label : String
  standalone : Bool
  begin : Nat
  end_ : Int
  discard : Bool
deriving Repr, DecidableEq, Inhabited

structure Rec where
  data : List UInt64
  groups : List GI
deriving Repr, Inhabited

def Rec.empty : Rec := ⟨[], []⟩

/-- replay the recording calls a run made; `st`: indices of the open groups, innermost first -/
def recGo : List Tok → Rec → List Nat → Rec
  | [], r, _ => r
  | .w u :: ts, r, st => recGo ts { r with data := r.data ++ [u] } st
  | .opn l s :: ts, r, st =>
      recGo ts { r with groups := r.groups ++ [⟨l, s, r.data.length, -1, false⟩] } (r.groups.length :: st)
  | .cls d :: ts, r, i :: st =>
      recGo ts { r with groups := r.groups.modify i fun g => { g with end_ := r.data.length, discard := d } } st
  | .cls _ :: ts, r, [] => recGo ts r []
  | .abort :: ts, r, st => recGo ts r st.tail

def recOfToks (ts : List Tok) : Rec := recGo ts .empty []

/-- `data[b:e]` of Go: panics unless `b ≤ e ≤ len` -/
def slice? (data : List UInt64) (b e : Nat) : Option (List UInt64) :=
  if b ≤ e ∧ e ≤ data.length then some ((data.take e).drop b) else none

/-- `append(buf[:b], buf[e:]...)` -/
def cut? (data : List UInt64) (b : Nat) (e : Int) : Option (List UInt64) :=
  if 0 ≤ e ∧ b ≤ e.toNat ∧ e.toNat ≤ data.length then some (data.take b ++ data.drop e.toNat) else none

/-- `rec.removeGroup(i)` -/
def Rec.removeGroup (r : Rec) (i : Nat) : Option Rec :=
  match r.groups[i]? with
  | none => none
  | some g =>
    if g.end_ < 0 then none            -- assert(g.end >= 0)
    else
      match cut? r.data g.begin g.end_ with
      | none => none
      | some data =>
        let nchild := ((r.groups.drop (i + 1)).takeWhile fun h => h.end_ ≤ g.end_).length
        let groups := r.groups.take i ++ r.groups.drop (i + 1 + nchild)
        let n := g.end_.toNat - g.begin
        some ⟨data, groups.map fun h =>
          { h with begin := if (h.begin : Int) ≥ g.end_ then h.begin - n else h.begin,
                   end_ := if h.end_ ≥ g.end_ then h.end_ - n else h.end_ }⟩

def Rec.pruneGo : Nat → Nat → Rec → Option Rec
  | 0, _, r => some r
  | fuel+1, i, r =>
    match r.groups[i]? with
    | none => some r
    | some g => if g.discard then (r.removeGroup i).bind (Rec.pruneGo fuel i) else Rec.pruneGo fuel (i + 1) r

/-- `rec.prune()` (every step removes a group or advances: `groups.length + 1` steps suffice) -/
def Rec.prune (r : Rec) : Option Rec :=
  match Rec.pruneGo (r.groups.length + 1) 0 r with
  | none => none
  | some r' => if r'.groups.all (fun g => (g.begin : Int) != g.end_) then some r' else none

/-- `prune()` of a recording, computed while replaying the recording calls: when a group is
    closed with `discard`, its data and every group opened inside it are dropped on the spot.
    Same data and same finished groups as `recOfToks` followed by `Rec.prune`, for the recording of
    every run (`RapidProofs.PruneLiteralRun.literal_prune_of_run`; also cross-checked by the driver on
    every recording it sees); the only difference is that Go's `removeGroup` also forgets unfinished
    groups that directly follow a removed one in the list — entries every pass of the shrinker skips. -/
def pruneGoT : List Tok → Rec → List (Nat × Nat) → Rec
  | [], r, _ => r
  | .w u :: ts, r, st => pruneGoT ts { r with data := r.data ++ [u] } st
  | .opn l s :: ts, r, st =>
      pruneGoT ts { r with groups := r.groups ++ [⟨l, s, r.data.length, -1, false⟩] } ((r.groups.length, r.data.length) :: st)
  | .cls d :: ts, r, (i, b) :: st =>
      if d then pruneGoT ts ⟨r.data.take b, r.groups.take i⟩ st
      else pruneGoT ts { r with groups := r.groups.modify i fun g => { g with end_ := r.data.length } } st
  | .cls _ :: ts, r, [] => pruneGoT ts r []
  | .abort :: ts, r, st => pruneGoT ts r st.tail

def prunedOfToks (ts : List Tok) : Rec := pruneGoT ts .empty []

/-- the assertion at the end of `prune()`: no group is empty -/
def Rec.noEmptyGroup (r : Rec) : Bool := r.groups.all fun g => (g.begin : Int) != g.end_

/-- data and finished groups (what the shrinker looks at) -/
def Rec.finished (r : Rec) : List UInt64 × List GI := (r.data, r.groups.filter fun g => g.end_ ≥ 0)

/-- `without(data, groups...)`: cut the groups out, last first -/
def without? (data : List UInt64) (groups : List GI) : Option (List UInt64) :=
  groups.reverse.foldlM (fun buf g => cut? buf g.begin g.end_) data

/-- `buf[i] = u` -/
def setIdx? (data : List UInt64) (i : Nat) (u : UInt64) : Option (List UInt64) :=
  if i < data.length then some (data.set i u) else none

end Rapid
