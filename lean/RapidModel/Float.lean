/-
  RapidModel.Float — floats.go: `genFloatRange` / `genUfloatRange` and the conversion between
  IEEE-754 bit patterns and the (exponent, integer significand, fractional significand) parts.

  floats.go never computes with floating-point numbers: apart from the comparisons `min >= 0`,
  `max <= 0`, `min <= max` and the negations `-min`, `-max` (all exact functions of the bit
  patterns of non-NaN numbers) everything is integer arithmetic on `math.Float64bits`.  The
  model therefore works on bit patterns: a float of format `f` is the `UInt64` holding its
  `1 + E + S` bits.  No Lean `Float` occurs.

  For `Float32Range` the code stores `float64(min)`, `float64(max)` and converts back with
  `float32(·)` in `genUfloatRange`; both conversions are exact on these values and commute with
  negation and with the comparisons against 0, so the model keeps the 32-bit patterns.
-/
import RapidModel.Prim

namespace Rapid

structure FFmt where
  S : Nat      -- significand bits (`float32SignifBits` / `float64SignifBits`)
  E : Nat      -- exponent bits
deriving DecidableEq, Repr

def fmt32 : FFmt := ⟨23, 8⟩
def fmt64 : FFmt := ⟨52, 11⟩

def floatExpLabel := "floatexp"
def floatSignifLabel := "floatsignif"

/-- `bitmask64(floatNNExpBits-1)` as a number -/
def FFmt.bias (f : FFmt) : Nat := (bitmask64 (f.E - 1)).toNat
/-- magnitude bits: `Float64bits(f) & math.MaxInt64` -/
def FFmt.mag (f : FFmt) (b : UInt64) : UInt64 := b &&& bitmask64 (f.S + f.E)
def FFmt.signBit (f : FFmt) : UInt64 := (1 : UInt64) <<< (f.S + f.E).toUInt64
def FFmt.isNeg (f : FFmt) (b : UInt64) : Bool := b &&& f.signBit != 0
/-- bit pattern of +Inf: exponent all ones, significand 0 -/
def FFmt.inf (f : FFmt) : UInt64 := bitmask64 f.E <<< f.S.toUInt64
def FFmt.isNaN (f : FFmt) (b : UInt64) : Bool := f.mag b > f.inf
/-- unary minus -/
def FFmt.fneg (f : FFmt) (b : UInt64) : UInt64 := b ^^^ f.signBit

/-- the order of the real numbers (and ±Inf) on non-NaN bit patterns: `-0 = +0` -/
def FFmt.key (f : FFmt) (b : UInt64) : Int := if f.isNeg b then - ((f.mag b).toNat : Int) else (f.mag b).toNat
def FFmt.fle (f : FFmt) (a b : UInt64) : Bool := f.key a ≤ f.key b
/-- `x >= 0` / `x <= 0` for non-NaN `x` -/
def FFmt.ge0 (f : FFmt) (b : UInt64) : Bool := !f.isNeg b || f.mag b == 0
def FFmt.le0 (f : FFmt) (b : UInt64) : Bool := f.isNeg b || f.mag b == 0

/-- `ufloatFracBits` -/
def fracBits (e : Int) (S : Nat) : Nat :=
  if e ≤ 0 then S else if e.toNat < S then S - e.toNat else 0

/-- `ufloat32Parts` / `ufloat64Parts` on the bit pattern -/
def FFmt.parts (f : FFmt) (b : UInt64) : Int × UInt64 × UInt64 :=
  let u := f.mag b
  let e : Int := ((u >>> f.S.toUInt64).toNat : Int) - f.bias
  let s := u &&& bitmask64 f.S
  let n := fracBits e f.S
  (e, s >>> n.toUInt64, s &&& bitmask64 n)

/-- `ufloat32FromParts` / `ufloat64FromParts`: the bit pattern (computed in `uint32` for
    float32: truncation to the width of the format) -/
def FFmt.ufromParts (f : FFmt) (e : Int) (si sf : UInt64) : UInt64 :=
  let e_ := ((Int64.ofInt e).toUInt64 + bitmask64 (f.E - 1)) <<< f.S.toUInt64
  let s_ := (si <<< (fracBits e f.S).toUInt64) ||| sf
  (e_ ||| s_) &&& bitmask64 (1 + f.E + f.S)

/-- `float32FromParts` / `float64FromParts` -/
def FFmt.fromParts (f : FFmt) (sign : Bool) (e : Int) (si sf : UInt64) : UInt64 :=
  let u := f.ufromParts e si sf
  if sign then f.fneg u else u

def vTri (a : Int) (l r : Bool) : Val := .cons (.int a) (.cons (.bool l) (.bool r))
def vTriGet : Val → Int × Bool × Bool
  | .cons (.int a) (.cons (.bool l) (.bool r)) => (a, l, r)
  | _ => (0, false, false)

/-- the loop at the end of `genUfloatRange`: clear the low bits `0 .. cnt-1` of `sf` while the
    result stays `≥ sfMin` -/
def clearLow (sfMin : UInt64) : Nat → Nat → UInt64 → UInt64
  | 0, _, sf => sf
  | cnt+1, i, sf =>
    let m := ~~~ ((1 : UInt64) <<< i.toUInt64)
    if sf &&& m < sfMin then sf else clearLow sfMin cnt (i + 1) (sf &&& m)

/-- the first `switch` of `genUfloatRange`: bounds of the integer significand for exponent `e`
    (`p0`, `p1` are the parts of `min` and `max`) -/
def siBounds (S : Nat) (p0 p1 : Int × UInt64 × UInt64) (e : Int) (lOv rOv : Bool) : UInt64 × UInt64 :=
  if lOv then (p0.2.1, p0.2.1)
  else if rOv then (p1.2.1, p1.2.1)
  else if p0.1 = p1.1 then (p0.2.1, p1.2.1)
  else if e = p0.1 then (p0.2.1, bitmask64 (S - fracBits e S))
  else if e = p1.1 then (0, p1.2.1)
  else (0, bitmask64 (S - fracBits e S))

/-- the second `switch`: bounds of the fractional significand for exponent `e` and integer
    significand `si` -/
def sfBounds (S : Nat) (p0 p1 : Int × UInt64 × UInt64) (e : Int) (lOv rOv : Bool) (si : UInt64) : UInt64 × UInt64 :=
  if lOv then (p0.2.2, p0.2.2)
  else if rOv then (p1.2.2, p1.2.2)
  else if p0.1 = p1.1 ∧ p0.2.1 = p1.2.1 then (p0.2.2, p1.2.2)
  else if e = p0.1 ∧ si = p0.2.1 then (p0.2.2, bitmask64 (fracBits e S))
  else if e = p1.1 ∧ si = p1.2.1 then (0, p1.2.2)
  else (0, bitmask64 (fracBits e S))

/-- the body of the `floatsignif` group and the loop after it, for exponent `e` -/
def ufloatSignif (ft : FT) (S : Nat) (p0 p1 : Int × UInt64 × UInt64) (e : Int) (lOv rOv : Bool) (fuel : Nat)
    (k : UInt64 × UInt64 → Prog) : Prog :=
  uintRange ft (siBounds S p0 p1 e lOv rOv).1 (siBounds S p0 p1 e lOv rOv).2 false fuel fun si _ _ =>
    let sfMin := (sfBounds S p0 p1 e lOv rOv si).1
    let sfMax := (sfBounds S p0 p1 e lOv rOv si).2
    let maxR := len64 (sfMax - sfMin)
    uintNoReject (UInt64.ofNat maxR) fun r =>
      uintRange ft sfMin sfMax false fuel fun sf _ _ =>
        k (si, clearLow sfMin (maxR - r.toNat) 0 sf)

def vPairGet : Val → UInt64 × UInt64
  | .cons a (.cons b _) => (vu a, vu b)
  | _ => (0, 0)

/-- `genUfloatRange(s, min, max, signifBits)`; `min`, `max` are bit patterns -/
def ufloatRange (ft : FT) (f : FFmt) (min max : UInt64) (fuel : Nat) (k : Int → UInt64 → UInt64 → Prog) : Prog :=
  if !(f.ge0 min && f.fle min max) then .throw (.panic "assertion failed" siteAssert)
  else
    .group floatExpLabel false
      (intRange ft (Int64.ofInt (f.parts min).1) (Int64.ofInt (f.parts max).1) fuel fun e l r => .ret (vTri e.toInt l r))
      (fun _ => false)
      fun v =>
        .group floatSignifLabel false
          (ufloatSignif ft f.S (f.parts min) (f.parts max) (vTriGet v).1 (vTriGet v).2.1 (vTriGet v).2.2 fuel
            fun x => .ret (.cons (uv x.1) (.cons (uv x.2) .nil)))
          (fun _ => false)
          fun v2 => k (vTriGet v).1 (vPairGet v2).1 (vPairGet v2).2

/-- `genFloatRange(s, min, max, signifBits)` -/
def floatRange (ft : FT) (f : FFmt) (min max : UInt64) (fuel : Nat)
    (k : Bool → Int → UInt64 → UInt64 → Prog) : Prog :=
  let posMin : UInt64 := if f.ge0 min then min else 0
  let negMin : UInt64 := if f.ge0 min then 0 else if f.le0 max then f.fneg max else 0
  let thr : UInt64 := if f.ge0 min then thrNever else if f.le0 max then thrAlways else ft.coinHalf
  coin thr fun neg =>
    if neg then ufloatRange ft f negMin (f.fneg min) fuel (k true)
    else ufloatRange ft f posMin max fuel (k false)

/-- `Float32Range(min, max).value` / `Float64Range(min, max).value`: the bit pattern of the value -/
def floatValue (ft : FT) (f : FFmt) (min max : UInt64) (fuel : Nat) (k : UInt64 → Prog) : Prog :=
  floatRange ft f min max fuel fun sign e si sf => k (f.fromParts sign e si sf)

/-- the constructor's assertions: neither bound is a NaN, `min <= max` -/
def floatRangeOK (f : FFmt) (min max : UInt64) : Bool := !f.isNaN min && !f.isNaN max && f.fle min max

end Rapid
