/-
  RapidModel.Minimize — `minimize` / `minimizer` of shrink.go: try 0..4, shift right, unset
  bits, sort bits, binary search; `cond` is called on candidates and the first component of
  the state records every probe (for the correspondence check).
-/
import RapidModel.Bits

namespace Rapid

def small : UInt64 := 5

/-- state of the minimizer: best value so far and the probes made (most recent first) -/
structure MinSt where
  best : UInt64
  probes : List UInt64
deriving Repr

/-- `minimizer.accept` -/
def MinSt.accept (cond : UInt64 → Bool) (m : MinSt) (u : UInt64) : MinSt × Bool :=
  if u ≥ m.best ∨ u < small then (m, false)
  else if cond u then (⟨u, u :: m.probes⟩, true)
  else (⟨m.best, u :: m.probes⟩, false)

/-- try 0 … min(u, small) - 1 in order -/
def trySmall (cond : UInt64 → Bool) (u : UInt64) : Nat → UInt64 → List UInt64 → Option UInt64 × List UInt64
  | 0, _, probes => (none, probes)
  | n+1, i, probes =>
    if i < u ∧ i < small then
      if cond i then (some i, i :: probes) else trySmall cond u n (i + 1) (i :: probes)
    else (none, probes)

def rShift (cond : UInt64 → Bool) : Nat → MinSt → MinSt
  | 0, m => m
  | n+1, m =>
    let (m', ok) := m.accept cond (m.best >>> 1)
    if ok then rShift cond n m' else m'

/-- `for i := size-1; i >= 0; i-- { accept(best ^ 1<<i) }` (`size` is computed once) -/
def unsetBits (cond : UInt64 → Bool) : Nat → MinSt → MinSt
  | 0, m => m
  | i+1, m => unsetBits cond i (m.accept cond (m.best ^^^ ((1 : UInt64) <<< i.toUInt64))).1

def sortInner (cond : UInt64 → Bool) (i : Nat) (h : UInt64) : Nat → Nat → MinSt → MinSt
  | 0, _, m => m
  | n+1, j, m =>
    if j < i then
      let l : UInt64 := (1 : UInt64) <<< j.toUInt64
      if m.best &&& l == 0 then
        let (m', ok) := m.accept cond (m.best ^^^ (l ||| h))
        if ok then m' else sortInner cond i h n (j + 1) m'
      else sortInner cond i h n (j + 1) m
    else m

def sortBits (cond : UInt64 → Bool) : Nat → MinSt → MinSt
  | 0, m => m
  | i+1, m =>
    let h : UInt64 := (1 : UInt64) <<< i.toUInt64
    let m' := if m.best &&& h != 0 then sortInner cond i h i 0 m else m
    sortBits cond i m'

def binLoop (cond : UInt64 → Bool) : Nat → UInt64 → UInt64 → MinSt → MinSt
  | 0, _, _, m => m
  | n+1, i, j, m =>
    if i < j then
      let h := i + (j - i) / 2
      let (m', ok) := m.accept cond h
      if ok then binLoop cond n i h m' else binLoop cond n (h + 1) j m'
    else m

def binSearch (cond : UInt64 → Bool) (m : MinSt) : MinSt :=
  let (m', ok) := m.accept cond (m.best - 1)
  if !ok then m' else binLoop cond 65 0 m'.best m'

/-- `minimize(u, cond)`: result and probes in order -/
def minimize (u : UInt64) (cond : UInt64 → Bool) : UInt64 × List UInt64 :=
  if u == 0 then (0, [])
  else
    match trySmall cond u 5 0 [] with
    | (some i, probes) => (i, probes.reverse)
    | (none, probes) =>
      if u ≤ small then (u, probes.reverse)
      else
        let m : MinSt := ⟨u, probes⟩
        let m := rShift cond 64 m
        let m := unsetBits cond (len64 m.best) m
        let m := sortBits cond (len64 m.best) m
        let m := binSearch cond m
        (m.best, m.probes.reverse)

end Rapid
