/-
  RapidModel.GoEngine — what the translator needs for the generation loop of engine.go (`findBug`): code that seeds the
  bit stream of the reused `*T`, runs one test case (`checkOnce`) and looks at the clock.

  `Go.EM α` is a script over three requests — `init seed` (`r.init(seed)`), `checkOnce` (run the property once on the
  reused `*T`; the answer is the class of the error: none, invalid data, a failure) and `early iter` (the test
  `time.Until(deadline) < total/iter*5` before iteration `iter`) — whose result is a value or a Go panic.  Logging and
  the bookkeeping of durations are not translated: they feed the log and the `early` test only.
-/
import RapidModel.GoImp

namespace Rapid.Go

/-- what `findBug` looks at in the `*testError` of a test case -/
inductive ErrC where
  | none          -- err == nil
  | invalid       -- err.isInvalidData()
  | fail          -- anything else: the test case falsified the property
deriving DecidableEq, Repr, Inhabited

def ErrC.isInvalid : ErrC → Bool
  | .invalid => true
  | _ => false

inductive EScript (α : Type) where
  | ret (a : α)
  | init (seed : UInt64) (k : EScript α)
  | checkOnce (k : ErrC → EScript α)
  | early (iter : Int64) (k : Bool → EScript α)

def EScript.bind {α β : Type} : EScript α → (α → EScript β) → EScript β
  | .ret a, f => f a
  | .init s k, f => .init s (k.bind f)
  | .checkOnce k, f => .checkOnce fun e => (k e).bind f
  | .early i k, f => .early i fun b => (k b).bind f

def EM (α : Type) : Type := EScript (Except Panic α)

namespace EM

def ret {α : Type} (a : α) : EM α := EScript.ret (.ok a)

def bind {α β : Type} (x : EM α) (f : α → EM β) : EM β :=
  EScript.bind x fun r =>
    match r with
    | .ok a => f a
    | .error e => EScript.ret (.error e)

instance : Monad EM where
  pure := ret
  bind := bind

def ofM {α : Type} (x : M α) : EM α := EScript.ret x
def fuel {α : Type} : EM α := EScript.ret (.error .fuel)
def init (seed : UInt64) : EM Unit := EScript.init seed (EScript.ret (.ok ()))
def checkOnce : EM ErrC := EScript.checkOnce fun e => EScript.ret (.ok e)
def early (iter : Int64) : EM Bool := EScript.early iter fun b => EScript.ret (.ok b)
def andThen (a b : EM Bool) : EM Bool := a >>= fun x => if x then b else pure false
def orElse (a b : EM Bool) : EM Bool := a >>= fun x => if x then pure true else b

end EM

end Rapid.Go
