/-
  RapidModel.Prim — the primitives of `utils.go` as `Prog`s, in continuation-passing style.

  Every floating-point decision of the code is an integer threshold on the 53-bit word it
  is computed from (`float64(w) * 2^-53` is exact and monotone in `w`):
    * `flipBiasedCoin(p)`  = `thr ≤ w`, `thr` the least word with `w·2⁻⁵³ ≥ 1-p`;
    * `genGeom(p)`         = the number of break points `≤ w` (monotone in `w`).
  The thresholds live in an `FT` ("float table"); the executable driver and the theorems that
  need concrete numbers use the table measured from the real functions on every run
  (`Generated/Thresholds.lean`), all other theorems quantify over every `FT`.
-/
import RapidModel.Prog

namespace Rapid

structure FT where
  /-- least 53-bit word for which `flipBiasedCoin(0.5)` is true -/
  coinHalf : UInt64
  /-- for bit length `B` (of `max`): ascending break points of `genGeom(·, 1/(m_B+1))`,
      `t₁ ≤ t₂ ≤ …`: `genGeom w ≥ j ↔ t_j ≤ w` (only the first 65 matter) -/
  geom : Nat → List UInt64

/-- `flipBiasedCoin(p)` never true (`p = 0`): no 53-bit word reaches 2^53 -/
def thrNever : UInt64 := 0x20000000000000
/-- `p = 1` -/
def thrAlways : UInt64 := 0

def vTrue : Val := .bool true
def vFalse : Val := .bool false

def coinLabel := "coinflip"
def biasLabel := "bias"
def intBitsLabel := "intbits"
def dieLabel := "dieroll"
def repeatSuffix := "@repeat"
def tryLabel := "try"
def actionLabel := "action"

/-- `flipBiasedCoin` with threshold `thr` -/
def coin (thr : UInt64) (k : Bool → Prog) : Prog :=
  .group coinLabel false (.draw 53 fun w => .ret (.bool (decide (thr ≤ w)))) (fun _ => false)
    (fun v => k (v == vTrue))

/-- `genGeom(s, p) + 1`, as used by `genUintNBiased` -/
def geomN (tbl : List UInt64) (w : UInt64) : Nat := 1 + (tbl.filter (· ≤ w)).length

/-- `int(m)` for `m = max(8, (bitlen+48)/7)` -/
def biasM (bitlen : Nat) : Nat := max 8 ((bitlen + 48) / 7)
/-- `64 - (16 - int(m))*4` -/
def overflowAt (bitlen : Nat) : Nat := 64 - (16 - biasM bitlen) * 4

def uv (u : UInt64) : Val := .int u.toNat
def vu : Val → UInt64
  | .int i => UInt64.ofNat i.toNat
  | _ => 0

/-- `genUintNNoReject` -/
def uintNoReject (max : UInt64) (k : UInt64 → Prog) : Prog :=
  .group intBitsLabel false (.draw (len64 max) fun u => .ret (uv u)) (fun _ => false)
    (fun v => let u := vu v; k (if u > max then max else u))

/-- `genUintNUnbiased`: rejection sampling -/
def uintUnbiased (max : UInt64) (k : UInt64 → Prog) : Nat → Prog
  | 0 => .throw .fuel
  | fuel+1 =>
    .group intBitsLabel false (.draw (len64 max) fun u => .ret (uv u)) (fun v => vu v > max)
      (fun v => if vu v ≤ max then k (vu v) else uintUnbiased max k fuel)

/-- the `for` loop of `genUintNBiased` for a chosen `bitlen` (65 = "overflow to max") -/
def uintBiasedLoop (max : UInt64) (n : Nat) (bitlen : Nat) (k : UInt64 → Bool → Bool → Prog) : Nat → Prog
  | 0 => .throw .fuel
  | fuel+1 =>
    .group intBitsLabel false (.draw bitlen fun u => .ret (uv u))
      (fun v => !(bitlen > 64 || vu v ≤ max))
      (fun v =>
        let u := if bitlen > 64 then max else vu v
        if u ≤ max then k u (u == 0 && n == 1) (u == max && bitlen ≥ n)
        else uintBiasedLoop max n bitlen k fuel)

/-- the bit length `genUintNBiased` draws for geometric value `n` (`= genGeom+1`) -/
def biasedBitlen (bitlen n : Nat) : Nat :=
  if n < bitlen then n
  else if n > bitlen ∧ n ≥ overflowAt bitlen then 65
  else bitlen

/-- `genUintNBiased` -/
def uintBiased (ft : FT) (max : UInt64) (fuel : Nat) (k : UInt64 → Bool → Bool → Prog) : Prog :=
  let bitlen := len64 max
  .group biasLabel false (.draw 53 fun w => .ret (.int (geomN (ft.geom bitlen) w))) (fun _ => false)
    (fun v =>
      let n := match v with | .int i => i.toNat | _ => 0
      uintBiasedLoop max n (biasedBitlen bitlen n) k fuel)

/-- `genUintN` -/
def uintN (ft : FT) (max : UInt64) (bias : Bool) (fuel : Nat) (k : UInt64 → Bool → Bool → Prog) : Prog :=
  if bias then uintBiased ft max fuel k
  else uintUnbiased max (fun u => k u false false) fuel

def siteAssert : Nat := 9002

/-- `genUintRange` -/
def uintRange (ft : FT) (min max : UInt64) (bias : Bool) (fuel : Nat) (k : UInt64 → Bool → Bool → Prog) : Prog :=
  if min > max then .throw (.panic "invalid range" siteAssert)
  else uintN ft (max - min) bias fuel (fun u l r => k (min + u) l r)

/-- `genIntRange` with `bias = true` (the only way the package calls it) -/
def intRange (ft : FT) (min max : Int64) (fuel : Nat) (k : Int64 → Bool → Bool → Prog) : Prog :=
  if min > max then .throw (.panic "invalid range" siteAssert)
  else
    let posMin : UInt64 := if min ≥ 0 then min.toUInt64 else 0
    let negMin : UInt64 := if min ≥ 0 then 0 else if max ≤ 0 then (-max).toUInt64 else 1
    let thr : UInt64 := if min ≥ 0 then thrNever else if max ≤ 0 then thrAlways else ft.coinHalf
    coin thr fun neg =>
      if neg then
        uintRange ft negMin (-min).toUInt64 true fuel fun u l r =>
          k (-(u.toInt64)) r (l && max ≤ 0)
      else
        uintRange ft posMin max.toUInt64 true fuel fun u l r =>
          k u.toInt64 (l && min ≥ 0) r

/-- `genIndex` -/
def index (ft : FT) (n : Nat) (bias : Bool) (fuel : Nat) (k : Nat → Prog) : Prog :=
  if n = 0 then .throw (.panic "assertion failed" siteAssert)
  else uintN ft (UInt64.ofNat (n - 1)) bias fuel (fun u _ _ => k u.toNat)

/-- `newLoadedDie(weights).table` -/
def dieTable (weights : List Nat) : List Nat :=
  if weights.length = 1 then [0]
  else (weights.zipIdx.map fun (w, i) => List.replicate w i).flatten

/-- `loadedDie.roll` -/
def dieRoll (ft : FT) (weights : List Nat) (fuel : Nat) (k : Nat → Prog) : Prog :=
  let table := dieTable weights
  .group dieLabel false (index ft table.length false fuel fun ix => .ret (.int ix)) (fun _ => false)
    (fun v => match v with
      | .int i => k (table.getD i.toNat 0)
      | _ => k 0)

/-! ### `repeat` -/

structure RCfg where
  minC : Nat
  maxC : Nat
  thr : UInt64          -- continue iff the coin word ≥ thr (from `pContinue`)
  label : String        -- element label, without the "@repeat" suffix

structure RSt where
  count : Nat := 0
  rejs : Nat := 0
  force : Bool := false
deriving Repr

/-- what one iteration reports to the loop -/
def rStop : Val := .nil
def rRej : Val := .bool true
def rAcc (acc : Val) : Val := .cons .nil acc

/-- the coin of `repeat.more`.  A forced stop does not depend on the recorded word: it draws
    zero bits, so that the recorded word (0) means "stop" for every `pContinue < 1` when the
    recording is replayed without the rejected attempts that forced the stop. -/
def moreCoin (c : RCfg) (s : RSt) (k : Bool → Prog) : Prog :=
  if s.count < c.minC then coin thrAlways k
  else if s.force then
    .group coinLabel false (.draw 0 fun _ => .ret vFalse) (fun _ => false) (fun _ => k false)
  else if s.count ≥ c.maxC then coin thrNever k
  else coin c.thr k

/-- does `reject()` panic with "too many rejections" in state `s` -/
def tooManyRejections (c : RCfg) (s : RSt) : Bool := s.rejs + 1 > s.count * 2 && !(s.count ≥ c.minC)

def tooManyMsg := "too many rejections in repeat"

/-- `repeat` loop: `step acc` runs the loop body for one element and returns `rRej` (the body
    called `reject()`) or `rAcc acc'`.  `reject()` may panic inside the element group, which
    then stays unfinished. -/
def repeatLoop (c : RCfg) (step : Val → Prog) (k : Val → Prog) : Nat → RSt → Val → Prog
  | 0, _, _ => .throw .fuel
  | fuel+1, s, acc =>
    .group (c.label ++ repeatSuffix) true
      (moreCoin c s fun cont =>
        if cont then
          (step acc) >>- fun r =>
            if r == rRej && tooManyRejections c s then .throw (.invalid tooManyMsg) else .ret r
        else .ret rStop)
      (fun r => r == rRej)
      (fun r =>
        match r with
        | .nil => k acc
        | .cons .nil acc' => repeatLoop c step k fuel { s with count := s.count + 1 } acc'
        | _ =>
          let rejs := s.rejs + 1
          repeatLoop c step k fuel { s with rejs := rejs, force := s.force || rejs > s.count * 2 } acc)

/-- `find(gen, t, tries)`: `gen` returns `some v` (ok) or `none` -/
def findLoop (body : Prog) (ok : Val → Bool) (k : Val → Prog) : Nat → Prog
  | 0 => .throw (.invalid "failed to find suitable value in 5 tries")
  | n+1 => .group tryLabel false body (fun v => !ok v)
            (fun v => if ok v then k v else findLoop body ok k n)

end Rapid
