/-
  RapidModel.Bits — words, masks, the jsf64 PRNG and the two bit sources of rapid's `data.go`.
  Core Lean only.
-/
namespace Rapid

/-- `bitmask64(n)` with Go's shift semantics: `uint64(1)<<n - 1`, and a shift by ≥ 64 gives 0,
    so the mask is all ones. -/
def bitmask64 (n : Nat) : UInt64 :=
  if n ≥ 64 then 0xFFFFFFFFFFFFFFFF else ((1 : UInt64) <<< n.toUInt64) - 1

/-- what `bufBitStream.drawBits(n)` does to the head word -/
def mask (n : Nat) (w : UInt64) : UInt64 := w &&& bitmask64 n

theorem mask_idem (n : Nat) (w : UInt64) : mask n (mask n w) = mask n w := by
  simp [mask, UInt64.and_assoc]

/-- `bits.Len64` -/
def len64 (u : UInt64) : Nat := Nat.log2 u.toNat + (if u = 0 then 0 else 1)

def rotl (x : UInt64) (k : UInt64) : UInt64 := (x <<< k) ||| (x >>> (64 - k))

/-- jsf64ctx -/
structure Jsf where
  a : UInt64
  b : UInt64
  c : UInt64
  d : UInt64
deriving DecidableEq, Repr, Inhabited

def Jsf.rand (x : Jsf) : UInt64 × Jsf :=
  let e := x.a - rotl x.b 7
  let a := x.b ^^^ rotl x.c 13
  let b := x.c + rotl x.d 37
  let c := x.d + e
  let d := e + a
  (d, ⟨a, b, c, d⟩)

def Jsf.warm : Nat → Jsf → Jsf
  | 0, x => x
  | n+1, x => Jsf.warm n x.rand.2

/-- constants are re-read from the source on every run (Generated/Consts.lean) and compared -/
def jsfInitA : UInt64 := 0xf1ea5eed
def jsfWarmRounds : Nat := 20

def Jsf.init (seed : UInt64) : Jsf := Jsf.warm jsfWarmRounds ⟨jsfInitA, seed, seed, seed⟩

def Jsf.take : Nat → Jsf → List UInt64
  | 0, _ => []
  | n+1, x => x.rand.1 :: Jsf.take n x.rand.2

/-- a bit source: a buffer of words (`bufBitStream`) or the PRNG (`randomBitStream`) -/
inductive Src where
  | buf (ws : List UInt64)
  | rng (x : Jsf)
deriving DecidableEq, Repr, Inhabited

/-- `drawBits(n)`: the recorded word and the remaining source; `none` = `invalidData("overrun")`.
    The PRNG does not advance for `n > 64` and returns all ones; the buffer consumes a word and
    (because the mask of a shift ≥ 64 is all ones) returns it unmasked. -/
def Src.next (s : Src) (n : Nat) : Option (UInt64 × Src) :=
  match s with
  | .buf [] => none
  | .buf (w :: ws) => some (mask n w, .buf ws)
  | .rng x => if n ≤ 64 then some (mask n x.rand.1, .rng x.rand.2) else some (0xFFFFFFFFFFFFFFFF, .rng x)

/-- little-endian words of a byte string, the tail zero-padded (`checkFuzz`) -/
def wordOfBytes : List UInt8 → UInt64
  | [] => 0
  | b :: bs => b.toUInt64 ||| (wordOfBytes bs <<< 8)

def wordsOfBytes (bs : List UInt8) : List UInt64 :=
  if _h : bs = [] then [] else
    wordOfBytes (bs.take 8) :: wordsOfBytes (bs.drop 8)
termination_by bs.length
decreasing_by
  cases bs with
  | nil => exact absurd rfl _h
  | cons b bs => simp; omega

end Rapid
