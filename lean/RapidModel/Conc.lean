/-
  RapidModel.Conc — threads, one RWMutex, guarded fields: the access discipline of `*T`
  (engine.go) and of `Generator` (generator.go, combinators.go).

  A trace is what one call of a method does, as a list of events.  `WLF` ("well-locked from")
  says a trace respects the discipline: guarded fields are read under R or W, written under W,
  acquisitions are balanced and not nested.  Atomic operations, `sync.Once`-guarded
  initialisation and `sync.Map` are not events of this model: they are synchronised by the
  runtime (trusted base: A-runtime).  The traces of the real methods are extracted from the
  source on every run (Generated/LockTraces.lean).
-/
namespace Rapid.Conc

inductive Mode | R | W
deriving DecidableEq, Repr

inductive Ev
  | acq (m : Mode) | rel (m : Mode) | read (f : Nat) | write (f : Nat)
deriving DecidableEq, Repr

/-- well-locked from a given held mode -/
def WLF : Option Mode → List Ev → Bool
  | h, [] => h.isNone
  | none, .acq m :: es => WLF (some m) es
  | some _, .acq _ :: _ => false
  | some m, .rel m' :: es => m == m' && WLF none es
  | none, .rel _ :: _ => false
  | some m, .read _ :: es => WLF (some m) es
  | none, .read _ :: _ => false
  | some .W, .write _ :: es => WLF (some .W) es
  | _, .write _ :: _ => false

structure Cfg where
  rest : Nat → List Ev          -- remaining trace of each thread
  held : Nat → Option Mode      -- what each thread holds of the mutex

def upd {α} (f : Nat → α) (i : Nat) (a : α) : Nat → α := fun j => if j = i then a else f j

/-- thread `i` takes its next step, if the RWMutex allows it -/
inductive Step : Cfg → Cfg → Prop
  | acqW (c i es) : c.rest i = .acq .W :: es → (∀ j, c.held j = none) →
      Step c ⟨upd c.rest i es, upd c.held i (some .W)⟩
  | acqR (c i es) : c.rest i = .acq .R :: es → (∀ j, c.held j ≠ some .W) → c.held i = none →
      Step c ⟨upd c.rest i es, upd c.held i (some .R)⟩
  | rel (c i m es) : c.rest i = .rel m :: es → c.held i = some m →
      Step c ⟨upd c.rest i es, upd c.held i none⟩
  | read (c i f es) : c.rest i = .read f :: es → Step c ⟨upd c.rest i es, c.held⟩
  | write (c i f es) : c.rest i = .write f :: es → Step c ⟨upd c.rest i es, c.held⟩

def isAccess (f : Nat) (w : Bool) : List Ev → Prop
  | .read g :: _ => g = f ∧ w = false
  | .write g :: _ => g = f ∧ w = true
  | _ => False

/-- two different threads are about to touch the same field, at least one writing -/
def Race (c : Cfg) : Prop :=
  ∃ i j f wi wj, i ≠ j ∧ isAccess f wi (c.rest i) ∧ isAccess f wj (c.rest j) ∧ (wi = true ∨ wj = true)

inductive Reach (c₀ : Cfg) : Cfg → Prop
  | refl : Reach c₀ c₀
  | step {c c'} : Reach c₀ c → Step c c' → Reach c₀ c'

end Rapid.Conc
