/-
  RapidModel.GoStream — what the translator needs for code that opens and closes groups of the bit stream *not* in a
  lexically nested way (`repeat.more` of utils.go: the group of an element is opened by one call of `more` and closed by
  the next one, or by `reject`'s caller).

  A `Go.StScript` is a script over three requests: `sub p` — run the (lexically scoped) program `p` of the model on the
  stream: a draw, `flipBiasedCoin`, a sub-generator —, `beginG label standalone` — `s.beginGroup`, answering the index of the
  new group — and `endG i discard` — `s.endGroup(i, discard)`.  `StScript.run` is the meaning of such a script on a bit
  source, a `*T` state and the recording made so far (tokens, open groups): `endGroup` asserts, like the source, that the
  group it closes is the innermost open one of this script and that a group that is kept used some data; an error leaves
  every group of the script that is still open unfinished (`abort`).
-/
import RapidModel.Prog
import RapidModel.GoImp
import RapidModel.GoProg

namespace Rapid.Go

inductive StScript (α : Type) where
  | ret (a : α)
  | sub (p : Prog) (k : Val → StScript α)
  | beginG (label : String) (standalone : Bool) (k : Int64 → StScript α)
  | endG (i : Int64) (discard : Bool) (k : StScript α)

def StScript.bind {α β : Type} : StScript α → (α → StScript β) → StScript β
  | .ret a, f => f a
  | .sub p k, f => .sub p fun v => (k v).bind f
  | .beginG l s k, f => .beginG l s fun i => (k i).bind f
  | .endG i d k, f => .endG i d (k.bind f)

/-- translated code: a script whose result is a value or a Go panic -/
def StM (α : Type) : Type := StScript (Except Panic α)

namespace StM

def ret {α : Type} (a : α) : StM α := StScript.ret (.ok a)

def bind {α β : Type} (x : StM α) (f : α → StM β) : StM β :=
  StScript.bind x fun r =>
    match r with
    | .ok a => f a
    | .error e => StScript.ret (.error e)

instance : Monad StM where
  pure := ret
  bind := bind

def ofM {α : Type} (x : M α) : StM α := StScript.ret x
def fuel {α : Type} : StM α := StScript.ret (.error .fuel)
def beginG (label : String) (standalone : Bool) : StM Int64 := StScript.beginG label standalone fun i => StScript.ret (.ok i)
def endG (i : Int64) (discard : Bool) : StM Unit := StScript.endG i discard (StScript.ret (.ok ()))
/-- run a program of the model (one that hands on an encoded value) on the stream -/
def sub {α : Type} [Enc α] (p : Prog) : StM α := StScript.sub p fun v => StScript.ret (.ok (Enc.dec v))
/-- `s.drawBits(n)` -/
def draw (n : Int64) : StM UInt64 := sub (.draw (natOfInt n) fun u => .ret (Enc.enc u))
def andThen (a b : StM Bool) : StM Bool := a >>= fun x => if x then b else pure false
def orElse (a b : StM Bool) : StM Bool := a >>= fun x => if x then pure true else b

end StM

/-- what a script has done to the stream so far -/
structure StState where
  src : Src
  ts : TS
  toks : List Tok                  -- recorded since the script began
  evs : List Ev
  overran : Bool
  stack : List (Int64 × Nat)       -- open groups of the script, innermost first: index, words recorded when it was opened
  ng : Nat                          -- groups opened so far (the next index)
  nw : Nat                          -- words recorded so far
deriving Inhabited

inductive StRes (α : Type) where
  | done (a : α) (s : StState)
  | fail (e : Err) (s : StState)    -- the groups still open have been left unfinished (`abort` tokens)

/-- an error ends the script: its open groups stay unfinished -/
def StState.abortAll (s : StState) : StState :=
  { s with toks := s.toks ++ s.stack.map (fun _ => Tok.abort), stack := [] }

def StScript.run {α : Type} : StScript α → StState → StRes α
  | .ret a, s => .done a s
  | .sub p k, s =>
    let o := p.run s.src s.ts
    let s' : StState := { s with src := o.src, ts := o.ts, toks := s.toks ++ o.toks, evs := s.evs ++ o.evs,
                                 overran := s.overran || o.overran, nw := s.nw + o.used.length }
    match o.res with
    | .ok v => (k v).run s'
    | .error e => .fail e s'.abortAll
  | .beginG l st k, s =>
    (k (Int64.ofNat s.ng)).run { s with toks := s.toks ++ [.opn l st], stack := (Int64.ofNat s.ng, s.nw) :: s.stack, ng := s.ng + 1 }
  | .endG i d k, s =>
    match s.stack with
    | [] => .fail (.panic "endGroup without an open group" 9002) s
    | (j, nw0) :: rest =>
      if i != j then .fail (.panic "group closed out of order" 9003) s.abortAll
      else if !d && s.nw == nw0 then .fail (.panic groupAssertMsg siteGroupAssert) s.abortAll
      else k.run { s with toks := s.toks ++ [.cls d], stack := rest }

end Rapid.Go
