/-
  Driver.Spec — parser and compiler of the Spec program language (shared with
  harness/spec.go) into the model's `Gen` / `Prog`.  Executable glue, no theorems.
-/
import RapidModel.Engine
import RapidModel.FloatThr
import RapidModel.Generated.Thresholds

namespace Rapid.Driver
open Rapid

inductive SX where
  | atom (s : String)
  | list (l : List SX)
deriving Inhabited, Repr

partial def parseSX (toks : List String) : Option (SX × List String) :=
  match toks with
  | [] => none
  | "(" :: rest =>
    let rec loop (acc : List SX) (ts : List String) : Option (SX × List String) :=
      match ts with
      | [] => none
      | ")" :: r => some (.list acc.reverse, r)
      | _ => match parseSX ts with
        | none => none
        | some (x, r) => loop (x :: acc) r
    loop [] rest
  | ")" :: _ => none
  | t :: rest => some (.atom t, rest)

def tokenize (s : String) : List String :=
  ((s.replace "(" " ( ").replace ")" " ) ").splitOn " " |>.filter (· ≠ "")

def SX.head : SX → String
  | .list (.atom h :: _) => h
  | _ => ""

def SX.args : SX → List SX
  | .list (_ :: as) => as
  | _ => []

def SX.toInt : SX → Int
  | .atom s => s.toInt?.getD 0
  | _ => 0

def SX.toNat (x : SX) : Nat := x.toInt.toNat

def SX.toU64 (x : SX) : UInt64 := UInt64.ofNat x.toNat

def SX.toI64 (x : SX) : Int64 := Int64.ofInt x.toInt

def SX.isTrue : SX → Bool
  | .atom "true" => true
  | _ => false

def valInt : Val → Int
  | .int i => i
  | .bool true => 1
  | _ => 0

/-- truncated remainder, like Go's `%` / big.Int.Rem -/
def applyFn (fn : SX) (v : Val) : Val :=
  match fn.head, fn.args with
  | "id", _ => v
  | "modf", [m] => .int ((valInt v).tmod m.toInt)
  | "half", _ => .int ((valInt v).tdiv 2)
  | "len", _ => .int v.length
  | "const", [k] => .int k.toInt
  | _, _ => v

partial def applyPred (p : SX) (v : Val) : Bool :=
  match p.head, p.args with
  | "or", [a, b] => applyPred a v || applyPred b v
  | "and", [a, b] => applyPred a v && applyPred b v
  | "not", [a] => !applyPred a v
  | "nth", [k, q] => match v.toList[k.toNat]? with | some x => applyPred q x | none => false
  | "last", [q] => match v.toList.getLast? with | some x => applyPred q x | none => false
  | "true", _ => true
  | "false", _ => false
  | "lt", [k] => valInt v < k.toInt
  | "ge", [k] => valInt v ≥ k.toInt
  | "eq", [k] => valInt v == k.toInt
  | "ne", [k] => valInt v != k.toInt
  | "mod", [m, r] => (valInt v).tmod m.toInt == r.toInt
  | "lenlt", [k] => v.length < k.toNat
  | "lenge", [k] => v.length ≥ k.toNat
  | "istrue", _ => v == .bool true
  | "nonnil", _ => v != .nil
  | _, _ => false

abbrev VEnv := List (String × Val)

def VEnv.get (env : VEnv) (x : String) : Val := ((env.find? (·.1 == x)).map (·.2)).getD .nil

/-- thresholds: the measured table (regenerated from the source on every run) and IEEE
    arithmetic for parameter-dependent ones; fuel far above any buffer the harness sends -/
def envOf (sa : Bool) : Env := ⟨Rapid.Generated.ft, floatRT 30, 100000, sa⟩
def theEnv : Env := envOf false

mutual
/-- every Spec generator is `asAny(<native>)` on the Go side: one extra standalone group -/
partial def compileGen (sa : Bool) (g : SX) : Gen :=
  .asAny (compileNative sa g)

partial def compileNative (sa : Bool) (g : SX) : Gen :=
  match g.head, g.args with
  | "bool", _ => .bool
  | "u", [lo, hi] => .map (.uint lo.toU64 hi.toU64) id    -- Go side: Map(Uint64Range, normalise)
  | "i", [lo, hi] => .int lo.toI64 hi.toI64
  | "sampled", [n] => .sampled n.toNat
  | "f64", [lo, hi] => .map (.float fmt64 lo.toU64 hi.toU64) id    -- Go side: Map(Float64Range, Float64bits)
  | "f32", [lo, hi] => .map (.float fmt32 lo.toU64 hi.toU64) id
  | "oneof", gs => .oneOf gs.length (fun i => compileGen sa (gs.getD i (.list [])))
  | "filter", [g, p] => .filter (compileGen sa g) (applyPred p)
  | "map", [g, f] => .map (compileGen sa g) (applyFn f)
  | "slice", [e, lo, hi] => .slice (compileGen sa e) lo.toInt hi.toInt
  | "distinct", [e, lo, hi, f] => .distinct (compileGen sa e) lo.toInt hi.toInt (applyFn f)
  | "mapof", [k, v, lo, hi] => .mapOf (compileGen sa k) (compileGen sa v) lo.toInt hi.toInt
  | "mapvals", [v, lo, hi, f] => .mapOfValues (compileGen sa v) lo.toInt hi.toInt (applyFn f)
  | "ptr", [e, b] => .ptr (compileGen sa e) b.isTrue
  | "perm", [n] => .perm n.toNat
  | "custom", body => .custom (compileStmts sa body [] (fun _ => .ret .nil))
  | "deferred", [g] => .deferred (compileGen sa g)
  | "runes", rs => .runeFrom (rs.map SX.toInt)
  | "string", [e, lo, hi, ml] => .stringOf (compileNative sa e) lo.toInt hi.toInt ml.toInt
  | _, _ => .bool

/-- statements in continuation-passing style; `k env` continues after the list.
    `(ret x)` ends the list with the value of `x`. -/
partial def compileStmts (sa : Bool) (ss : List SX) (env : VEnv) (k : VEnv → Prog) : Prog :=
  match ss with
  | [] => k env
  | s :: rest =>
    let next := fun env => compileStmts sa rest env k
    match s.head, s.args with
    | "draw", [.atom x, g] =>
        (compileGen sa g).draw (envOf sa) (fun v => next ((x, v) :: env))
    | "if", (c :: body) =>
        let holds := match c with
          | .list (op :: .atom x :: ks) => applyPred (.list (op :: ks)) (env.get x)
          | _ => false
        if holds then compileStmts sa body env (fun env' => next env') else next env
    | "fatal", [n] => Prog.fatal s!"f{n.toNat}" n.toNat
    | "failnow", [n] => Prog.fatal "(*T).FailNow() called" n.toNat
    | "error", [n] => .errorf s!"e{n.toNat}" (next env)
    | "goerror", [n] => .errorf s!"e{n.toNat}" (next env)
    | "fail", _ => .errorf "(*T).Fail() called" (next env)
    | "panic", [n] => .throw (.panic s!"p{n.toNat}" n.toNat)
    | "rtpanic", [n] => .throw (.panic "assignment to entry in nil map" n.toNat)
    | "skip", _ => Prog.skip "skip"
    | "emit", [n] => .emit n.toNat (next env)
    | "cleanup", body => .cleanup (compileCleanup body) (next env)
    | "ctx", _ => .ctx (next env)
    | "ctxlive", _ => .ctx (next env)      -- in the body the context of the invocation is always live
    | "repeat", parts =>
        let acts := parts.filter (·.head == "act")
        let chk := match parts.find? (·.head == "check") with
          | some c => compileStmts sa c.args env (fun _ => .ret .nil)
          | none => .ret .nil
        (smRepeat (envOf sa) acts.length
          (fun i => compileStmts sa ((acts.getD i (.list [])).args) env (fun _ => .ret .nil)) chk)
          >>- fun _ => next env
    | "ret", [.atom x] => .ret (env.get x)
    | _, _ => next env

partial def compileCleanup (ss : List SX) : CTree :=
  match ss with
  | [] => .done
  | s :: rest =>
    match s.head, s.args with
    | "emit", [n] => .emit n.toNat (compileCleanup rest)
    | "error", [n] => .errorf s!"e{n.toNat}" (compileCleanup rest)
    | "goerror", [n] => .errorf s!"e{n.toNat}" (compileCleanup rest)
    | "fail", _ => .errorf "(*T).Fail() called" (compileCleanup rest)
    | "fatal", [n] => CTree.fatal s!"f{n.toNat}" n.toNat
    | "failnow", [n] => CTree.fatal "(*T).FailNow() called" n.toNat
    | "panic", [n] => .throw (.panic s!"p{n.toNat}" n.toNat)
    | "rtpanic", [n] => .throw (.panic "assignment to entry in nil map" n.toNat)
    | "skip", _ => .throw (.invalid "skip")
    | "cleanup", body => .reg (compileCleanup body) (compileCleanup rest)
    | "ctx", _ => .ctx (compileCleanup rest)
    | _, _ => compileCleanup rest

end

def compileProg (p : SX) : Prog :=
  match p with
  | .list ss => compileStmts false ss [] (fun _ => .ret .nil)
  | _ => .ret .nil

/-! ### canonical text (same as harness/spec.go `showVal`) -/

partial def showVal (g : SX) (v : Val) : String :=
  match g.head, g.args with
  | "bool", _ => if v == .bool true then "true" else "false"
  | "u", _ | "i", _ | "sampled", _ | "f64", _ | "f32", _ => toString (valInt v)
  | "oneof", gs =>
      -- the branch is not recorded in the value: all branches of a Spec `oneof` have one kind
      showVal (gs.getD 0 (.list [])) v
  | "filter", [g, _] => showVal g v
  | "map", [g, f] => if f.head == "id" then showVal g v else toString (valInt v)
  | "slice", (e :: _) | "distinct", (e :: _) => "[" ++ " ".intercalate (v.toList.map (showVal e)) ++ "]"
  | "perm", _ => "[" ++ " ".intercalate (v.toList.map fun x => toString (valInt x)) ++ "]"
  | "string", _ => "[" ++ " ".intercalate (v.toList.map fun x => toString (valInt x)) ++ "]"
  | "runes", _ => toString (valInt v)
  | "mapof", (k :: e :: _) =>
      let parts := v.toList.map fun kv => match kv with
        | .cons a b => showVal k a ++ ":" ++ showVal e b
        | _ => "?"
      "{" ++ " ".intercalate (parts.toArray.qsort (· < ·)).toList ++ "}"
  | "mapvals", (e :: _) =>
      let parts := v.toList.map fun kv => match kv with
        | .cons a b => toString (valInt a) ++ ":" ++ showVal e b
        | _ => "?"
      "{" ++ " ".intercalate (parts.toArray.qsort (· < ·)).toList ++ "}"
  | "ptr", (e :: _) => match v with
      | .cons x _ => "&" ++ showVal e x
      | _ => "nil"
  | "custom", body =>
      -- (draw c g) … (ret c)
      match body with
      | (.list [.atom "draw", _, g]) :: _ => showVal g v
      | _ => "?"
  | "deferred", [g] => showVal g v
  | _, _ => "?"

end Rapid.Driver
