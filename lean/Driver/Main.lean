/-
  Driver.Main — line-protocol driver: one case per input line, one canonical observation per
  output line (same format as harness/corr*.go writes for the implementation).
-/
import Driver.Spec
import RapidModel.Minimize
import RapidModel.Persist
import RapidModel.Passes
import RapidModel.Float
import RapidModel.Generated.Translated
import RapidModel.SrcRec

namespace Rapid.Driver
open Rapid

def sdrop (s : String) (n : Nat) : String := String.ofList (s.toList.drop n)
def stripEnd (c : Char) (s : String) : String := String.ofList (s.toList.reverse.dropWhile (· == c)).reverse
def strim (s : String) : String :=
  String.ofList ((s.toList.dropWhile (· == ' ')).reverse.dropWhile (· == ' ')).reverse

def parseWords (s : String) : List UInt64 :=
  ((strim s).splitOn ",").filterMap fun t => if (strim t).isEmpty then none else some (UInt64.ofNat (strim t).toNat!)

def joinWords (ws : List UInt64) : String := ",".intercalate (ws.map fun w => toString w.toNat)

def b2s (b : Bool) : String := if b then "true" else "false"

def under (s : String) : String := (s.replace " " "_").replace "\n" "_"

def showErrPlain : Err → String
  | .invalid m => "invalid:" ++ under ("invalid data: " ++ m)
  | .stop m _ => "stop:" ++ under m
  | .panic m _ => "panic:" ++ under m
  | .fuel => "fuel"

/-- with the failure site, as the harness prints `VerifErr` -/
def showErrSite : Option Err → String
  | none => "none"
  | some (.invalid m) => "invalid:" ++ under ("invalid data: " ++ m)
  | some (.stop m s) => "stop:" ++ under m ++ ":@" ++ toString s
  | some (.panic m s) => "panic:" ++ under m ++ ":@" ++ toString s
  | some .fuel => "fuel"

structure Grp where
  b : Nat
  e : Int
  label : String
  standalone : Bool
  discard : Bool

/-- groups (in order of `beginGroup`) from the token stream -/
def groupsOfToks (toks : List Tok) : List Grp := Id.run do
  let mut groups : Array Grp := #[]
  let mut stack : List Nat := []
  let mut pos : Nat := 0
  for t in toks do
    match t with
    | .w _ => pos := pos + 1
    | .opn l s =>
      stack := groups.size :: stack
      groups := groups.push ⟨pos, -1, l, s, false⟩
    | .cls d =>
      match stack with
      | i :: rest =>
        stack := rest
        groups := groups.modify i fun g => { g with e := pos, discard := d }
      | [] => pure ()
    | .abort =>
      match stack with
      | _ :: rest => stack := rest
      | [] => pure ()
  return groups.toList

/-- canonical group label, as the harness prints it: fixed labels are kept, generator strings
    are not compared -/
def canonLabel (l : String) : String :=
  if ["coinflip", "bias", "intbits", "dieroll", "try", "action", "permute@repeat", "Repeat@repeat",
      "floatexp", "floatsignif"].contains l then l
  else if l.endsWith "@repeat" then "*@repeat"
  else "*"

def showGroups (toks : List Tok) : String :=
  let gs := groupsOfToks toks
  let labels := gs.map (·.label)
  ";".intercalate (gs.map fun g =>
    s!"{g.b},{g.e},{canonLabel g.label}#{labels.idxOf g.label},{b2s g.standalone},{b2s g.discard}")

def showRec (used : List UInt64) (toks : List Tok) : String :=
  s!"data={joinWords used} groups={showGroups toks}"

def restLen : Src → Nat
  | .buf ws => ws.length
  | .rng _ => 0

/-! ### the recording rebuilt and pruned by the *source's* own functions

  `record`, `beginGroup`, `endGroup` and `prune` of data.go as translated from /repo on every run
  (`Rapid.Translated.recordedBits_*`) replay the recording calls of a run (its tokens); the result must have
  the data and the finished groups the token-based model (`prunedOfToks`, which the theorems are about)
  computes.  An `abort` token (a group left open by a panic) has no call in the source. -/

def srcGI (g : Rapid.Translated.groupInfo) : GI := ⟨g.label, g.standalone, g.begin.toInt.toNat, g.end_.toInt, g.discard⟩

/-- "ok" when the source's recording functions and the source's `prune` agree with the model on these tokens -/
def srcPruneCheck (toks : List Tok) (kept : List UInt64) : String :=
  match srcRecGo toks [] [] [] with
  | none => "src-rec-error"
  | some (d, g) =>
    let lit := recOfToks toks
    if d != lit.data || g.map srcGI != lit.groups then "src-rec-diff"
    else
      match Rapid.Translated.recordedBits_prune d g true (2 * g.length + 4) with
      | .ok (d', g', _) =>
        if d' == kept && (g'.map srcGI).filter (fun x => x.end_ ≥ 0) == (prunedOfToks toks).finished.2 then "ok" else "src-prune-diff"
      | .error _ => if (prunedOfToks toks).noEmptyGroup then "src-prune-error" else "ok"

/-- Go's `prune` panics (assert) when asked to remove an unfinished discarded group; with
    unfinished groups around it still works on the finished ones.  The model's `kept` is
    compared whenever the implementation produced a pruned recording. -/
def showPruned (kept : List UInt64) : String := joinWords kept

def showEvs (evs : List Ev) : String :=
  let parts := evs.filterMap fun e => match e with
    | .user id => some s!"u{id}"
    | .ctx id live => some s!"ctx:{b2s live}:{b2s (id == 0)}"
    | _ => none
  if parts.isEmpty then "-" else ",".intercalate parts

def fuelFor (ws : List UInt64) : Nat := ws.length + 2

/-- rapid compares failures by the text of a traceback of at most 32 frames.  A panic raised by
    a cleanup callback while two or more other panics are in flight (the body's and earlier
    callbacks') has a traceback that is cut off; which of such failures rapid takes for "the same"
    depends on frame counts the model does not have.  The driver does not decide such cases. -/
def deepErr : Option Err → Bool
  | some e => e.site ≥ ctxStep * ctxStep
  | none => false

def deepMsg : String := "not-compared: traceback of a panic nested in two or more panics"

/-- can the program raise a panic from a cleanup at all -/
def mayNest (src : String) : Bool := (src.splitOn "(cleanup").length > 1

/-- run a primitive on a buffer and print like corrPrims -/
def runPrim (args : List String) (ws : List UInt64) : String :=
  let ft := Rapid.Generated.ft
  let fuel := fuelFor ws
  -- the result is carried out of the Prog in an event-free way: as a Val
  let tri (u : Int) (l r : Bool) : Prog := .ret (.cons (.int u) (.cons (.bool l) (.bool r)))
  let showTri (v : Val) : String := match v with
    | .cons (.int u) (.cons (.bool l) (.bool r)) => s!"{u},{b2s l},{b2s r}"
    | _ => "?"
  let (p, sh) : Prog × (Val → String) := match args with
    | ["coin", which] =>
      let thr := if which == "half" then ft.coinHalf else if which == "never" then thrNever else thrAlways
      (coin thr fun b => .ret (.bool b), fun v => b2s (v == .bool true))
    | ["noreject", m] => (uintNoReject (UInt64.ofNat m.toNat!) fun u => .ret (uv u), fun v => toString (valInt v))
    | ["unbiased", m] => (uintN ft (UInt64.ofNat m.toNat!) false fuel fun u l r => tri u.toNat l r, showTri)
    | ["biased", m] => (uintN ft (UInt64.ofNat m.toNat!) true fuel fun u l r => tri u.toNat l r, showTri)
    | ["urange", lo, hi, b] =>
      (uintRange ft (UInt64.ofNat lo.toNat!) (UInt64.ofNat hi.toNat!) (b == "true") fuel fun u l r => tri u.toNat l r, showTri)
    | ["irange", lo, hi] =>
      (intRange ft (Int64.ofInt lo.toInt!) (Int64.ofInt hi.toInt!) fuel fun i l r => tri i.toInt l r, showTri)
    | ["index", n, b] => (index ft n.toNat! (b == "true") fuel fun i => .ret (.int i), fun v => toString (valInt v))
    | ["die", wts] =>
      (dieRoll ft ((wts.splitOn ",").map String.toNat!) fuel fun i => .ret (.int i), fun v => toString (valInt v))
    | ["float", w, lo, hi] =>
      let f := if w == "32" then fmt32 else fmt64
      (floatRange ft f (UInt64.ofNat lo.toNat!) (UInt64.ofNat hi.toNat!) fuel fun sg e si sf =>
          .ret (.cons (.bool sg) (.cons (.int e) (.cons (uv si) (.cons (uv sf) (uv (f.fromParts sg e si sf)))))),
        fun v => match v with
          | .cons (.bool sg) (.cons (.int e) (.cons (.int si) (.cons (.int sf) (.int b)))) => s!"{b2s sg},{e},{si},{sf},{b}"
          | _ => "?")
    | _ => (.ret .nil, fun _ => "?")
  let o := p.run (.buf ws) TS.fresh
  let res := match o.res with
    | .ok v => "ok:" ++ sh v
    | .error e => "err:" ++ showErrPlain e
  s!"res={res} rest={restLen o.src} {showRec o.used o.toks}"

/-- the scripted repeat loop of corrRepeat -/
def runRepeat (lo hi : Int) (script : String) (ws : List UInt64) : String :=
  let sc := script.toList
  let rt := floatRT 30
  let c : RCfg := ⟨normMin lo, normMax hi, rt.rep (normMin lo) (normMax hi), "*"⟩
  -- acc = cons (int k) (int accepted)
  let step (acc : Val) : Prog :=
    match acc with
    | .cons (.int k) (.int a) =>
      .group "*" false (.draw 1 fun _ => .ret .nil) (fun _ => false) fun _ =>
        if sc.getD (k.toNat % sc.length) 'a' == 'r' then .ret rRej
        else .ret (rAcc (.cons (.int (k + 1)) (.int (a + 1))))
    | _ => .ret rRej
  -- a rejected element still advances the script position: keep k in the loop state by
  -- threading it through a wrapper accumulator that survives rejection
  let o := (repeatLoopK c sc (fuelFor ws) {} 0 0).run (.buf ws) TS.fresh
  let _ := step
  let res := match o.res with
    | .ok v => "ok:" ++ toString (valInt v)
    | .error e => "err:" ++ showErrPlain e
  s!"res={res} rest={restLen o.src} {showRec o.used o.toks} pruned={showPruned o.kept}"
where
  /-- `repeatLoop` specialised to the script (position `k` advances on rejection too) -/
  repeatLoopK (c : RCfg) (sc : List Char) : Nat → RSt → Nat → Nat → Prog
    | 0, _, _, _ => .throw .fuel
    | fuel+1, s, k, a =>
      .group (c.label ++ repeatSuffix) true
        (moreCoin c s fun cont =>
          if cont then
            .group "*" false (.draw 1 fun _ => .ret .nil) (fun _ => false) fun _ =>
              if sc.getD (k % sc.length) 'a' == 'r' then
                (if tooManyRejections c s then .throw (.invalid tooManyMsg) else .ret rRej)
              else .ret (rAcc .nil)
          else .ret rStop)
        (fun r => r == rRej)
        (fun r =>
          match r with
          | .nil => .ret (.int a)
          | .cons .nil _ => repeatLoopK c sc fuel { s with count := s.count + 1 } (k + 1) (a + 1)
          | _ =>
            let rejs := s.rejs + 1
            repeatLoopK c sc fuel { s with rejs := rejs, force := s.force || rejs > s.count * 2 } (k + 1) a)

def hexVal (c : Char) : Nat :=
  if c.isDigit then c.toNat - 48 else if 'a' ≤ c ∧ c ≤ 'f' then c.toNat - 87 else 0

def parseHex (s : String) : List UInt8 :=
  let cs := (stripEnd 'x' s).toList
  let rec go : List Char → List UInt8
    | a :: b :: rest => (hexVal a * 16 + hexVal b).toUInt8 :: go rest
    | _ => []
  go cs

def toHex (bs : List UInt8) : String :=
  let d (n : Nat) : Char := if n < 10 then Char.ofNat (48 + n) else Char.ofNat (87 + n)
  String.ofList (bs.flatMap fun b => [d (b.toNat / 16), d (b.toNat % 16)]) ++ "x"

def showLoad (bs : List UInt8) : String :=
  match loadBytes bs with
  | .ok (v, seed, buf) => s!"ok v={toHex v} seed={seed.toNat} buf={joinWords buf}"
  | .error .scan => "err:scan"
  | .error .noData => "err:noData"
  | .error .badHeader => "err:badHeader"
  | .error .badSeed => "err:badSeed"
  | .error .badWord => "err:badWord"

def reservedNames : List (List Nat) :=
  (["CON", "PRN", "AUX", "NUL",
    "COM0", "COM1", "COM2", "COM3", "COM4", "COM5", "COM6", "COM7", "COM8", "COM9", "COM¹", "COM²", "COM³",
    "LPT0", "LPT1", "LPT2", "LPT3", "LPT4", "LPT5", "LPT6", "LPT7", "LPT8", "LPT9", "LPT¹", "LPT²", "LPT³"]).map
    fun s => s.toList.map Char.toNat

def strRunes (s : String) : List Nat := s.toList.map Char.toNat

/-- split a protocol line at " | " -/
def fields (line : String) : List String := (line.splitOn "|").map strim

def spaceSplit (s : String) : List String := (s.splitOn " ").filter (· ≠ "")

def parseProg (s : String) : Prog :=
  match parseSX (tokenize s) with
  | some (sx, _) => compileProg sx
  | none => .ret .nil

def shrinkDecisions (p : Prog) : Shr → List (List UInt64) → String → String × Shr × Option (List UInt64 × Option Err)
  | s, [], acc => (acc, s, none)
  | s, c :: cs, acc =>
    match accept p s c with
    | .rejected => shrinkDecisions p s cs (acc ++ "R")
    | .accepted s' => shrinkDecisions p s' cs (acc ++ "A")
    | .mismatch d e => (acc ++ "M", s, some (d, e))

def showVerdict : Verdict → String
  | .pass v => s!"pass:{v}"
  | .onlyGenerated v t => s!"only:{v}:{t}"
  | .failed v e seed _ =>
    (if e.isStop then "failed:" else "panic:") ++ s!"{v}:{under e.msg}:seed={seed.toNat}"
  | .flaky seed _ => s!"flaky:seed={seed.toNat}"

def handle (line : String) : String :=
  let fs := fields line
  let cmd := spaceSplit (fs.getD 0 "")
  match cmd with
  | ["noop"] => "noop"
  | ["jsf", seed, n] => joinWords (Jsf.take n.toNat! (Jsf.init (UInt64.ofNat seed.toNat!)))
  | "cmp" :: _ =>
    let a := parseWords (sdrop (fs.getD 0 "") 3)
    let b := parseWords (fs.getD 1 "")
    toString (compareData a b)
  | "prim" :: args => runPrim args (parseWords (fs.getD 1 ""))
  | ["repeat", lo, hi, script] => runRepeat lo.toInt! hi.toInt! script (parseWords (fs.getD 1 ""))
  | "gen" :: _ | "genstr" :: _ =>
    let strAll := cmd.head? == some "genstr"
    let src := sdrop (fs.getD 0 "") (if strAll then 7 else 4)
    let ws := parseWords (fs.getD 1 "")
    match parseSX (tokenize src) with
    | none => "parse-error"
    | some (sx, _) =>
      let env : Env := { theEnv with fuel := fuelFor ws, strAll := strAll }
      let o := ((compileGen strAll sx).value env).run (.buf ws) TS.fresh
      let res := match o.res with
        | .ok v => "ok:" ++ showVal sx v
        | .error e => "err:" ++ showErrPlain e
      s!"res={res} rest={restLen o.src} {showRec o.used o.toks} pruned={showPruned o.kept}"
  | ["min", u, kind, a] | ["min", u, kind, a, _] =>
    let u := UInt64.ofNat u.toNat!
    let a64 := UInt64.ofNat a.toNat!
    let b64 := match cmd with | [_, _, _, _, b] => UInt64.ofNat b.toNat! | _ => 0
    let cond : UInt64 → Bool :=
      if kind == "ge" then fun x => x ≥ a64
      else if kind == "bits" then fun x => x &&& a64 == a64
      else fun x => x % a64 == b64
    let (best, probes) := minimize u cond
    s!"best={best.toNat} probes={joinWords probes}"
  | ["fuzzwords", h] => joinWords (wordsOfBytes (parseHex h))
  | ["save", v, out, seed] =>
    toHex (saveBytes (parseHex v) (parseHex out) (UInt64.ofNat seed.toNat!) (parseWords (fs.getD 1 "")))
  | ["load", h] => showLoad (parseHex h)
  | "safename" :: rest =>
    let name : List (Nat × Bool) := ((rest.getD 0 "").splitOn ",").filterMap fun t =>
      match t.splitOn ":" with
      | [r, f] => some (r.toNat!, f == "true")
      | _ => none
    let upper : List Nat := ((fs.getD 1 "").splitOn ",").filterMap fun t => (strim t).toNat?
    let runes := name.map (·.1)
    let isLD := fun r => (name.find? (·.1 == r)).map (·.2) |>.getD false
    let safe := safeName isLD (fun _ => reservedNames.contains upper) runes
    let pre := strRunes "testdata/rapid/" ++ safe ++ [47] ++ safe ++ [45]
    let file := pre ++ strRunes "20260101000000-1.fail"
    let ok := starMatch pre (strRunes ".fail") file
    s!"safe={",".intercalate (safe.map toString)} matches={b2s ok}"
  | "once" :: _ =>
    let p := parseProg (sdrop (fs.getD 0 "") 5)
    let ws := parseWords (fs.getD 1 "")
    let r := checkOnce p (.buf ws) TS.fresh
    -- the literal `prune()` (removeGroup by removeGroup) against the one computed on the fly
    let pc := match (recOfToks r.toks).prune with
      | some lit => if lit.finished == (prunedOfToks r.toks).finished && lit.data == r.kept then "ok" else "diff"
      | none => if (prunedOfToks r.toks).noEmptyGroup then "lit-none" else "ok"
    s!"err={showErrSite r.err} evs={showEvs r.evs} rest={restLen r.src} {showRec r.used r.toks} pruned={showPruned r.kept} prunecheck={pc} srcprune={srcPruneCheck r.toks r.kept}"
  | "findbug" :: _ =>
    let p := parseProg (sdrop (fs.getD 0 "") 8)
    match spaceSplit (fs.getD 1 "") with
    | [checks, seed] =>
      let fb := findBug p checks.toNat! (UInt64.ofNat seed.toNat!) (fun _ => false)
      s!"valid={fb.valid} invalid={fb.invalid} early={b2s fb.early} seed={fb.seed.toNat} err={showErrSite fb.err} invocations={fb.seeds.length}"
    | _ => "parse-error"
  | "checktb" :: _ =>
    let p := parseProg (sdrop (fs.getD 0 "") 8)
    match spaceSplit (fs.getD 1 "") with
    | [checks, seed] =>
      let checks := checks.toNat!
      let cands : List (List UInt64) := (spaceSplit (fs.getD 2 "")).map fun c => parseWords (stripEnd ';' c)
      let fb := findBug p checks (UInt64.ofNat seed.toNat!) (fun _ => false)
      if mayNest (fs.getD 0 "") && (deepErr fb.err || cands.any fun c => deepErr (checkOnce p (.buf c) TS.fresh).err) then deepMsg else
      match fb.err with
      | none =>
        let d : DC := ⟨fb.valid, fb.invalid, fb.early, 0, none, [], none, none, fb.seeds⟩
        s!"verdict={showVerdict (verdict checks d)} exited={if (verdict checks d).failsTB then "FailNow" else ""} rng={fb.seeds.length} decisions= final=-"
      | some _ =>
        let r := checkOnce p (.rng (Jsf.init fb.seed)) TS.fresh
        if !sameError fb.err r.err then
          let d : DC := ⟨fb.valid, fb.invalid, false, fb.seed, none, r.used, fb.err, r.err, fb.seeds⟩
          s!"verdict={showVerdict (verdict checks d)} exited=FailNow rng={fb.seeds.length + 1} decisions= final={joinWords r.used}"
        else
          let (dec, s, mm) := shrinkDecisions p ⟨r.kept, r.err⟩ cands ""
          let (buf, e3) := match mm with | some (d, e) => (d, e) | none => (s.data, s.err)
          let d : DC := ⟨fb.valid, fb.invalid, false, fb.seed, none, buf, r.err, e3, fb.seeds⟩
          s!"verdict={showVerdict (verdict checks d)} exited=FailNow rng={fb.seeds.length + 1} decisions={dec} final={joinWords buf}"
    | _ => "parse-error"
  | "checktbfull" :: _ =>
    let p := parseProg (sdrop (fs.getD 0 "") 12)
    match spaceSplit (fs.getD 1 "") with
    | [checks, seed] =>
      let checks := checks.toNat!
      let fb := findBug p checks (UInt64.ofNat seed.toNat!) (fun _ => false)
      match fb.err with
      | none =>
        let d : DC := ⟨fb.valid, fb.invalid, fb.early, 0, none, [], none, none, fb.seeds⟩
        s!"verdict={showVerdict (verdict checks d)} rng={fb.seeds.length} runs= final=-"
      | some _ =>
        let r := checkOnce p (.rng (Jsf.init fb.seed)) TS.fresh
        if !sameError fb.err r.err then
          let d : DC := ⟨fb.valid, fb.invalid, false, fb.seed, none, r.used, fb.err, r.err, fb.seeds⟩
          s!"verdict={showVerdict (verdict checks d)} rng={fb.seeds.length + 1} runs= final={joinWords r.used}"
        else
          let so := shrinkFull p r.toks r.err 100000
          if mayNest (fs.getD 0 "") && (deepErr r.err || so.log.any fun c => deepErr (checkOnce p (.buf c) TS.fresh).err) then deepMsg else
          match so.crashed with
          | some what => s!"crashed={under what} runs={" ".intercalate (so.log.map fun b => joinWords b ++ ";")}"
          | none =>
            let d : DC := ⟨fb.valid, fb.invalid, false, fb.seed, none, so.data, r.err, so.err, fb.seeds⟩
            s!"verdict={showVerdict (verdict checks d)} rng={fb.seeds.length + 1} runs={" ".intercalate (so.log.map fun b => joinWords b ++ ";")} final={joinWords so.data}"
    | _ => "parse-error"
  | "fuzz" :: _ =>
    let p := parseProg (sdrop (fs.getD 0 "") 5)
    match checkFuzz p (parseHex (fs.getD 1 "")) with
    | .pass => "pass"
    | .skip => "skip"
    | .fail e =>
      if e.isStop then "fail:" ++ under ("[rapid] failed: " ++ e.msg)
      else "fail:" ++ under ("[rapid] panic: " ++ e.msg)
  | _ => "unknown-command"

partial def loop (h : IO.FS.Stream) (out : IO.FS.Stream) : IO Unit := do
  let line ← h.getLine
  if line.isEmpty then return ()
  out.putStrLn (handle (stripEnd '\n' line))
  loop h out

end Rapid.Driver

def main : IO Unit := do
  let stdin ← IO.getStdin
  let stdout ← IO.getStdout
  Rapid.Driver.loop stdin stdout
