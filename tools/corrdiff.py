#!/usr/bin/env python3
"""usage: tools/corrdiff.py work/Cxx-tier  — show where impl.txt and model.txt differ (after canonicalisation)"""
import sys, importlib.machinery, importlib.util
d = sys.argv[1]
C = open(d + '/cases.txt').read().split('\n'); I = open(d + '/impl.txt').read().split('\n'); M = open(d + '/model.txt').read().split('\n')
loader = importlib.machinery.SourceFileLoader('chk', '/verif/check'); spec = importlib.util.spec_from_loader('chk', loader); chk = importlib.util.module_from_spec(spec)
sys.argv = ['check']
try:
    loader.exec_module(chk)
except SystemExit:
    pass
n = 0
for c, i, m in zip(C, I, M):
    a, b = chk.canon(i), chk.canon(m)
    if a != b:
        n += 1
        k = 0
        while k < min(len(a), len(b)) and a[k] == b[k]:
            k += 1
        print('CASE', c[:int(sys.argv[2]) if len(sys.argv) > 2 else 400]); print(' lens', len(a), len(b), 'diff at', k)
        print(' impl ', a[max(0, k - 150):k + 150]); print(' model', b[max(0, k - 150):k + 150])
print(n, 'differences in', len(C), 'cases')
