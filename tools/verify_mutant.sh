#!/bin/bash
# usage: tools/verify_mutant.sh <agent dir> <demo -run pattern>
# confirms in a fresh scratch worktree of /repo's HEAD: patch applies, existing suite green with it,
# demo fails with it and passes without it
set -u
src="$1"; pat="$2"
export GOFLAGS=-mod=mod GOPROXY=off GOSUMDB=off GOTOOLCHAIN=local
w=$(mktemp -d /tmp/verify-XXXX); rmdir "$w"
git -C /repo worktree add -q --detach "$w" HEAD || exit 2
trap 'git -C /repo worktree remove --force "$w"; git -C /repo worktree prune' EXIT
cd "$w"
git apply "$src/patch.diff" || { echo "RESULT patch-does-not-apply"; exit 1; }
go build ./... || { echo "RESULT does-not-build"; exit 1; }
s1=$(go test -vet=off -count=1 ./... 2>&1 | tail -1)
echo "suite with change: $s1"
cp "$src/mutdemo_test.go" .
d1=$(go test -vet=off -count=1 -run "$pat" . 2>&1 | tail -1)
echo "demo with change: $d1"
git apply -R "$src/patch.diff"
d2=$(go test -vet=off -count=1 -run "$pat" . 2>&1 | tail -1)
echo "demo without change: $d2"
case "$s1" in ok*) ;; *) echo "RESULT suite-fails"; exit 1;; esac
case "$d1" in ok*) echo "RESULT demo-does-not-fail"; exit 1;; esac
case "$d2" in ok*) echo "RESULT confirmed"; exit 0;; *) echo "RESULT demo-fails-without-change"; exit 1;; esac
