#!/bin/bash
# usage: tools/try_mutant.sh <patch.diff> <Cxx> [<Cxx>...]   — apply a seeded change to /repo, run the checks, undo it
set -u
patch="$1"; shift
cd /repo || exit 2
if ! git diff --quiet; then echo "/repo has uncommitted changes"; exit 2; fi
git apply "$patch" || { echo "patch does not apply"; exit 2; }
# evidence files written while a seeded change is applied must not replace the ones of the unchanged tree
evbak=$(mktemp -d)
cp -a /verif/evidence/. "$evbak"/ 2>/dev/null
# (the generated Lean files are rewritten from the unchanged tree again, so that a `lake build` right afterwards does not see the mutant)
trap 'git -C /repo checkout -- . ; cp -a "$evbak"/. /verif/evidence/ 2>/dev/null; rm -rf "$evbak"; [ -x /verif/extract/extract-bin ] && /verif/extract/extract-bin /repo /verif/lean/RapidModel/Generated >/dev/null 2>&1' EXIT
for p in "$@"; do
  (cd /verif && VERIF_SEED=${VERIF_SEED:-1} ./check "$p" --tier quick 2>&1 | grep -v "^      " | tail -6 | cut -c1-400)
  echo "== $p exit=${PIPESTATUS[0]}"
done
