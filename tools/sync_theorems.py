#!/usr/bin/env python3
"""regenerate the theorem lists of checkcfg.json from lean/RapidProps/Cxx.lean"""
import json, re, os
root = os.path.dirname(os.path.dirname(os.path.abspath(__file__)))
cfg = json.load(open(os.path.join(root, 'checkcfg.json')))
for p in cfg['properties']:
    src = open(os.path.join(root, 'lean', 'RapidProps', p + '.lean')).read()
    cfg['properties'][p]['theorems'] = ['Rapid.%s.%s' % (p, n) for n in re.findall(r'^theorem (\w+)', src, re.M)]
    print(p, len(cfg['properties'][p]['theorems']))
json.dump(cfg, open(os.path.join(root, 'checkcfg.json'), 'w'), indent=1)
