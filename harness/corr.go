package main

// correspondence cases: each case is one line of cases.txt (what the model driver reads) and
// one line of impl.txt (what the real code did, canonicalised)

import (
	"encoding/hex"
	"fmt"
	"math"
	"os"
	"path/filepath"
	"strconv"
	"strings"

	"pgregory.net/rapid"
)

type caseOut struct {
	cases []string
	impl  []string
	tags  map[string]int
}

func (c *caseOut) add(cmd, impl string) {
	c.cases = append(c.cases, cmd)
	c.impl = append(c.impl, impl)
}

func (c *caseOut) tag(t string) {
	if c.tags == nil {
		c.tags = map[string]int{}
	}
	c.tags[t]++
}

func classifyPanic(r any) string {
	typ := fmt.Sprintf("%T", r)
	msg := fmt.Sprint(r)
	if strings.HasPrefix(msg, "group did not use any data from bitstream") {
		msg = "group did not use any data from bitstream"
	}
	if strings.HasPrefix(msg, "invalid range [") {
		msg = "invalid range"
	}
	msg = strings.ReplaceAll(strings.ReplaceAll(msg, " ", "_"), "\n", "_")
	switch typ {
	case "rapid.invalidData":
		return "invalid:invalid_data:_" + msg
	case "rapid.stopTest":
		return "stop:" + msg
	}
	return "panic:" + msg
}

// run f, mapping a panic to its canonical text
func safely(f func() string) (out string) {
	defer func() {
		if r := recover(); r != nil {
			out = "err:" + classifyPanic(r)
		}
	}()
	return "ok:" + f()
}

func b2s(b bool) string { return strconv.FormatBool(b) }

// ---------------------------------------------------------------- jsf / cmp / fuzz words

func corrJsf(r *rng, c *caseOut, n int) {
	for i := 0; i < n; i++ {
		seed := r.word()
		k := 1 + r.intn(40)
		c.add(fmt.Sprintf("jsf %d %d", seed, k), joinU64(rapid.VerifJsf(seed, k)))
	}
}

func corrCmp(r *rng, c *caseOut, n int) {
	for i := 0; i < n; i++ {
		a := r.words(5)
		b := r.words(5)
		if r.chance(1, 3) {
			b = append([]uint64(nil), a...)
			if len(b) > 0 && r.chance(2, 3) {
				b[r.intn(len(b))] += uint64(r.intn(3)) - 1
			}
		}
		c.add(fmt.Sprintf("cmp %s | %s", joinU64(a), joinU64(b)), strconv.Itoa(rapid.VerifCompareData(a, b)))
	}
}

// ---------------------------------------------------------------- primitives

// bounds at the extremes of the types: always part of the prims correspondence
var primCorpus = []string{
	"irange -9223372036854775808 -9223372036854775808", "irange -9223372036854775808 -9223372036854775807",
	"irange 9223372036854775807 9223372036854775807", "irange -9223372036854775808 9223372036854775807",
	"irange -1 0", "irange 0 1", "irange -9223372036854775808 0", "irange 0 9223372036854775807",
	"urange 18446744073709551615 18446744073709551615 true", "urange 0 18446744073709551615 true",
	"urange 18446744073709551614 18446744073709551615 false", "urange 0 9223372036854775808 true",
	"biased 18446744073709551615", "biased 9223372036854775808", "biased 18446744073709551614",
}

func corrPrimCorpus(r *rng, c *caseOut) {
	for _, cmd := range primCorpus {
		for k := 0; k < 3; k++ {
			ws := r.words(12)
			if k == 0 {
				ws = []uint64{^uint64(0), ^uint64(0), ^uint64(0), ^uint64(0)}
			}
			s := rapid.VerifBufStream(ws, true)
			f := strings.Fields(cmd)
			res := safely(func() string {
				switch f[0] {
				case "irange":
					lo, _ := strconv.ParseInt(f[1], 10, 64)
					hi, _ := strconv.ParseInt(f[2], 10, 64)
					v, l, rr := rapid.VerifGenIntRange(s, lo, hi, true)
					return fmt.Sprintf("%d,%v,%v", v, l, rr)
				case "urange":
					lo, _ := strconv.ParseUint(f[1], 10, 64)
					hi, _ := strconv.ParseUint(f[2], 10, 64)
					u, l, rr := rapid.VerifGenUintRange(s, lo, hi, f[3] == "true")
					return fmt.Sprintf("%d,%v,%v", u, l, rr)
				default:
					max, _ := strconv.ParseUint(f[1], 10, 64)
					u, l, rr := rapid.VerifGenUintN(s, max, true)
					return fmt.Sprintf("%d,%v,%v", u, l, rr)
				}
			})
			c.tag("prim-corpus")
			c.add("prim "+cmd+" | "+joinU64(ws), fmt.Sprintf("res=%s rest=%d %s", res, len(s.Rest()), showRec(s.Rec())))
		}
	}
}

func corrPrims(r *rng, c *caseOut, n int) {
	corrPrimCorpus(r, c)
	for i := 0; i < n; i++ {
		ws := r.words(12)
		if r.chance(1, 10) {
			ws = nil
		}
		s := rapid.VerifBufStream(ws, true)
		var cmd, res string
		switch r.intn(12) {
		case 9, 10, 11:
			width, S, E := 64, uint(52), uint(11)
			if r.chance(1, 3) {
				width, S, E = 32, 23, 8
			}
			lo, hi := r.frange(S, E)
			cmd = fmt.Sprintf("float %d %d %d", width, lo, hi)
			res = safely(func() string {
				var fmin, fmax float64
				if width == 32 {
					fmin, fmax = float64(math.Float32frombits(uint32(lo))), float64(math.Float32frombits(uint32(hi)))
				} else {
					fmin, fmax = math.Float64frombits(lo), math.Float64frombits(hi)
				}
				sg, e, si, sf := rapid.VerifGenFloatRange(s, fmin, fmax, S)
				var b uint64
				if width == 32 {
					b = uint64(math.Float32bits(rapid.VerifFloat32FromParts(sg, e, si, sf)))
				} else {
					b = math.Float64bits(rapid.VerifFloat64FromParts(sg, e, si, sf))
				}
				if b == lo || b == hi {
					c.tag("float-edge")
				}
				if si == 0 && sf == 0 {
					c.tag("float-pow2")
				}
				return fmt.Sprintf("%v,%d,%d,%d,%d", sg, e, si, sf, b)
			})
			c.tag(fmt.Sprintf("float%d", width))
		case 0:
			which := []string{"half", "never", "always"}[r.intn(3)]
			p := map[string]float64{"half": 0.5, "never": 0, "always": 1}[which]
			cmd = "coin " + which
			res = safely(func() string { return b2s(rapid.VerifCoin(s, p)) })
			c.tag("coin")
		case 1:
			max := r.ubound()
			cmd = fmt.Sprintf("noreject %d", max)
			res = safely(func() string { return strconv.FormatUint(rapid.VerifGenUintNNoReject(s, max), 10) })
			c.tag("noreject")
		case 2:
			max := r.ubound()
			cmd = fmt.Sprintf("unbiased %d", max)
			res = safely(func() string {
				u, l, rr := rapid.VerifGenUintN(s, max, false)
				return fmt.Sprintf("%d,%v,%v", u, l, rr)
			})
			c.tag("unbiased")
		case 3, 4:
			max := r.ubound()
			cmd = fmt.Sprintf("biased %d", max)
			res = safely(func() string {
				u, l, rr := rapid.VerifGenUintN(s, max, true)
				if rr {
					c.tag("biased-roverflow")
				}
				if l {
					c.tag("biased-loverflow")
				}
				return fmt.Sprintf("%d,%v,%v", u, l, rr)
			})
			c.tag("biased")
		case 5:
			lo, hi := r.ubound(), r.ubound()
			if lo > hi && !r.chance(1, 20) {
				lo, hi = hi, lo
			}
			bias := r.chance(1, 2)
			cmd = fmt.Sprintf("urange %d %d %v", lo, hi, bias)
			res = safely(func() string {
				u, l, rr := rapid.VerifGenUintRange(s, lo, hi, bias)
				return fmt.Sprintf("%d,%v,%v", u, l, rr)
			})
			c.tag("urange")
		case 6:
			lo, hi := r.ibound(), r.ibound()
			if lo > hi && !r.chance(1, 20) {
				lo, hi = hi, lo
			}
			cmd = fmt.Sprintf("irange %d %d", lo, hi)
			res = safely(func() string {
				v, l, rr := rapid.VerifGenIntRange(s, lo, hi, true)
				return fmt.Sprintf("%d,%v,%v", v, l, rr)
			})
			c.tag("irange")
		case 7:
			nn := r.intn(40)
			if r.chance(1, 4) {
				nn = 1 << uint(r.intn(20))
			}
			bias := r.chance(1, 2)
			cmd = fmt.Sprintf("index %d %v", nn, bias)
			res = safely(func() string { return strconv.Itoa(rapid.VerifGenIndex(s, nn, bias)) })
			c.tag("index")
		case 8:
			k := 1 + r.intn(4)
			if r.chance(1, 5) {
				k = []int{255, 256, 257, 300, 700}[r.intn(5)] // more faces than a byte can number
			}
			wts := make([]int, k)
			parts := make([]string, k)
			for j := range wts {
				wts[j] = 1 + r.intn(5)
				parts[j] = strconv.Itoa(wts[j])
			}
			cmd = "die " + strings.Join(parts, ",")
			res = safely(func() string { return strconv.Itoa(rapid.VerifDie(s, wts)) })
			c.tag("die")
		}
		if strings.HasPrefix(res, "err:invalid") {
			c.tag("prim-invalid")
		}
		c.add("prim "+cmd+" | "+joinU64(ws), fmt.Sprintf("res=%s rest=%d %s", res, len(s.Rest()), showRec(s.Rec())))
	}
}

// repeat driven directly: script letters decide what the loop body does with each element
func corrRepeat(r *rng, c *caseOut, n int) {
	for i := 0; i < n; i++ {
		lo, hi := r.smallRange()
		ws := r.words(24)
		if r.chance(1, 2) { // coin words near the stop/continue boundary are rare at random: make them likely
			for j := range ws {
				if r.chance(1, 2) {
					ws[j] = uint64(1)<<53 - 1 - uint64(r.intn(1<<20))<<uint(r.intn(33))
				}
			}
		}
		script := make([]byte, 1+r.intn(12))
		for j := range script {
			script[j] = "aaarr"[r.intn(5)]
		}
		s := rapid.VerifBufStream(ws, true)
		res := safely(func() string {
			rep := rapid.VerifNewRepeat(lo, hi, -1, "x")
			k := 0
			acc := 0
			for rep.More(s) {
				i := s.BeginGroup("elem", false)
				s.DrawBits(1)
				s.EndGroup(i, false)
				if script[k%len(script)] == 'r' {
					rep.Reject()
					c.tag("repeat-reject")
				} else {
					acc++
				}
				k++
			}
			_, _, force := rep.State()
			if force {
				c.tag("repeat-forced-stop")
			}
			return strconv.Itoa(acc)
		})
		if strings.Contains(res, "too_many") {
			c.tag("repeat-too-many-rejections")
		}
		c.add(fmt.Sprintf("repeat %d %d %s | %s", lo, hi, script, joinU64(ws)),
			fmt.Sprintf("res=%s rest=%d %s pruned=%s", res, len(s.Rest()), showRec(s.Rec()), prunedData(s.Rec())))
	}
}

// pruned data of a recording; "-" if it has unfinished groups that prune cannot handle
func prunedData(rec rapid.VerifRec) (out string) {
	defer func() {
		if r := recover(); r != nil {
			out = "panic"
		}
	}()
	return joinU64(rapid.VerifPrune(rec).Data)
}

// ---------------------------------------------------------------- generators

func corrGens(r *rng, c *caseOut, n int, strAll bool) {
	for i := 0; i < n; i++ {
		r.customFatal = 0
		sx, _ := r.anyGen(1 + r.intn(3))
		ws := r.words(40)
		if r.chance(1, 3) { // PRNG-like stream: generators mostly succeed
			ws = rapid.VerifJsf(r.u64(), 60)
		}
		in := newInterp(L(), strAll)
		g := in.b.gen(sx)
		s := rapid.VerifBufStream(ws, true)
		t := rapid.VerifNewT(newRecTB("gen"), s, false)
		res := safely(func() string { return showVal(rapid.VerifValue(g, t)) })
		c.tag("gen-" + sx.Head())
		if strings.HasPrefix(res, "err:invalid") {
			c.tag("gen-invalid")
		}
		rec := s.Rec()
		for _, gr := range rec.Groups {
			if gr.Discard {
				c.tag("gen-discarded-group")
				break
			}
		}
		op := "gen"
		if strAll {
			op = "genstr" // String() was called on every generator: all groups carry their labels
		}
		c.add(fmt.Sprintf("%s %s | %s", op, sx, joinU64(ws)),
			fmt.Sprintf("res=%s rest=%d %s pruned=%s", res, len(s.Rest()), showRec(rec), prunedData(rec)))
	}
}

// ---------------------------------------------------------------- minimize

func corrMinimize(r *rng, c *caseOut, n int) {
	for i := 0; i < n; i++ {
		u := r.word()
		var cmd string
		var cond func(uint64) bool
		switch r.intn(3) {
		case 0:
			th := r.word()
			if th > u {
				th, u = u, th
			}
			cmd = fmt.Sprintf("ge %d", th)
			cond = func(x uint64) bool { return x >= th }
		case 1:
			m := r.word() & u
			cmd = fmt.Sprintf("bits %d", m)
			cond = func(x uint64) bool { return x&m == m }
		default:
			k := uint64(1 + r.intn(7))
			cmd = fmt.Sprintf("mod %d %d", k, u%k)
			rem := u % k
			cond = func(x uint64) bool { return x%k == rem }
		}
		var probes []uint64
		var best uint64
		diverged := runTB(func() {
			best = rapid.VerifMinimize(u, func(x uint64, label string) bool {
				probes = append(probes, x)
				if len(probes) > 100000 { // minimize asks a few thousand questions at most
					panic("minimize does not terminate")
				}
				return cond(x)
			})
		})
		if diverged != nil {
			c.add(fmt.Sprintf("min %d %s", u, cmd), fmt.Sprintf("diverged: %v after %d probes", diverged, len(probes)))
			continue
		}
		c.add(fmt.Sprintf("min %d %s", u, cmd), fmt.Sprintf("best=%d probes=%s", best, joinU64(probes)))
	}
}

// ---------------------------------------------------------------- fuzz words

type wordsProbe struct{ ws []uint64 }

func corrFuzzWords(r *rng, c *caseOut, n int) {
	for i := 0; i < n; i++ {
		l := r.intn(41)
		if r.chance(1, 10) {
			l = r.intn(200)
		}
		bs := make([]byte, l)
		for j := range bs {
			bs[j] = byte(r.u64())
			if r.chance(1, 4) {
				bs[j] = 0
			}
		}
		var got []uint64
		tb := newRecTB("fuzz")
		runTB(func() {
			rapid.VerifCheckFuzz(tb, func(t *rapid.T) {
				got, _ = rapid.VerifTWords(t)
			}, bs)
		})
		c.add("fuzzwords "+hex.EncodeToString(bs)+"x", joinU64(got))
	}
}

// ---------------------------------------------------------------- persistence

func randBytes(r *rng, n int) []byte {
	bs := make([]byte, n)
	alphabet := []byte("ab#\n\r \t0x_19\xc2\xa0\xe2\x80\x80\xff\x00-")
	for j := range bs {
		if r.chance(3, 4) {
			bs[j] = alphabet[r.intn(len(alphabet))]
		} else {
			bs[j] = byte(r.u64())
		}
	}
	return bs
}

func loadClass(err error) string {
	msg := err.Error()
	switch {
	case strings.HasPrefix(msg, "failed to open"):
		return "open"
	case strings.HasPrefix(msg, "no data"):
		return "noData"
	case strings.HasPrefix(msg, "invalid version/seed"):
		return "badHeader"
	case strings.HasPrefix(msg, "invalid seed"):
		return "badSeed"
	case strings.Contains(msg, "strconv.ParseUint"):
		return "badWord"
	case strings.HasPrefix(msg, "failed to load"):
		return "scan"
	}
	return "other:" + msg
}

func showLoad(path string) string {
	v, seed, buf, err := rapid.VerifLoad(path)
	if err != nil {
		return "err:" + loadClass(err)
	}
	return fmt.Sprintf("ok v=%sx seed=%d buf=%s", hex.EncodeToString([]byte(v)), seed, joinU64(buf))
}

func corrPersist(r *rng, c *caseOut, n int, dir string) {
	for i := 0; i < n; i++ {
		path := filepath.Join(dir, fmt.Sprintf("f%d.fail", i))
		switch r.intn(3) {
		case 0: // save: compare the bytes written, then load them back
			out := randBytes(r, r.intn(60))
			if r.chance(1, 10) {
				out = nil
			}
			seed := r.word()
			buf := r.words(6)
			if r.chance(1, 12) {
				// a long bitstream: the data lines of the file exceed any I/O buffer
				buf = make([]uint64, 300+r.intn(1500))
				for j := range buf {
					buf[j] = r.word()
				}
				c.tag("persist-save-long-bitstream")
			}
			version := "v0.4.8"
			if r.chance(1, 5) {
				version = "v9.9.9"
			}
			if err := rapid.VerifSave(path, version, out, seed, buf); err != nil {
				c.add("noop", "save-error:"+err.Error())
				continue
			}
			data, _ := os.ReadFile(path)
			c.add(fmt.Sprintf("save %sx %sx %d | %s", hex.EncodeToString([]byte(version)), hex.EncodeToString(out), seed, joinU64(buf)),
				hex.EncodeToString(data)+"x")
			c.add("load "+hex.EncodeToString(data)+"x", showLoad(path))
			c.tag("persist-save")
		case 1: // load garbage
			data := randBytes(r, r.intn(50))
			_ = os.WriteFile(path, data, 0o644)
			res := showLoad(path)
			c.add("load "+hex.EncodeToString(data)+"x", res)
			c.tag("persist-load-" + strings.SplitN(res, " ", 2)[0])
		default: // load a mutated valid file
			var sb strings.Builder
			sb.WriteString("# comment\n")
			sb.WriteString("v0.4.8#" + strconv.FormatUint(r.word(), 10))
			for _, w := range r.words(4) {
				switch r.intn(6) {
				case 0:
					sb.WriteString("\n" + strconv.FormatUint(w, 10))
				case 1:
					sb.WriteString("\n0b" + strconv.FormatUint(w, 2))
				case 2:
					sb.WriteString("\n0X" + strings.ToUpper(strconv.FormatUint(w, 16)))
				case 3:
					sb.WriteString("\n0x1_" + strconv.FormatUint(w&0xffff, 16))
				case 4:
					sb.WriteString("\n0" + strconv.FormatUint(w, 8))
				default:
					sb.WriteString("\n0x" + strconv.FormatUint(w, 16))
				}
			}
			data := []byte(sb.String())
			for k := r.intn(3); k > 0 && len(data) > 0; k-- {
				p := r.intn(len(data))
				switch r.intn(3) {
				case 0:
					data[p] = randBytes(r, 1)[0]
				case 1:
					data = append(data[:p], data[p+1:]...)
				default:
					data = append(data[:p], append(randBytes(r, 1), data[p:]...)...)
				}
			}
			if r.chance(1, 4) {
				data = data[:r.intn(len(data)+1)]
			}
			_ = os.WriteFile(path, data, 0o644)
			res := showLoad(path)
			c.add("load "+hex.EncodeToString(data)+"x", res)
			c.tag("persist-mutated-" + strings.SplitN(res, " ", 2)[0])
		}
		_ = os.Remove(path)
	}
}
