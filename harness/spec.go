package main

// Spec: the small program language shared by the Lean model (Driver/Spec.lean compiles it to
// `Prog`) and this interpreter (which runs it against the real rapid API).

import (
	"fmt"
	"math"
	"math/big"
	"sort"
	"strconv"
	"strings"

	"pgregory.net/rapid"
)

type SX struct {
	Atom string
	List []*SX
}

func A(s string) *SX       { return &SX{Atom: s} }
func L(xs ...*SX) *SX      { return &SX{List: xs} }
func N(i int64) *SX        { return A(strconv.FormatInt(i, 10)) }
func U(u uint64) *SX       { return A(strconv.FormatUint(u, 10)) }
func (s *SX) IsAtom() bool { return s.List == nil && s.Atom != "" }
func (s *SX) Head() string {
	if len(s.List) > 0 && s.List[0].IsAtom() {
		return s.List[0].Atom
	}
	return ""
}

func (s *SX) String() string {
	if s.List == nil && s.Atom != "" {
		return s.Atom
	}
	parts := make([]string, len(s.List))
	for i, x := range s.List {
		parts[i] = x.String()
	}
	return "(" + strings.Join(parts, " ") + ")"
}

func parseSX(src string) (*SX, error) {
	toks := strings.Fields(strings.NewReplacer("(", " ( ", ")", " ) ").Replace(src))
	pos := 0
	var parse func() (*SX, error)
	parse = func() (*SX, error) {
		if pos >= len(toks) {
			return nil, fmt.Errorf("unexpected end")
		}
		t := toks[pos]
		pos++
		if t == "(" {
			l := &SX{List: []*SX{}}
			for {
				if pos >= len(toks) {
					return nil, fmt.Errorf("missing )")
				}
				if toks[pos] == ")" {
					pos++
					return l, nil
				}
				x, err := parse()
				if err != nil {
					return nil, err
				}
				l.List = append(l.List, x)
			}
		}
		if t == ")" {
			return nil, fmt.Errorf("unexpected )")
		}
		return A(t), nil
	}
	x, err := parse()
	if err != nil {
		return nil, err
	}
	if pos != len(toks) {
		return nil, fmt.Errorf("trailing tokens")
	}
	return x, nil
}

func atoi(s *SX) int {
	n, err := strconv.Atoi(s.Atom)
	if err != nil {
		panic("spec: bad int " + s.String())
	}
	return n
}

func atoBig(s *SX) *big.Int {
	n, ok := new(big.Int).SetString(s.Atom, 10)
	if !ok {
		panic("spec: bad number " + s.String())
	}
	return n
}

// ---------------------------------------------------------------- values

func toBig(v any) *big.Int {
	switch x := v.(type) {
	case int64:
		return big.NewInt(x)
	case uint64:
		return new(big.Int).SetUint64(x)
	case int:
		return big.NewInt(int64(x))
	case int32:
		return big.NewInt(int64(x))
	case bool:
		if x {
			return big.NewInt(1)
		}
		return big.NewInt(0)
	}
	return big.NewInt(0)
}

func fromBig(b *big.Int) any {
	if b.IsInt64() {
		return b.Int64()
	}
	if b.IsUint64() {
		return b.Uint64()
	}
	panic("spec: integer out of range")
}

func valLen(v any) int {
	switch x := v.(type) {
	case []any:
		return len(x)
	case map[any]any:
		return len(x)
	case string:
		return len([]rune(x))
	}
	return 0
}

// canonical text of a value (the model prints the same)
func showVal(v any) string {
	switch x := v.(type) {
	case nil:
		return "nil"
	case bool:
		return strconv.FormatBool(x)
	case int64, uint64, int, int32:
		return toBig(x).String()
	case []any:
		parts := make([]string, len(x))
		for i, e := range x {
			parts[i] = showVal(e)
		}
		return "[" + strings.Join(parts, " ") + "]"
	case string:
		rs := []rune(x)
		parts := make([]string, len(rs))
		for i, r := range rs {
			parts[i] = strconv.Itoa(int(r))
		}
		return "[" + strings.Join(parts, " ") + "]"
	case map[any]any:
		parts := make([]string, 0, len(x))
		for k, e := range x {
			parts = append(parts, showVal(k)+":"+showVal(e))
		}
		sort.Strings(parts)
		return "{" + strings.Join(parts, " ") + "}"
	case *any:
		if x == nil {
			return "nil"
		}
		return "&" + showVal(*x)
	}
	return fmt.Sprintf("?%T", v)
}

// ---------------------------------------------------------------- functions and predicates

func applyFn(fn *SX, v any) any {
	switch fn.Head() {
	case "id":
		switch v.(type) {
		case int64, uint64, int, int32:
			return fromBig(toBig(v))
		}
		return v
	case "modf":
		return fromBig(new(big.Int).Rem(toBig(v), atoBig(fn.List[1])))
	case "half":
		return fromBig(new(big.Int).Quo(toBig(v), big.NewInt(2)))
	case "len":
		return int64(valLen(v))
	case "const":
		return fromBig(atoBig(fn.List[1]))
	}
	panic("spec: bad fn " + fn.String())
}

func applyPred(p *SX, v any) bool {
	switch p.Head() {
	case "true":
		return true
	case "false":
		return false
	case "lt":
		return toBig(v).Cmp(atoBig(p.List[1])) < 0
	case "ge":
		return toBig(v).Cmp(atoBig(p.List[1])) >= 0
	case "eq":
		return toBig(v).Cmp(atoBig(p.List[1])) == 0
	case "ne":
		return toBig(v).Cmp(atoBig(p.List[1])) != 0
	case "mod":
		return new(big.Int).Rem(toBig(v), atoBig(p.List[1])).Cmp(atoBig(p.List[2])) == 0
	case "lenlt":
		return valLen(v) < atoi(p.List[1])
	case "lenge":
		return valLen(v) >= atoi(p.List[1])
	case "istrue":
		b, _ := v.(bool)
		return b
	case "nonnil":
		p, ok := v.(*any)
		return ok && p != nil
	case "or":
		return applyPred(p.List[1], v) || applyPred(p.List[2], v)
	case "and":
		return applyPred(p.List[1], v) && applyPred(p.List[2], v)
	case "not":
		return !applyPred(p.List[1], v)
	case "nth", "last": // element of a slice; false when there is no such element
		xs, ok := v.([]any)
		k := len(xs) - 1
		q := p.List[1]
		if p.Head() == "nth" {
			k = atoi(p.List[1])
			q = p.List[2]
		}
		if !ok || k < 0 || k >= len(xs) {
			return false
		}
		return applyPred(q, xs[k])
	}
	panic("spec: bad pred " + p.String())
}

// ---------------------------------------------------------------- generators

type builder struct {
	in     *interp // for custom bodies
	strAll bool    // call String() on every generator built (labels cached)
}

func asAny[V any](g *rapid.Generator[V]) *rapid.Generator[any] { return g.AsAny() }

func (b *builder) gen(g *SX) *rapid.Generator[any] {
	r := b.gen1(g)
	if b.strAll {
		_ = r.String()
	}
	return r
}

func (b *builder) gen1(g *SX) *rapid.Generator[any] {
	switch g.Head() {
	case "bool":
		return asAny(rapid.Bool())
	case "u":
		lo, _ := strconv.ParseUint(g.List[1].Atom, 10, 64)
		hi, _ := strconv.ParseUint(g.List[2].Atom, 10, 64)
		return asAny(rapid.Map(rapid.Uint64Range(lo, hi), func(u uint64) any { return fromBig(toBig(u)) }))
	case "i":
		lo, _ := strconv.ParseInt(g.List[1].Atom, 10, 64)
		hi, _ := strconv.ParseInt(g.List[2].Atom, 10, 64)
		return asAny(rapid.Int64Range(lo, hi))
	case "f64":
		// bounds and value are IEEE-754 bit patterns
		lo, _ := strconv.ParseUint(g.List[1].Atom, 10, 64)
		hi, _ := strconv.ParseUint(g.List[2].Atom, 10, 64)
		return asAny(rapid.Map(rapid.Float64Range(math.Float64frombits(lo), math.Float64frombits(hi)),
			func(f float64) any { return fromBig(toBig(math.Float64bits(f))) }))
	case "f32":
		lo, _ := strconv.ParseUint(g.List[1].Atom, 10, 32)
		hi, _ := strconv.ParseUint(g.List[2].Atom, 10, 32)
		return asAny(rapid.Map(rapid.Float32Range(math.Float32frombits(uint32(lo)), math.Float32frombits(uint32(hi))),
			func(f float32) any { return int64(math.Float32bits(f)) }))
	case "sampled":
		n := atoi(g.List[1])
		sl := make([]int64, n)
		for i := range sl {
			sl[i] = int64(i)
		}
		return asAny(rapid.SampledFrom(sl))
	case "oneof":
		var gs []*rapid.Generator[any]
		for _, x := range g.List[1:] {
			gs = append(gs, b.gen(x))
		}
		return asAny(rapid.OneOf(gs...))
	case "filter":
		p := g.List[2]
		return asAny(b.gen(g.List[1]).Filter(func(v any) bool { return applyPred(p, v) }))
	case "map":
		fn := g.List[2]
		return asAny(rapid.Map(b.gen(g.List[1]), func(v any) any { return applyFn(fn, v) }))
	case "slice":
		return asAny(rapid.SliceOfN(b.gen(g.List[1]), atoi(g.List[2]), atoi(g.List[3])))
	case "distinct":
		fn := g.List[4]
		return asAny(rapid.SliceOfNDistinct(b.gen(g.List[1]), atoi(g.List[2]), atoi(g.List[3]), func(v any) any { return applyFn(fn, v) }))
	case "mapof":
		return asAny(rapid.MapOfN(b.gen(g.List[1]), b.gen(g.List[2]), atoi(g.List[3]), atoi(g.List[4])))
	case "mapvals":
		fn := g.List[4]
		return asAny(rapid.MapOfNValues(b.gen(g.List[1]), atoi(g.List[2]), atoi(g.List[3]), func(v any) any { return applyFn(fn, v) }))
	case "ptr":
		return asAny(rapid.Ptr(b.gen(g.List[1]), g.List[2].Atom == "true"))
	case "perm":
		n := atoi(g.List[1])
		sl := make([]any, n)
		for i := range sl {
			sl[i] = int64(i)
		}
		return asAny(rapid.Permutation(sl))
	case "custom":
		body := g.List[1:]
		in := b.in
		return asAny(rapid.Custom(func(t *rapid.T) any {
			env := map[string]any{}
			in.customDepth++
			defer func() { in.customDepth-- }()
			return in.stmts(t, env, body)
		}))
	case "deferred":
		inner := g.List[1]
		return asAny(rapid.Deferred(func() *rapid.Generator[any] { return b.gen(inner) }))
	case "runes":
		var rs []rune
		for _, x := range g.List[1:] {
			rs = append(rs, rune(atoi(x)))
		}
		return asAny(rapid.RuneFrom(rs))
	case "string":
		// element generator must be a (runes ...) form: used natively, without a wrapper
		var rs []rune
		for _, x := range g.List[1].List[1:] {
			rs = append(rs, rune(atoi(x)))
		}
		elem := rapid.RuneFrom(rs)
		if b.strAll {
			_ = elem.String()
		}
		return asAny(rapid.StringOfN(elem, atoi(g.List[2]), atoi(g.List[3]), atoi(g.List[4])))
	}
	panic("spec: bad gen " + g.String())
}
