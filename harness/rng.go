package main

import "math/bits"

// splitmix64: every random choice of the harness derives from one state (VERIF_SEED)
type rng struct {
	s uint64
	// failure sites used inside Custom bodies of the program being generated (each at most once: the
	// traceback of a site depends on how deep the generator is nested, the model's site number does not)
	customFatal int
}

func newRng(seed uint64) *rng { return &rng{s: seed*0x9E3779B97F4A7C15 + 0x1234567} }

func (r *rng) u64() uint64 {
	r.s += 0x9E3779B97F4A7C15
	z := r.s
	z = (z ^ (z >> 30)) * 0xBF58476D1CE4E5B9
	z = (z ^ (z >> 27)) * 0x94D049BB133111EB
	return z ^ (z >> 31)
}

func (r *rng) intn(n int) int {
	if n <= 0 {
		return 0
	}
	return int(r.u64() % uint64(n))
}

func (r *rng) chance(num, den int) bool { return r.intn(den) < num }

func (r *rng) pick(xs ...int64) int64 { return xs[r.intn(len(xs))] }

// adversarial 64-bit word: extremes, powers of two ± 1, small, random of random length
func (r *rng) word() uint64 {
	switch r.intn(10) {
	case 0:
		return 0
	case 1:
		return ^uint64(0)
	case 2:
		return uint64(1) << uint(r.intn(64))
	case 3:
		return uint64(1)<<uint(r.intn(64)) - 1
	case 4:
		return uint64(r.intn(8))
	case 5:
		return uint64(1)<<53 - 1 - uint64(r.intn(3))
	case 6:
		return r.u64() >> uint(r.intn(64))
	default:
		return r.u64()
	}
}

func (r *rng) words(maxLen int) []uint64 {
	n := r.intn(maxLen + 1)
	ws := make([]uint64, n)
	for i := range ws {
		ws[i] = r.word()
	}
	return ws
}

// interesting uint64 bound
func (r *rng) ubound() uint64 {
	switch r.intn(8) {
	case 0:
		return 0
	case 1:
		return ^uint64(0) - uint64(r.intn(3))
	case 2:
		return uint64(1) << uint(r.intn(64))
	case 3:
		return uint64(1)<<uint(1+r.intn(63)) - 1
	case 4:
		return uint64(r.intn(20))
	case 5:
		return uint64(1)<<63 + uint64(r.intn(3)) - 1
	default:
		return r.u64() >> uint(r.intn(64))
	}
}

func (r *rng) ibound() int64 {
	switch r.intn(8) {
	case 0:
		return 0
	case 1:
		return -1 << 63
	case 2:
		return 1<<63 - 1
	case 3:
		return int64(r.intn(20)) - 10
	case 4:
		return -1<<63 + int64(r.intn(3))
	case 5:
		return 1<<63 - 1 - int64(r.intn(3))
	default:
		v := int64(r.u64() >> uint(1+r.intn(63)))
		if r.chance(1, 2) {
			v = -v
		}
		return v
	}
}

var _ = bits.Len64

// adversarial non-NaN float bit pattern of a format with S significand and E exponent bits
func (r *rng) fbits(S, E uint) uint64 {
	sign := uint64(r.intn(2)) << (S + E)
	expMax := uint64(1)<<E - 1
	bias := uint64(1)<<(E-1) - 1
	var exp, sig uint64
	switch r.intn(10) {
	case 0:
		return sign // ±0
	case 1:
		return sign | expMax<<S // ±Inf
	case 2:
		exp, sig = 0, uint64(1+r.intn(3)) // smallest subnormals
	case 3:
		exp, sig = 0, uint64(1)<<S-1-uint64(r.intn(3)) // largest subnormals
	case 4:
		exp, sig = expMax-1, uint64(1)<<S-1-uint64(r.intn(3)) // MaxFloat and neighbours
	case 5:
		exp, sig = bias+uint64(r.intn(int(S)+4))-1, 0 // powers of two around the integer range
	case 6:
		exp = bias + uint64(r.intn(int(S)+4)) - 1
		sig = r.u64() & (uint64(1)<<S - 1)
	case 7:
		exp = uint64(r.intn(int(expMax)))
		sig = uint64(1) << uint(r.intn(int(S)))
	default:
		exp = uint64(r.intn(int(expMax)))
		sig = r.u64() & (uint64(1)<<S - 1)
	}
	return sign | exp<<S | sig
}

// an ordered pair of float bit patterns (min <= max as numbers), often close to each other
func (r *rng) frange(S, E uint) (uint64, uint64) {
	a := r.fbits(S, E)
	b := r.fbits(S, E)
	mag := uint64(1)<<(S+E) - 1
	switch r.intn(8) {
	case 6, 7:
		// a bound with an integer part and a fraction (10.5, 1000.25, …) and the other bound one to three binades
		// further out: draws land in the binade of the nearer bound with a larger integer part
		bias := uint64(1)<<(E-1) - 1
		e := bias + 1 + uint64(r.intn(9))
		sign := uint64(r.intn(2)) << (S + E)
		a = sign | e<<S | r.u64()&(uint64(1)<<S-1)
		if r.chance(1, 2) {
			a = a&^(uint64(1)<<(S-(uint(e-bias)+1))-1) | uint64(1)<<(S-(uint(e-bias)+1)) // fraction exactly .5
		}
		b = sign | (e+1+uint64(r.intn(3)))<<S | r.u64()&(uint64(1)<<S-1)
	case 0:
		b = a
	case 1:
		// a few ulps apart, same sign
		if a&mag+4 < (uint64(1)<<E-1)<<S {
			b = a + uint64(1+r.intn(4))
		}
	case 2:
		// same exponent
		if a&mag < (uint64(1)<<E-1)<<S {
			b = a&^(uint64(1)<<S-1) | r.u64()&(uint64(1)<<S-1)
		}
	}
	key := func(x uint64) (bool, uint64) { return x>>(S+E)&1 == 1, x & mag }
	less := func(x, y uint64) bool { // x < y as numbers (-0 == +0)
		nx, mx := key(x)
		ny, my := key(y)
		if mx == 0 && my == 0 {
			return false
		}
		if nx != ny {
			return nx
		}
		if nx {
			return mx > my
		}
		return mx < my
	}
	if less(b, a) {
		a, b = b, a
	}
	return a, b
}
