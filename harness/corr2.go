package main

// correspondence for the test-case runner and the engine

import (
	"encoding/hex"
	"fmt"
	"os"
	"regexp"
	"strings"
	"time"
	"unicode"

	"pgregory.net/rapid"
)

func showInvEvents(inv *invocation) string {
	var evs []string
	if inv != nil {
		for _, e := range inv.events {
			if !strings.HasPrefix(e, "F:") {
				evs = append(evs, e)
			}
		}
	}
	if len(evs) == 0 {
		return "-"
	}
	return strings.Join(evs, ",")
}

func withFlags(f rapid.VerifFlags, body func()) {
	old := rapid.VerifGetFlags()
	rapid.VerifSetFlags(f)
	defer rapid.VerifSetFlags(old)
	body()
}

func baseFlags() rapid.VerifFlags {
	return rapid.VerifFlags{Checks: 100, Steps: 30, Nofailfile: true, ShrinkTime: 30 * time.Second}
}

func (r *rng) progWords(prog *SX) []uint64 {
	switch r.intn(3) {
	case 0:
		return r.words(60)
	case 1:
		return rapid.VerifJsf(r.u64(), 20+r.intn(200))
	default:
		ws := rapid.VerifJsf(r.u64(), 20+r.intn(100))
		for k := r.intn(4); k > 0; k-- {
			ws[r.intn(len(ws))] = r.word()
		}
		return ws
	}
}

// checkOnce on a buffer: error, events, draws, recording
func corrOnce(r *rng, c *caseOut, n int) {
	withFlags(baseFlags(), func() {
		for i := 0; i < n; i++ {
			prog := r.program(6)
			ws := r.progWords(prog)
			in := newInterp(prog, false)
			s := rapid.VerifBufStream(ws, true)
			tb := newRecTB("once")
			t := rapid.VerifNewT(tb, s, false)
			var e rapid.VerifErr
			p := runTB(func() { e = rapid.VerifCheckOnce(t, in.prop) })
			if p != nil {
				c.add(fmt.Sprintf("once %s | %s", prog, joinU64(ws)), "escaped-panic:"+fmt.Sprint(p))
				continue
			}
			var inv *invocation
			if len(in.invs) > 0 {
				inv = in.invs[0]
			}
			c.tag("once-" + e.Kind())
			rec := s.Rec()
			c.add(fmt.Sprintf("once %s | %s", prog, joinU64(ws)),
				fmt.Sprintf("err=%s evs=%s rest=%d %s pruned=%s prunecheck=ok srcprune=ok", showErr(e), showInvEvents(inv), len(s.Rest()), showRec(rec), prunedData(rec)))
		}
	})
}

var reSeed = regexp.MustCompile(`-rapid\.seed=(\d+)`)

// canonical verdict of a checkTB run, from what the TB saw
func tbVerdict(tb *recTB) string {
	if len(tb.errors) == 0 {
		for _, l := range tb.logs {
			if strings.HasPrefix(l, "[rapid] OK, passed ") {
				return "pass:" + strings.Fields(l)[3]
			}
		}
		return "nothing"
	}
	e := tb.errors[0]
	seed := "0"
	if m := reSeed.FindStringSubmatch(e); m != nil {
		seed = m[1]
	}
	first := strings.SplitN(e, "\n", 2)[0]
	switch {
	case strings.HasPrefix(e, "[rapid] failed after "):
		f := strings.Fields(first)
		return "failed:" + f[3] + ":" + strings.ReplaceAll(strings.SplitN(first, "tests: ", 2)[1], " ", "_") + ":seed=" + seed
	case strings.HasPrefix(e, "[rapid] panic after "):
		f := strings.Fields(first)
		return "panic:" + f[3] + ":" + strings.ReplaceAll(strings.SplitN(first, "tests: ", 2)[1], " ", "_") + ":seed=" + seed
	case strings.HasPrefix(e, "[rapid] flaky test"):
		return "flaky:seed=" + seed
	case strings.HasPrefix(e, "[rapid] only generated "):
		f := strings.Fields(first)
		return "only:" + f[3] + ":" + f[7]
	}
	return "other:" + strings.ReplaceAll(first, " ", "_")
}

// engine: findBug counters; full checkTB with the shrinker's candidate transcript
// programs whose minimization makes the recording collapse: a candidate is accepted because a
// rejected Filter attempt is followed by a retry that consumes the tail of the data.  The
// shrinker's passes must not keep using positions of the longer recording (defect D9).
var collapseCorpus = []string{
	// collapse while minimizing a block (minimizeBlocks)
	"((draw p (filter (slice (u 0 18446744073709551615) 1 20) (last (or (lt 5) (ge 1000))))) (if (lenge p 6) (draw q (slice (u 0 18446744073709551615) 1 3))) (if (and p (last (ge 5)) (or (lenge 6) (and (lenlt 2) (nth 0 (ge 1000))))) (fatal 1)))",
	// collapse while swapping two groups (sortGroups)
	"((draw p (filter (slice (u 0 18446744073709551615) 1 20) (or (lenlt 6) (nth 4 (ge 1000))))) (if (lenge p 6) (draw q (slice (u 0 18446744073709551615) 1 3))) (if (or p (lenge 6) (and (lenlt 2) (nth 0 (eq 1000)))) (fatal 1)))",
}

const collapseSeeds = 6

// upper bound on the words of one shrink transcript (about 4 MB of text per case line)
const maxTranscriptWords = 200000

func corrEngine(r *rng, c *caseOut, n int, tmp string) {
	for i := 0; i < n+len(collapseCorpus)*collapseSeeds; i++ {
		var prog *SX
		checks := int(r.pick(1, 2, 5, 20, 100))
		seed := r.u64() | 1
		if i < len(collapseCorpus)*collapseSeeds {
			prog = mustSX(collapseCorpus[i%len(collapseCorpus)])
			checks = 100
			c.tag("checktb-collapse-corpus")
		} else {
			prog = r.engineProgram()
		}
		fl := baseFlags()
		fl.Checks = checks
		fl.Seed = seed
		// findBug
		withFlags(fl, func() {
			in := newInterp(prog, false)
			tb := newRecTB("fb")
			var valid, invalid int
			var early bool
			var sd uint64
			var e rapid.VerifErr
			runTB(func() { valid, invalid, early, sd, e = rapid.VerifFindBug(tb, farDeadline(), checks, seed, in.prop) })
			c.add(fmt.Sprintf("findbug %s | %d %d", prog, checks, seed),
				fmt.Sprintf("valid=%d invalid=%d early=%v seed=%d err=%s invocations=%d", valid, invalid, early, sd, showErr(e), len(in.invs)))
			c.tag("findbug-" + e.Kind())
		})
		// checkTB
		withFlags(fl, func() {
			in := newInterp(prog, false)
			tb := newRecTB("tb")
			p := runTB(func() { rapid.VerifCheckTB(tb, farDeadline(), in.prop) })
			if p != nil {
				c.add(fmt.Sprintf("checktb %s | %d %d |", prog, checks, seed), "escaped-panic:"+fmt.Sprint(p))
				return
			}
			// transcript: buffer-backed invocations after the random ones
			var bufs [][]uint64
			nrng := 0
			for _, inv := range in.invs {
				if inv.isBuf {
					bufs = append(bufs, inv.words)
				} else {
					nrng++
				}
			}
			// a shrink that ran hundreds of thousands of candidates makes a transcript of gigabytes:
			// such a case is not compared (it is counted, so that the evidence shows how many were dropped)
			total := 0
			for _, b := range bufs {
				total += len(b) + 1
			}
			if total > maxTranscriptWords {
				c.tag("checktb-transcript-too-long-skipped")
				return
			}
			verdict := tbVerdict(tb)
			failed := len(tb.errors) > 0 && !strings.HasPrefix(verdict, "only")
			tail := 0
			if failed {
				tail = 1 // final replay (nofailfile: no capture run)
			}
			var cands []string
			decisions := ""
			body := bufs
			if len(body) >= tail {
				body = body[:len(body)-tail]
			}
			for k := 0; k < len(body); k++ {
				cands = append(cands, joinU64(body[k])+";")
				if k+1 < len(body) && equalWords(body[k], body[k+1]) {
					decisions += "A"
					k++
				} else {
					decisions += "R"
				}
			}
			final := "-"
			finalDraws := "-"
			if failed && len(bufs) > 0 {
				final = joinU64(bufs[len(bufs)-1])
				finalDraws = strings.Join(in.invs[len(in.invs)-1].draws, ";")
			}
			_ = finalDraws
			c.add(fmt.Sprintf("checktb %s | %d %d | %s", prog, checks, seed, strings.Join(cands, " ")),
				fmt.Sprintf("verdict=%s exited=%s rng=%d decisions=%s final=%s", verdict, tb.exited, nrng, decisions, final))
			// the same run against the model's own passes: every buffer the shrinker ran, in order
			c.add(fmt.Sprintf("checktbfull %s | %d %d", prog, checks, seed),
				fmt.Sprintf("verdict=%s rng=%d runs=%s final=%s", verdict, nrng, strings.Join(cands, " "), final))
			c.tag("checktb-" + strings.SplitN(verdict, ":", 2)[0])
			if strings.Contains(decisions, "A") {
				c.tag("checktb-shrunk")
			}
		})
	}
}

func equalWords(a, b []uint64) bool {
	if len(a) != len(b) {
		return false
	}
	for i := range a {
		if a[i] != b[i] {
			return false
		}
	}
	return true
}

// programs for engine runs: mostly pass, fail on a value class, some skipping
func (r *rng) engineProgram() *SX {
	r.customFatal = 0
	g := &progGen{r: r, kinds: map[string]kind{}}
	var out []*SX
	m := 1 + r.intn(3)
	for i := 0; i < m; i++ {
		sx, k := r.anyGen(2)
		v := fmt.Sprintf("v%d", g.nextVar)
		g.nextVar++
		g.vars = append(g.vars, v)
		g.kinds[v] = k
		out = append(out, L(A("draw"), A(v), sx))
	}
	if r.chance(1, 3) {
		v := g.vars[r.intn(len(g.vars))]
		out = append(out, L(A("if"), r.condOn(v, g.kinds[v]), L(A("skip"))))
	}
	if r.chance(1, 4) {
		out = append(out, g.repeatStmt())
	}
	nf := r.intn(3)
	sameMsg := r.chance(1, 4) // several failure sites reporting one and the same message
	for i := 0; i < nf; i++ {
		v := g.vars[r.intn(len(g.vars))]
		f := g.failStmt()
		if sameMsg {
			s := g.nextSite % 8
			g.nextSite++
			f = L(A([]string{"failnow", "rtpanic"}[r.intn(2)]), N(int64(s)))
		}
		out = append(out, L(A("if"), r.condOn(v, g.kinds[v]), f))
	}
	if r.chance(1, 5) {
		out = append(out, L(append([]*SX{A("cleanup")}, g.cleanupBody(1)...)...))
	}
	return L(out...)
}

// MakeFuzz on bytes: outcome
func corrFuzz(r *rng, c *caseOut, n int) {
	withFlags(baseFlags(), func() {
		for i := 0; i < n; i++ {
			prog := r.engineProgram()
			l := r.intn(120)
			bs := make([]byte, l)
			for j := range bs {
				bs[j] = byte(r.u64())
			}
			if r.chance(1, 2) {
				ws := rapid.VerifJsf(r.u64(), l/8+1)
				for j := range bs {
					bs[j] = byte(ws[j/8] >> (8 * uint(j%8)))
				}
			}
			in := newInterp(prog, false)
			tb := newRecTB("fz")
			p := runTB(func() { rapid.VerifCheckFuzz(tb, in.prop, bs) })
			out := "pass"
			switch {
			case p != nil:
				out = "escaped-panic:" + fmt.Sprint(p)
			case tb.exited == "SkipNow":
				out = "skip"
			case tb.failed:
				out = "fail:" + strings.ReplaceAll(strings.SplitN(tb.errors[0], "\n", 2)[0], " ", "_")
			}
			c.tag("fuzz-" + strings.SplitN(out, ":", 2)[0])
			c.add(fmt.Sprintf("fuzz %s | %sx", prog, hex.EncodeToString(bs)), out)
		}
	})
}

// file names and patterns
func corrNames(r *rng, c *caseOut, n int) {
	alphabet := []rune("aZ09-_/\\.*?[]: \tÀßж中¹²ǅ́\U0001F600")
	names := []string{"CON", "con", "Com1", "LPT¹", "nul", "TestFoo/bar", "", "a*b", "COM¹", "aux"}
	for i := 0; i < n; i++ {
		var name string
		if i < len(names) {
			name = names[i]
		} else {
			l := r.intn(10)
			if i%5 == 4 {
				l = 60 + r.intn(240) // long names (subtest paths): nothing may depend on where a name is cut
			}
			rs := make([]rune, l)
			for j := range rs {
				rs[j] = alphabet[r.intn(len(alphabet))]
			}
			name = string(rs)
		}
		var parts []string
		for _, ru := range name {
			parts = append(parts, fmt.Sprintf("%d:%v", ru, unicode.IsLetter(ru) || unicode.IsDigit(ru)))
		}
		safe := rapid.VerifSafeName(name)
		var up []string
		for _, ru := range strings.ToUpper(stripTrailingUnderscoreIfReserved(name, safe)) {
			up = append(up, fmt.Sprintf("%d", ru))
		}
		_, file := rapid.VerifFailFileName(name)
		pat := rapid.VerifFailFilePattern(name)
		matches := false
		if ok, err := matchPath(pat, file); err == nil {
			matches = ok
		}
		c.add(fmt.Sprintf("safename %s | %s", strings.Join(parts, ","), strings.Join(up, ",")),
			fmt.Sprintf("safe=%s matches=%v", runesOf(safe), matches))
	}
}

func runesOf(s string) string {
	var parts []string
	for _, ru := range s {
		parts = append(parts, fmt.Sprintf("%d", ru))
	}
	return strings.Join(parts, ",")
}

// the sanitized name before the reserved-name suffix is added
func stripTrailingUnderscoreIfReserved(name, safe string) string {
	var b strings.Builder
	for _, ru := range name {
		if unicode.IsLetter(ru) || unicode.IsDigit(ru) || ru == '-' || ru == '_' {
			b.WriteRune(ru)
		} else {
			b.WriteRune('_')
		}
	}
	return b.String()
}

var _ = os.Remove
