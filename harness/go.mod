module verifharness

go 1.23

require pgregory.net/rapid v0.0.0

replace pgregory.net/rapid => /repo
