package main

import "path/filepath"

func matchPath(pat, name string) (bool, error) { return filepath.Match(pat, name) }

func runMonitor(prop string, seed uint64, scale int, outdir string) int { return 0 }
func runReplay(prop string, file string) int                            { return 0 }
