package main

import "path/filepath"

func matchPath(pat, name string) (bool, error) { return filepath.Match(pat, name) }
