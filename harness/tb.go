package main

import (
	"crypto/sha1"
	"encoding/hex"
	"fmt"
	"runtime"
	"strings"
	"sync"
	"time"

	"pgregory.net/rapid"
)

// recTB: a recording implementation of rapid.TB
type recTB struct {
	mu      sync.Mutex
	name    string
	logs    []string
	errors  []string // Errorf/Error/Fatalf/Fatal messages
	failed  bool
	skipped bool
	exited  string // "", "FailNow", "SkipNow"
}

func newRecTB(name string) *recTB { return &recTB{name: name} }

func (r *recTB) Helper()      {}
func (r *recTB) Name() string { return r.name }
func (r *recTB) Logf(format string, args ...any) {
	r.mu.Lock()
	defer r.mu.Unlock()
	r.logs = append(r.logs, fmt.Sprintf(format, args...))
}
func (r *recTB) Log(args ...any) {
	r.mu.Lock()
	defer r.mu.Unlock()
	r.logs = append(r.logs, fmt.Sprint(args...))
}
func (r *recTB) Errorf(format string, args ...any) {
	r.mu.Lock()
	defer r.mu.Unlock()
	r.errors = append(r.errors, fmt.Sprintf(format, args...))
	r.logs = append(r.logs, fmt.Sprintf(format, args...))
	r.failed = true
}
func (r *recTB) Error(args ...any) { r.Errorf("%s", fmt.Sprint(args...)) }
func (r *recTB) Fail() {
	r.mu.Lock()
	defer r.mu.Unlock()
	r.failed = true
}
func (r *recTB) Failed() bool {
	r.mu.Lock()
	defer r.mu.Unlock()
	return r.failed
}
func (r *recTB) FailNow() {
	r.mu.Lock()
	r.failed = true
	r.exited = "FailNow"
	r.mu.Unlock()
	runtime.Goexit()
}
func (r *recTB) Fatalf(format string, args ...any) {
	r.Errorf(format, args...)
	r.FailNow()
}
func (r *recTB) Fatal(args ...any) { r.Fatalf("%s", fmt.Sprint(args...)) }
func (r *recTB) SkipNow() {
	r.mu.Lock()
	r.skipped = true
	r.exited = "SkipNow"
	r.mu.Unlock()
	runtime.Goexit()
}
func (r *recTB) Skipf(format string, args ...any) {
	r.Logf(format, args...)
	r.SkipNow()
}
func (r *recTB) Skip(args ...any) { r.Skipf("%s", fmt.Sprint(args...)) }

var _ rapid.TB = (*recTB)(nil)

// runTB runs f on its own goroutine (FailNow/SkipNow end it with Goexit, as in package testing).
// It returns the recovered panic value, if any.
func runTB(f func()) (panicked any) {
	done := make(chan struct{})
	var p any
	go func() {
		defer close(done)
		defer func() {
			if r := recover(); r != nil {
				p = r
			}
		}()
		f()
	}()
	select {
	case <-done:
		return p
	case <-time.After(hangLimit):
		// the call never came back (it keeps spinning on its goroutine): a hang is an outcome too
		return fmt.Sprintf("hang: no result within %v", hangLimit)
	}
}

// every call into rapid made through runTB finishes within seconds (minimization is given at
// most 30 s); anything slower than this is reported as a hang
const hangLimit = 75 * time.Second

func tbToken(traceback string) string {
	h := sha1.Sum([]byte(traceback))
	return hex.EncodeToString(h[:4])
}

func joinU64(ws []uint64) string {
	parts := make([]string, len(ws))
	for i, w := range ws {
		parts[i] = fmt.Sprintf("%d", w)
	}
	return strings.Join(parts, ",")
}

// canonical group label: fixed labels are kept, generator strings are not compared
var fixedLabels = map[string]bool{
	"coinflip": true, "bias": true, "intbits": true, "dieroll": true, "try": true, "action": true,
	"permute@repeat": true, "Repeat@repeat": true, "floatexp": true, "floatsignif": true,
}

func canonLabel(l string) string {
	if fixedLabels[l] {
		return l
	}
	if strings.HasSuffix(l, "@repeat") {
		return "*@repeat"
	}
	return "*"
}

func showRec(rec rapid.VerifRec) string {
	var b strings.Builder
	b.WriteString("data=" + joinU64(rec.Data) + " groups=")
	// labels are compared up to equality: "#k" = the first group carrying the same label
	first := map[string]int{}
	for i, g := range rec.Groups {
		if i > 0 {
			b.WriteString(";")
		}
		if _, ok := first[g.Label]; !ok {
			first[g.Label] = i
		}
		fmt.Fprintf(&b, "%d,%d,%s#%d,%v,%v", g.Begin, g.End, canonLabel(g.Label), first[g.Label], g.Standalone, g.Discard)
	}
	return b.String()
}
