package main

import (
	"context"
	"fmt"
	"strings"

	"pgregory.net/rapid"
)

// one call of the property function, as the property sees it
type invocation struct {
	words          []uint64 // not yet consumed buffer at entry (buffer-backed T only)
	isBuf          bool
	draws          []string // %#v of every value received from Draw, in order
	vals           []string // canonical text of the values drawn outside rejected attempts (Custom retries, rejected actions)
	nsignals       int
	signalInCustom bool // a non-fatal failure statement (Error*/Fail) was executed inside a Custom generator function
	events         []string
	ended          string // "ret" if the body returned normally, "" otherwise
	signalled      bool   // a failure statement was executed
	checkSkipped   bool   // the invariant check of a Repeat executed a skip statement: the test case is not a valid one
}

type interp struct {
	prog        []*SX
	b           *builder
	gens        map[*SX]*rapid.Generator[any]
	invs        []*invocation
	cur         *invocation
	hook        func(in *interp, t *rapid.T) // called at the start of every invocation
	firstCtx    map[*rapid.T]context.Context
	customDepth int // > 0 while a Custom function runs (its inner *T does not log draws)
	inCheck     int // > 0 while the invariant check of a Repeat runs
}

func newInterp(prog *SX, strAll bool) *interp {
	in := &interp{prog: prog.List, gens: map[*SX]*rapid.Generator[any]{}}
	in.b = &builder{in: in, strAll: strAll}
	return in
}

func (in *interp) genFor(g *SX) *rapid.Generator[any] {
	if r, ok := in.gens[g]; ok {
		return r
	}
	r := in.b.gen(g)
	in.gens[g] = r
	return r
}

// a failure statement is being executed: remember it ("F:" events are for the monitors only)
func (in *interp) signal(s *SX) {
	if in.cur != nil {
		in.cur.signalled = true
		in.cur.nsignals++
		switch s.Head() {
		case "error", "fail", "goerror":
			if in.customDepth > 0 {
				in.cur.signalInCustom = true // D8 is about these: the test case goes on after the signal, the attempt can be rejected
			}
			in.cur.events = append(in.cur.events, "F:nonfatal")
		default:
			in.cur.events = append(in.cur.events, "F:"+s.String())
		}
	}
}

func (in *interp) ev(s string) {
	if in.cur != nil {
		in.cur.events = append(in.cur.events, s)
	}
}

// the property function
func (in *interp) prop(t *rapid.T) {
	inv := &invocation{}
	inv.words, inv.isBuf = rapid.VerifTWords(t)
	in.invs = append(in.invs, inv)
	in.cur = inv
	in.firstCtx = map[*rapid.T]context.Context{}
	if in.hook != nil {
		in.hook(in, t)
	}
	in.stmts(t, map[string]any{}, in.prog)
	inv.ended = "ret"
}

func (in *interp) cond(env map[string]any, c *SX) bool {
	// (OP VAR K...) → predicate (OP K...) applied to env[VAR]
	p := L(append([]*SX{c.List[0]}, c.List[2:]...)...)
	return applyPred(p, env[c.List[1].Atom])
}

// "ctx:<live>:<is it the first context this *T handed out in this invocation>"
func (in *interp) ctxEvent(t *rapid.T) {
	ctx := t.Context()
	first, ok := in.firstCtx[t]
	if !ok {
		in.firstCtx[t] = ctx
		first = ctx
	}
	in.ev(fmt.Sprintf("ctx:%v:%v", ctx.Err() == nil, first == ctx))
}

func (in *interp) stmts(t *rapid.T, env map[string]any, list []*SX) any {
	for _, s := range list {
		switch s.Head() {
		case "draw":
			v := in.genFor(s.List[2]).Draw(t, s.List[1].Atom)
			env[s.List[1].Atom] = v
			if in.cur != nil && in.customDepth == 0 {
				in.cur.draws = append(in.cur.draws, fmt.Sprintf("%#v", v))
				in.cur.vals = append(in.cur.vals, showVal(v))
			}
		case "if":
			if in.cond(env, s.List[1]) {
				in.stmts(t, env, s.List[2:])
			}
		case "fatal":
			in.signal(s)
			n := atoi(s.List[1])
			callSite(n, func() { t.Fatalf("f%d", n) })
		case "failnow":
			in.signal(s)
			n := atoi(s.List[1])
			callSite(n, func() { t.FailNow() })
		case "error":
			in.signal(s)
			t.Errorf("e%d", atoi(s.List[1]))
		case "fail":
			in.signal(s)
			t.Fail()
		case "panic":
			in.signal(s)
			n := atoi(s.List[1])
			callSite(n, func() { panic(fmt.Sprintf("p%d", n)) })
		case "rtpanic": // a runtime error: nil map write
			in.signal(s)
			n := atoi(s.List[1])
			callSite(n, func() {
				var m map[int]int
				m[0] = 1
			})
		case "skip":
			if in.inCheck > 0 && in.customDepth == 0 && in.cur != nil {
				in.cur.checkSkipped = true
			}
			t.Skip("skip")
		case "emit":
			in.ev("u" + s.List[1].Atom)
		case "cleanup":
			body := s.List[1:]
			// a cleanup registered by a Custom generator function belongs to that attempt: what it signals is
			// signalled "inside the Custom function" (the function itself has returned when it runs)
			depth := in.customDepth
			t.Cleanup(func() {
				if depth > in.customDepth {
					old := in.customDepth
					in.customDepth = depth
					defer func() { in.customDepth = old }()
				}
				in.stmts(t, map[string]any{}, body)
			})
		case "panicv": // a panic whose value depends on what was drawn (monitors only)
			in.signal(s)
			n := atoi(s.List[1])
			v := env[s.List[2].Atom]
			callSite(n, func() { panic(fmt.Sprintf("pv%d_%v", n, v)) })
		case "deep": // the body runs at a call depth taken from a drawn value (monitors only): recursion from one call site
			depth := int(toBig(env[s.List[1].Atom]).Int64())
			body := s.List[2:]
			var descend func(k int) any
			descend = func(k int) any {
				if k <= 0 {
					return in.stmts(t, env, body)
				}
				r := descend(k - 1)
				return r
			}
			if r := descend(depth); r != nil {
				return r
			}
		case "defer": // a deferred function of the user's code (monitors only: the model has no such statement)
			body := s.List[1:]
			defer func() { in.stmts(t, env, body) }()
		case "ctx":
			in.ctxEvent(t)
		case "ctxlive": // the context of the invocation must be live in the body
			n := atoi(s.List[1])
			in.ctxEvent(t)
			if t.Context().Err() != nil {
				in.signal(s)
				callSite(n, func() { t.Fatalf("f%d", n) })
			}
		case "goerror": // Errorf from another goroutine, joined before continuing
			in.signal(s)
			done := make(chan struct{})
			n := atoi(s.List[1])
			go func() {
				defer close(done)
				t.Errorf("e%d", n)
			}()
			<-done
		case "repeat":
			actions := map[string]func(*rapid.T){}
			k := 0
			for _, a := range s.List[1:] {
				body := a.List[1:]
				switch a.Head() {
				case "check":
					actions[""] = func(t *rapid.T) {
						in.inCheck++
						defer func() { in.inCheck-- }()
						in.stmts(t, env, body)
					}
				case "act":
					name := fmt.Sprintf("a%02d", k)
					k++
					actions[name] = func(t *rapid.T) {
						// an attempt that ends in invalid data (skip, rejection) is not part of the test case
						inv, done := in.cur, false
						nv, sig := len(inv.vals), inv.nsignals
						defer func() {
							if !done && inv.nsignals == sig {
								inv.vals = inv.vals[:nv]
							}
						}()
						in.stmts(t, env, body)
						done = true
					}
				}
			}
			t.Repeat(actions)
		case "ret":
			return env[s.List[1].Atom]
		default:
			panic("spec: bad stmt " + s.String())
		}
	}
	return nil
}

// ---------------------------------------------------------------- failure sites: distinct functions ⇒ distinct tracebacks

//go:noinline
func site0(f func()) { f() }

//go:noinline
func site1(f func()) { f() }

//go:noinline
func site2(f func()) { f() }

//go:noinline
func site3(f func()) { f() }

//go:noinline
func site4(f func()) { f() }

//go:noinline
func site5(f func()) { f() }

//go:noinline
func site6(f func()) { f() }

//go:noinline
func site7(f func()) { f() }

var siteFns = []func(func()){site0, site1, site2, site3, site4, site5, site6, site7}

func callSite(n int, f func()) { siteFns[n%len(siteFns)](f) }

// ---------------------------------------------------------------- canonical error text

func showErr(e rapid.VerifErr) string {
	if e.IsNil() {
		return "none"
	}
	msg := e.Msg()
	if strings.HasPrefix(msg, "group did not use any data from bitstream") {
		msg = "group did not use any data from bitstream"
	}
	msg = strings.ReplaceAll(msg, " ", "_")
	msg = strings.ReplaceAll(msg, "\n", "_")
	if e.Kind() == "invalid" {
		return "invalid:" + msg
	}
	return e.Kind() + ":" + msg + ":@" + tbToken(e.Traceback())
}
