package main

import (
	"context"
	"fmt"
	"strings"

	"pgregory.net/rapid"
)

// one call of the property function, as the property sees it
type invocation struct {
	words  []uint64 // not yet consumed buffer at entry (buffer-backed T only)
	isBuf  bool
	draws  []string // %#v of every value received from Draw, in order
	events []string
	ended  string // "ret" if the body returned normally, "" otherwise
}

type interp struct {
	prog   []*SX
	b      *builder
	gens   map[*SX]*rapid.Generator[any]
	invs   []*invocation
	cur    *invocation
	hook   func(in *interp, t *rapid.T) // called at the start of every invocation
	ctxIDs []context.Context
}

func newInterp(prog *SX, strAll bool) *interp {
	in := &interp{prog: prog.List, gens: map[*SX]*rapid.Generator[any]{}}
	in.b = &builder{in: in, strAll: strAll}
	return in
}

func (in *interp) genFor(g *SX) *rapid.Generator[any] {
	if r, ok := in.gens[g]; ok {
		return r
	}
	r := in.b.gen(g)
	in.gens[g] = r
	return r
}

func (in *interp) ev(s string) {
	if in.cur != nil {
		in.cur.events = append(in.cur.events, s)
	}
}

// the property function
func (in *interp) prop(t *rapid.T) {
	inv := &invocation{}
	inv.words, inv.isBuf = rapid.VerifTWords(t)
	in.invs = append(in.invs, inv)
	in.cur = inv
	in.ctxIDs = nil
	if in.hook != nil {
		in.hook(in, t)
	}
	in.stmts(t, map[string]any{}, in.prog)
	inv.ended = "ret"
}

func (in *interp) cond(env map[string]any, c *SX) bool {
	// (OP VAR K...) → predicate (OP K...) applied to env[VAR]
	p := L(append([]*SX{c.List[0]}, c.List[2:]...)...)
	return applyPred(p, env[c.List[1].Atom])
}

func (in *interp) ctxEvent(t *rapid.T) {
	ctx := t.Context()
	id := -1
	for i, c := range in.ctxIDs {
		if c == ctx {
			id = i
		}
	}
	if id < 0 {
		id = len(in.ctxIDs)
		in.ctxIDs = append(in.ctxIDs, ctx)
	}
	in.ev(fmt.Sprintf("ctx:%d:%v", id, ctx.Err() == nil))
}

func (in *interp) stmts(t *rapid.T, env map[string]any, list []*SX) any {
	for _, s := range list {
		switch s.Head() {
		case "draw":
			v := in.genFor(s.List[2]).Draw(t, s.List[1].Atom)
			env[s.List[1].Atom] = v
			if in.cur != nil {
				in.cur.draws = append(in.cur.draws, fmt.Sprintf("%#v", v))
			}
		case "if":
			if in.cond(env, s.List[1]) {
				in.stmts(t, env, s.List[2:])
			}
		case "fatal":
			n := atoi(s.List[1])
			callSite(n, func() { t.Fatalf("f%d", n) })
		case "failnow":
			n := atoi(s.List[1])
			callSite(n, func() { t.FailNow() })
		case "error":
			t.Errorf("e%d", atoi(s.List[1]))
		case "fail":
			t.Fail()
		case "panic":
			n := atoi(s.List[1])
			callSite(n, func() { panic(fmt.Sprintf("p%d", n)) })
		case "rtpanic": // a runtime error: nil map write
			n := atoi(s.List[1])
			callSite(n, func() {
				var m map[int]int
				m[0] = 1
			})
		case "skip":
			t.Skip("skip")
		case "emit":
			in.ev("u" + s.List[1].Atom)
		case "cleanup":
			body := s.List[1:]
			t.Cleanup(func() { in.stmts(t, map[string]any{}, body) })
		case "ctx":
			in.ctxEvent(t)
		case "goerror": // Errorf from another goroutine, joined before continuing
			done := make(chan struct{})
			n := atoi(s.List[1])
			go func() {
				defer close(done)
				t.Errorf("e%d", n)
			}()
			<-done
		case "repeat":
			actions := map[string]func(*rapid.T){}
			k := 0
			for _, a := range s.List[1:] {
				body := a.List[1:]
				switch a.Head() {
				case "check":
					actions[""] = func(t *rapid.T) { in.stmts(t, env, body) }
				case "act":
					name := fmt.Sprintf("a%02d", k)
					k++
					actions[name] = func(t *rapid.T) { in.stmts(t, env, body) }
				}
			}
			t.Repeat(actions)
		case "ret":
			return env[s.List[1].Atom]
		default:
			panic("spec: bad stmt " + s.String())
		}
	}
	return nil
}

// ---------------------------------------------------------------- failure sites: distinct functions ⇒ distinct tracebacks

//go:noinline
func site0(f func()) { f() }

//go:noinline
func site1(f func()) { f() }

//go:noinline
func site2(f func()) { f() }

//go:noinline
func site3(f func()) { f() }

//go:noinline
func site4(f func()) { f() }

//go:noinline
func site5(f func()) { f() }

//go:noinline
func site6(f func()) { f() }

//go:noinline
func site7(f func()) { f() }

var siteFns = []func(func()){site0, site1, site2, site3, site4, site5, site6, site7}

func callSite(n int, f func()) { siteFns[n%len(siteFns)](f) }

// ---------------------------------------------------------------- canonical error text

func showErr(e rapid.VerifErr) string {
	if e.IsNil() {
		return "none"
	}
	msg := e.Msg()
	if strings.HasPrefix(msg, "group did not use any data from bitstream") {
		msg = "group did not use any data from bitstream"
	}
	msg = strings.ReplaceAll(msg, " ", "_")
	msg = strings.ReplaceAll(msg, "\n", "_")
	if e.Kind() == "invalid" {
		return "invalid:" + msg
	}
	return e.Kind() + ":" + msg + ":@" + tbToken(e.Traceback())
}
