package main

// seeded, type-directed random generation of Spec generators and programs

import "fmt"

type kind int

const (
	kInt kind = iota
	kBool
	kList
	kMap
	kPtr
)

func (r *rng) smallRange() (int, int) {
	switch r.intn(6) {
	case 0:
		return -1, -1
	case 1:
		n := r.intn(4)
		return n, n
	case 2:
		return 0, r.intn(5)
	case 3:
		return r.intn(3), -1
	case 4:
		return -1, r.intn(5)
	default:
		lo := r.intn(4)
		return lo, lo + r.intn(5)
	}
}

func (r *rng) intGen() *SX {
	switch r.intn(10) {
	case 8:
		lo, hi := r.frange(52, 11)
		return L(A("f64"), U(lo), U(hi))
	case 9:
		lo, hi := r.frange(23, 8)
		return L(A("f32"), U(lo), U(hi))
	case 0:
		lo := r.ubound()
		hi := r.ubound()
		if lo > hi {
			lo, hi = hi, lo
		}
		return L(A("u"), U(lo), U(hi))
	case 1:
		lo := r.ibound()
		hi := r.ibound()
		if lo > hi {
			lo, hi = hi, lo
		}
		return L(A("i"), N(lo), N(hi))
	case 2:
		return L(A("i"), N(int64(-r.intn(4))), N(int64(r.intn(6))))
	case 3:
		return L(A("u"), U(0), U(uint64(r.intn(5))))
	case 4:
		return L(A("sampled"), N(int64(1+r.intn(6))))
	case 5:
		return L(A("i"), N(-1<<63), N(1<<63-1))
	case 6:
		return L(A("u"), U(0), U(^uint64(0)))
	default:
		return L(A("i"), N(-100), N(100))
	}
}

func (r *rng) intPred() *SX {
	switch r.intn(6) {
	case 0:
		return L(A("mod"), N(int64(2+r.intn(3))), N(0))
	case 1:
		return L(A("lt"), N(int64(r.intn(8))-2))
	case 2:
		return L(A("ge"), N(int64(r.intn(8))-2))
	case 3:
		return L(A("ne"), N(int64(r.intn(3))))
	case 4:
		return L(A("false"))
	default:
		return L(A("true"))
	}
}

func (r *rng) keyFn() *SX {
	switch r.intn(4) {
	case 0:
		return L(A("modf"), N(int64(2+r.intn(4))))
	case 1:
		return L(A("half"))
	default:
		return L(A("id"))
	}
}

// gen of a given kind; depth bounds nesting
func (r *rng) genOf(k kind, depth int) *SX {
	if depth <= 0 {
		switch k {
		case kBool:
			return L(A("bool"))
		case kInt:
			return r.intGen()
		}
	}
	switch k {
	case kBool:
		if depth > 0 && r.chance(1, 4) {
			return L(A("deferred"), L(A("bool")))
		}
		return L(A("bool"))
	case kInt:
		switch r.intn(9) {
		case 0:
			return L(A("filter"), r.genOf(kInt, depth-1), r.intPred())
		case 1:
			return L(A("map"), r.genOf(kInt, depth-1), r.keyFn())
		case 2:
			n := 1 + r.intn(3)
			xs := []*SX{A("oneof")}
			for i := 0; i < n; i++ {
				xs = append(xs, r.genOf(kInt, depth-1))
			}
			return L(xs...)
		case 3:
			xs := []*SX{A("custom"), L(A("draw"), A("c"), r.genOf(kInt, depth-1))}
			xs = append(xs, r.customTail()...)
			return L(append(xs, L(A("ret"), A("c")))...)
		case 4:
			return L(A("deferred"), r.genOf(kInt, depth-1))
		case 5:
			return L(A("map"), r.genOf(kList, depth-1), L(A("len")))
		default:
			return r.intGen()
		}
	case kList:
		lo, hi := r.smallRange()
		switch r.intn(6) {
		case 0:
			return L(A("distinct"), r.genOf(kInt, depth-1), N(int64(lo)), N(int64(hi)), r.keyFn())
		case 1:
			return L(A("perm"), N(int64(r.intn(6))))
		case 2:
			rs := L(A("runes"), N(97), N(98), N(233), N(8364), N(128512))
			if r.chance(1, 3) {
				rs = L(A("runes"), N(97), N(55296), N(1114112), N(-1), N(8364))
			}
			maxLen := -1
			if r.chance(1, 2) {
				maxLen = hi
				if hi >= 0 {
					maxLen = hi + r.intn(6)
				} else {
					maxLen = r.intn(8)
				}
			}
			return L(A("string"), rs, N(int64(lo)), N(int64(hi)), N(int64(maxLen)))
		case 3:
			return L(A("filter"), L(A("slice"), r.genOf(kInt, depth-1), N(int64(lo)), N(int64(hi))), L(A("lenlt"), N(int64(1+r.intn(4)))))
		default:
			ek := kInt
			if r.chance(1, 5) {
				ek = kBool
			}
			return L(A("slice"), r.genOf(ek, depth-1), N(int64(lo)), N(int64(hi)))
		}
	case kMap:
		lo, hi := r.smallRange()
		if r.chance(1, 2) {
			return L(A("mapof"), r.genOf(kInt, depth-1), r.genOf(kInt, depth-1), N(int64(lo)), N(int64(hi)))
		}
		return L(A("mapvals"), r.genOf(kInt, depth-1), N(int64(lo)), N(int64(hi)), r.keyFn())
	case kPtr:
		b := "true"
		if r.chance(1, 3) {
			b = "false"
		}
		return L(A("ptr"), r.genOf(kInt, depth-1), A(b))
	}
	panic("kind")
}

// statements inside a custom body between the draw and the ret: sometimes skip, fail (fatally or not), panic,
// register a cleanup that fails or skips
func (r *rng) customTail() []*SX {
	site := func() (*SX, bool) {
		if r.customFatal >= 8 {
			return nil, false
		}
		r.customFatal++
		return N(int64(8 + r.customFatal - 1)), true
	}
	switch r.intn(10) {
	case 4:
		return []*SX{L(A("if"), L(A("mod"), A("c"), N(5), N(0)), L(A("error"), N(int64(r.intn(4)))))}
	case 5:
		return []*SX{L(A("cleanup"), L(A("error"), N(int64(r.intn(4)))))}
	case 0:
		return []*SX{L(A("if"), L(A("mod"), A("c"), N(3), N(0)), L(A("skip")))}
	case 1:
		return []*SX{L(A("if"), L(A("lt"), A("c"), N(0)), L(A("skip")))}
	case 6:
		if s, ok := site(); ok {
			return []*SX{L(A("if"), L(A("mod"), A("c"), N(4), N(0)), L(A("fatal"), s))}
		}
	case 7: // a fatal failure whose panic is replaced by the skip of a cleanup on the way up
		if s, ok := site(); ok {
			return []*SX{L(A("cleanup"), L(A("skip"))), L(A("if"), L(A("mod"), A("c"), N(2), N(0)), L(A("fatal"), s))}
		}
	case 8:
		return []*SX{L(A("cleanup"), L(A("skip")))}
	case 9:
		if s, ok := site(); ok {
			return []*SX{L(A("if"), L(A("mod"), A("c"), N(6), N(0)), L(A("panic"), s))}
		}
	}
	return []*SX{L(A("emit"), N(int64(r.intn(9))))}
}

func (r *rng) anyGen(depth int) (*SX, kind) {
	k := []kind{kInt, kInt, kInt, kBool, kList, kList, kMap, kPtr}[r.intn(8)]
	return r.genOf(k, depth), k
}

func (r *rng) condOn(v string, k kind) *SX {
	switch k {
	case kInt:
		p := r.intPred()
		return L(append([]*SX{p.List[0], A(v)}, p.List[1:]...)...)
	case kBool:
		return L(A("istrue"), A(v))
	case kList, kMap:
		if r.chance(1, 2) {
			return L(A("lenge"), A(v), N(int64(r.intn(4))))
		}
		return L(A("lenlt"), A(v), N(int64(1+r.intn(3))))
	default:
		return L(A("nonnil"), A(v))
	}
}

type progGen struct {
	r        *rng
	nextSite int
	nextVar  int
	vars     []string
	kinds    map[string]kind
}

func (g *progGen) failStmt() *SX {
	r := g.r
	s := g.nextSite % 8
	g.nextSite++
	switch r.intn(10) {
	case 0, 1, 2:
		return L(A("fatal"), N(int64(s)))
	case 3:
		return L(A("panic"), N(int64(s)))
	case 4:
		g.nextSite--
		return L(A("error"), N(int64(r.intn(4))))
	case 5:
		g.nextSite--
		return L(A("skip"))
	case 6:
		return L(A("rtpanic"), N(int64(s)))
	case 7:
		return L(A("failnow"), N(int64(s)))
	case 8:
		g.nextSite--
		return L(A("fail"))
	default:
		g.nextSite--
		return L(A("goerror"), N(int64(r.intn(4))))
	}
}

func (g *progGen) cleanupBody(depth int) []*SX {
	r := g.r
	var out []*SX
	n := 1 + r.intn(3)
	for i := 0; i < n; i++ {
		switch r.intn(9) {
		case 8:
			if r.chance(1, 2) {
				out = append(out, L(A("skip"))) // a cleanup that panics with invalid data: the rest of its body does not run
				continue
			}
			out = append(out, L(A("emit"), N(int64(10+r.intn(40)))))
		case 0:
			if depth > 0 {
				out = append(out, L(append([]*SX{A("cleanup")}, g.cleanupBody(depth-1)...)...))
				continue
			}
			fallthrough
		case 1:
			out = append(out, L(A("ctx")))
		case 2:
			out = append(out, L(A("error"), N(int64(r.intn(4)))))
		case 3:
			s := g.nextSite % 8
			g.nextSite++
			out = append(out, L(A("panic"), N(int64(s))))
		default:
			out = append(out, L(A("emit"), N(int64(10+r.intn(40)))))
		}
	}
	return out
}

func (g *progGen) stmt(depth int, inAction bool) *SX {
	r := g.r
	switch r.intn(12) {
	case 0, 1, 2, 3:
		sx, k := r.anyGen(2)
		v := fmt.Sprintf("v%d", g.nextVar)
		g.nextVar++
		g.vars = append(g.vars, v)
		g.kinds[v] = k
		return L(A("draw"), A(v), sx)
	case 4, 5, 6:
		if len(g.vars) > 0 {
			v := g.vars[r.intn(len(g.vars))]
			body := []*SX{g.failStmt()}
			if r.chance(1, 4) {
				body = append([]*SX{L(A("emit"), N(int64(r.intn(9))))}, body...)
			}
			return L(append([]*SX{A("if"), r.condOn(v, g.kinds[v])}, body...)...)
		}
		return L(A("emit"), N(int64(r.intn(9))))
	case 7:
		return L(append([]*SX{A("cleanup")}, g.cleanupBody(1)...)...)
	case 8:
		if r.chance(1, 2) {
			return L(A("ctxlive"), N(int64(g.nextSite%8)))
		}
		return L(A("ctx"))
	case 9:
		if depth > 0 && !inAction {
			return g.repeatStmt()
		}
		return L(A("emit"), N(int64(r.intn(9))))
	default:
		return L(A("emit"), N(int64(r.intn(9))))
	}
}

func (g *progGen) repeatStmt() *SX {
	r := g.r
	xs := []*SX{A("repeat")}
	if r.chance(2, 3) {
		body := []*SX{L(A("emit"), N(90))}
		if len(g.vars) > 0 && r.chance(1, 3) {
			v := g.vars[r.intn(len(g.vars))]
			body = append(body, L(A("if"), r.condOn(v, g.kinds[v]), g.failStmt()))
		}
		xs = append(xs, L(append([]*SX{A("check")}, body...)...))
	}
	n := 1 + r.intn(3)
	for i := 0; i < n; i++ {
		body := []*SX{L(A("emit"), N(int64(100+i)))}
		saveVars := g.vars
		m := 1 + r.intn(3)
		for j := 0; j < m; j++ {
			if r.chance(1, 5) {
				body = append(body, L(A("skip")))
			} else {
				body = append(body, g.stmt(0, true))
			}
		}
		body = append(body, L(A("emit"), N(int64(200+i))))
		g.vars = saveVars
		xs = append(xs, L(append([]*SX{A("act")}, body...)...))
	}
	return L(xs...)
}

// a random property program of up to n statements
func (r *rng) program(n int) *SX {
	r.customFatal = 0
	g := &progGen{r: r, kinds: map[string]kind{}}
	var out []*SX
	m := 1 + r.intn(n)
	for i := 0; i < m; i++ {
		out = append(out, g.stmt(1, false))
	}
	return L(out...)
}
