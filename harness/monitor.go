package main

// Implementation-level monitors: each evaluates the statement of one property directly on
// executions of the real code.  They are what finds a concrete failing input when a proof
// obligation or the correspondence breaks (and they run on every check as well).

import (
	"encoding/json"
	"fmt"
	"os"
	"path/filepath"
	"regexp"
	"strconv"
	"strings"
	"time"

	"pgregory.net/rapid"
)

type violation struct {
	Property string            `json:"property"`
	Kind     string            `json:"kind"`
	What     string            `json:"what"`
	Params   map[string]string `json:"params"`
}

type monOut struct {
	Evaluations int            `json:"evaluations"`
	Distinct    int            `json:"distinct_nontrivial"`
	Tags        map[string]int `json:"tags"`
	Samples     []string       `json:"samples"`
	Violations  []violation    `json:"violations"`
	seen        map[string]bool
}

func (m *monOut) tag(t string) {
	if m.Tags == nil {
		m.Tags = map[string]int{}
	}
	m.Tags[t]++
}

// count a case; nontrivial cases are counted once per distinct text
func (m *monOut) eval(text string, nontrivial bool) {
	m.Evaluations++
	if m.seen == nil {
		m.seen = map[string]bool{}
	}
	if nontrivial && !m.seen[text] {
		m.seen[text] = true
		m.Distinct++
		if len(m.Samples) < 5 {
			if len(text) > 400 {
				text = text[:400] + "…"
			}
			m.Samples = append(m.Samples, text)
		}
	}
}

func (m *monOut) violate(v violation) {
	if len(m.Violations) < 20 {
		m.Violations = append(m.Violations, v)
	}
}

type monitorFn func(r *rng, scale int, m *monOut, tmp string)

var monitors = map[string]monitorFn{}

// replayers re-run one recorded violation; true = still violates
var replayers = map[string]func(v violation, tmp string) (bool, string){}

func runMonitor(prop string, seed uint64, scale int, outdir string) int {
	fn, ok := monitors[prop]
	if !ok {
		fatalf("no monitor for %s", prop)
	}
	tmp, err := os.MkdirTemp("", "verif-mon-")
	if err != nil {
		fatalf("tmp: %v", err)
	}
	defer os.RemoveAll(tmp)
	m := &monOut{}
	fn(newRng(seed^hashStr(prop)), scale, m, tmp)
	data, _ := json.MarshalIndent(m, "", " ")
	if err := os.WriteFile(filepath.Join(outdir, "monitor-"+prop+".json"), data, 0o644); err != nil {
		fatalf("write: %v", err)
	}
	if len(m.Violations) > 0 {
		return 1
	}
	return 0
}

func runReplay(prop string, file string) int {
	data, err := os.ReadFile(file)
	if err != nil {
		fatalf("read %s: %v", file, err)
	}
	var v violation
	if err := json.Unmarshal(data, &v); err != nil {
		fatalf("parse %s: %v", file, err)
	}
	rp, ok := replayers[v.Kind]
	if !ok {
		// no replayer of its own: run the monitor that found it again, with the same seed and scale
		if fn, has := monitors[v.Params["_monitor"]]; has {
			seed, _ := strconv.ParseUint(v.Params["_monitor_seed"], 10, 64)
			scale, _ := strconv.Atoi(v.Params["_monitor_scale"])
			tmp, _ := os.MkdirTemp("", "verif-replay-")
			defer os.RemoveAll(tmp)
			m := &monOut{}
			fn(newRng(seed^hashStr(v.Params["_monitor"])), scale, m, tmp)
			for _, w := range m.Violations {
				if w.Kind == v.Kind {
					fmt.Printf("replay %s kind=%s: violates=true %s\n", prop, v.Kind, w.What)
					return 1
				}
			}
			fmt.Printf("replay %s kind=%s: violates=false (the monitor %s, run again with seed %d and scale %d, reports no violation of that kind)\n", prop, v.Kind, v.Params["_monitor"], seed, scale)
			return 0
		}
		fmt.Printf("replay: no replayer for kind %q (see the file for the failing obligation)\n", v.Kind)
		return 1
	}
	tmp, _ := os.MkdirTemp("", "verif-replay-")
	defer os.RemoveAll(tmp)
	still, what := rp(v, tmp)
	fmt.Printf("replay %s kind=%s: violates=%v %s\n", prop, v.Kind, still, what)
	if still {
		return 1
	}
	return 0
}

// ---------------------------------------------------------------- shared: one checkTB run

type tbRun struct {
	tb      *recTB
	in      *interp
	verdict string
	escaped any
}

// signalled: did this invocation execute a failure statement
func runCheckTB(prog *SX, fl rapid.VerifFlags, name string, hook func(in *interp, t *rapid.T)) *tbRun {
	run := &tbRun{tb: newRecTB(name), in: newInterp(prog, false)}
	run.in.hook = hook
	withFlags(fl, func() {
		run.escaped = runTB(func() { rapid.VerifCheckTB(run.tb, farDeadline(), run.in.prop) })
	})
	run.verdict = tbVerdict(run.tb)
	return run
}

func (run *tbRun) lastBuf() ([]uint64, *invocation) {
	for i := len(run.in.invs) - 1; i >= 0; i-- {
		if run.in.invs[i].isBuf {
			return run.in.invs[i].words, run.in.invs[i]
		}
	}
	return nil, nil
}

// the draws logged by the final replay ("Failed test output")
func (run *tbRun) loggedDraws() []string {
	var out []string
	after := false
	for _, l := range run.tb.logs {
		if strings.Contains(l, "Failed test output:") {
			after = true
			out = nil
			continue
		}
		if after && strings.HasPrefix(l, "[rapid] draw ") && !strings.HasPrefix(l, "[rapid] draw action: ") { // Repeat's own draw of the action name
			if i := strings.Index(l, ": "); i >= 0 {
				out = append(out, l[i+2:])
			}
		}
	}
	return out
}

func verdictMsg(verdict string) (kind, valid, msg string) {
	parts := strings.SplitN(verdict, ":", 3)
	kind = parts[0]
	if len(parts) > 1 {
		valid = parts[1]
	}
	if len(parts) > 2 {
		msg = parts[2]
		if i := strings.LastIndex(msg, ":seed="); i >= 0 {
			msg = msg[:i]
		}
	}
	return
}

func underscore(s string) string {
	return strings.ReplaceAll(strings.ReplaceAll(s, " ", "_"), "\n", "_")
}

// ---------------------------------------------------------------- C01 (also run for C04, C05, C11)

// the reported test case really fails as reported; never flaky; logged draws = received draws
func checkReported(run *tbRun, prog *SX) string {
	kind, _, msg := verdictMsg(run.verdict)
	switch kind {
	case "flaky":
		return "deterministic property reported as flaky: " + run.verdict
	case "failed", "panic":
		buf, inv := run.lastBuf()
		if inv == nil {
			return "failure reported without a final replay"
		}
		in2 := newInterp(prog, false)
		var e rapid.VerifErr
		runTB(func() {
			e = rapid.VerifCheckOnce(rapid.VerifNewT(newRecTB("re"), rapid.VerifBufStream(buf, false), false), in2.prop)
		})
		if e.IsNil() || e.Kind() == "invalid" {
			return fmt.Sprintf("reported buffer [%s] does not falsify the property (replay: %s), reported %s", joinU64(buf), showErr(e), run.verdict)
		}
		if underscore(e.Msg()) != msg {
			return fmt.Sprintf("reported buffer fails with %q, message names %q", underscore(e.Msg()), msg)
		}
		// the test case that was *presented* (the final replay, on a T that logs) is that failing test case: it drew the same
		// values and it failed, too
		if len(in2.invs) > 0 && maskAddrs(strings.Join(in2.invs[0].draws, "|")) != maskAddrs(strings.Join(inv.draws, "|")) {
			return fmt.Sprintf("the presented replay of [%s] drew %v; the same words on a T that does not log draw %v (and fail with %s)", joinU64(buf), inv.draws, in2.invs[0].draws, showErr(e))
		}
		if len(in2.invs) > 0 && in2.invs[0].signalled && !inv.signalled {
			return fmt.Sprintf("the presented replay of [%s] does not fail; the same words on a T that does not log fail with %s", joinU64(buf), showErr(e))
		}
		logged := run.loggedDraws()
		if strings.Join(logged, "|") != strings.Join(inv.draws, "|") {
			return fmt.Sprintf("logged draws %v differ from received draws %v", logged, inv.draws)
		}
		signalled := false
		for _, i := range run.in.invs {
			if i.signalled {
				signalled = true
			}
		}
		if !signalled && !strings.HasPrefix(msg, "can't_find_a_valid") && !strings.HasPrefix(msg, "group_did_not") {
			return "falsification reported although no executed test case signalled a failure"
		}
	}
	return ""
}

// pointer values print as addresses, which differ from run to run
var addrRE = regexp.MustCompile(`0x[0-9a-f]{6,}`)

func maskAddrs(s string) string { return addrRE.ReplaceAllString(s, "0xADDR") }

// D2 shape of a recording: a finished, kept "action" group that encloses an unfinished group and
// a discarded group (an action attempt treated as skipped although it consumed bits of a
// rejected draw)
func d2Shape(rec rapid.VerifRec) bool {
	for i, g := range rec.Groups {
		if g.Label != "action" || g.End < 0 || g.Discard {
			continue
		}
		unfinished, discarded := false, false
		for _, h := range rec.Groups[i+1:] {
			if h.Begin >= g.End && !(h.Begin == g.End && h.End == -1) {
				break
			}
			if h.End < 0 {
				unfinished = true
			}
			if h.Discard {
				discarded = true
			}
		}
		if unfinished && discarded {
			return true
		}
	}
	return false
}

// does any test case this run executed (PRNG-driven reproduction or shrink candidate) record the D2 shape
func runHasD2Shape(run *tbRun, prog *SX, seed uint64) bool {
	record := func(s *rapid.VerifStream) bool {
		in := newInterp(prog, false)
		runTB(func() { rapid.VerifCheckOnce(rapid.VerifNewT(newRecTB("d2"), s, false), in.prop) })
		return d2Shape(s.Rec())
	}
	if seed != 0 && record(rapid.VerifRandStream(seed, true)) {
		return true
	}
	seen := map[string]bool{}
	for _, inv := range run.in.invs {
		if !inv.isBuf {
			continue
		}
		k := joinU64(inv.words)
		if seen[k] {
			continue
		}
		seen[k] = true
		if record(rapid.VerifBufStream(inv.words, true)) {
			return true
		}
	}
	return false
}

// did any executed test case signal a failure from inside a Custom generator function
func runSignalInCustom(run *tbRun) bool {
	for _, inv := range run.in.invs {
		if inv.signalInCustom {
			return true
		}
	}
	return false
}

func reportedSeed(verdict string) uint64 {
	if i := strings.LastIndex(verdict, ":seed="); i >= 0 {
		var s uint64
		fmt.Sscan(verdict[i+6:], &s)
		return s
	}
	return 0
}

func flagsStr(fl rapid.VerifFlags) map[string]string {
	return map[string]string{
		"checks": fmt.Sprint(fl.Checks), "seed": fmt.Sprint(fl.Seed), "shrinktime": fl.ShrinkTime.String(),
		"steps": fmt.Sprint(fl.Steps), "nofailfile": fmt.Sprint(fl.Nofailfile),
	}
}

func parseFlags(p map[string]string) rapid.VerifFlags {
	fl := baseFlags()
	fmt.Sscan(p["checks"], &fl.Checks)
	fmt.Sscan(p["seed"], &fl.Seed)
	fmt.Sscan(p["steps"], &fl.Steps)
	if d, err := time.ParseDuration(p["shrinktime"]); err == nil {
		fl.ShrinkTime = d
	}
	fl.Nofailfile = p["nofailfile"] != "false"
	return fl
}

// programs whose failure depends on rejection-heavy generators
func (r *rng) rejectingProgram() *SX {
	gens := []string{
		"(distinct (i 0 2) -1 -1 (id))",
		"(mapof (bool) (i -100 100) -1 -1)",
		"(string (runes 97 98 233 8364 128512) -1 -1 3)",
		"(filter (i 0 3) (eq 0))",
		"(slice (filter (i 0 5) (mod 2 0)) 0 6)",
		"(mapvals (i 0 9) 0 5 (modf 3))",
		"(distinct (i 0 7) 1 5 (modf 4))",
		"(custom (draw c (i 0 9)) (if (mod c 3 0) (skip)) (ret c))",
		// a Custom attempt abandoned because a generator inside it gave up: the discarded try group
		// encloses groups that were never finished
		"(custom (draw c (filter (i 0 3) (ge 3))) (ret c))",
		"(custom (draw a (i 0 3)) (draw c (filter (i 0 5) (ge 5))) (ret c))",
		"(distinct (custom (draw c (filter (i 0 3) (ge 2))) (ret c)) 0 4 (id))",
		"(custom (draw c (distinct (i 0 1) 2 3 (id))) (ret c))",
	}
	var out []*SX
	n := 1 + r.intn(3)
	for i := 0; i < n; i++ {
		g, _ := parseSX(gens[r.intn(len(gens))])
		out = append(out, L(A("draw"), A(fmt.Sprintf("a%d", i)), g))
	}
	out = append(out, L(A("draw"), A("z"), L(A("i"), N(-1<<63), N(1<<63-1))))
	fails := []string{"(if (ge z 1000) (fatal 1))", "(if (lt z -5) (panic 2))", "(if (ne z 0) (error 1))", "(if (ge z 17) (fatal 3))"}
	f, _ := parseSX(fails[r.intn(len(fails))])
	out = append(out, f)
	if r.chance(1, 3) {
		f2, _ := parseSX("(if (lenge a0 2) (fatal 4))")
		out = append(out, f2)
	}
	return L(out...)
}

// state machines with skipping actions
func (r *rng) smProgram() *SX {
	srcs := []string{
		"((repeat (check (emit 90)) (act (emit 100) (draw x (i 0 9)) (if (ge x 7) (fatal 1)) (emit 200)) (act (emit 101) (skip))))",
		"((repeat (act (emit 100) (draw x (filter (i 0 3) (eq 0))) (emit 200)) (act (emit 101) (draw y (i 0 100)) (if (ge y 50) (fatal 2)) (emit 201))))",
		"((repeat (check (emit 90)) (act (emit 100) (draw x (i 0 9)) (if (lt x 5) (skip)) (if (ge x 9) (fatal 1)) (emit 200))))",
		"((draw n (i 0 20)) (repeat (check (if (ge n 15) (error 1))) (act (emit 100) (draw x (bool)) (emit 200))))",
		"((repeat (act (emit 100) (draw x (distinct (i 0 2) -1 -1 (id))) (if (lenge x 2) (fatal 1)) (emit 200)) (act (emit 101) (draw y (bool)) (if (istrue y) (skip)) (emit 201))))",
		// a draw before the loop, a failure right after the last draw of an action (the group of the failing step stays open)
		"((draw a (u 0 255)) (repeat (act (emit 100) (draw x (u 0 255)) (if (ge a 5) (if (ge x 7) (fatal 1))) (emit 200))))",
		"((draw a (u 0 255)) (draw b (u 0 255)) (repeat (check (emit 90)) (act (emit 100) (draw x (u 0 255)) (if (ge a 5) (if (lt a 10) (if (ge x 7) (fatal 1)))) (emit 200)) (act (emit 101) (draw y (slice (u 0 9) 0 3)) (if (ge b 100) (if (lenge y 2) (fatal 2))) (emit 201))))",
	}
	p, _ := parseSX(srcs[r.intn(len(srcs))])
	return p
}

func init() {
	monitors["C01"] = func(r *rng, scale int, m *monOut, tmp string) {
		// one failure site, a message that depends on the drawn values (non-fatal failures share the
		// site of `pendingFailure`): the message Check reports must be the one of the final test case
		sameSite := []string{
			"((draw a (i 0 1000)) (if (ge a 500) (error 1)) (if (lt a 500) (error 3)))",
			"((draw a (slice (i 0 100) 0 8)) (if (lenge a 3) (error 1)) (if (lenlt a 3) (error 2)))",
			"((draw a (u 0 18446744073709551615)) (draw b (bool)) (if (ge a 1000) (error 4)) (if (lt a 1000) (error 5)) (cleanup (emit 40)))",
			// a panic whose value depends on the drawn data: the report must name the value of the minimized case
			"((draw a (slice (i 0 1000) 0 6)) (draw b (i 0 100000)) (if (ge b 1000) (panicv 1 b)))",
			"((draw b (u 0 18446744073709551615)) (draw c (bool)) (if (ge b 77) (panicv 2 b)))",
			// a non-fatal failure on large values, and a cleanup that skips on small ones (where nothing failed): a skipped
			// test case is not "the same failure" as the recorded one
			"((draw n (i 0 1000)) (cleanup (if (lt n 100) (skip))) (if (ge n 500) (error 1)))",
			"((draw n (u 0 18446744073709551615)) (draw b (bool)) (cleanup (if (lt n 7) (skip))) (if (ge n 1000) (fail)))",
			// chained filters: a rejected attempt of the inner filter begins where the rejected attempt of the outer one begins
			"((draw a (filter (filter (u 0 1000) (mod 3 0)) (ge 400))) (draw b (u 0 1000)) (if (mod b 2 1) (fatal 2)) (if (ge a 700) (fatal 1)))",
			"((draw a (filter (filter (filter (i 0 99) (mod 2 0)) (ge 30)) (lt 90))) (draw b (i 0 99)) (draw c (bool)) (if (ge b 50) (error 1)) (if (lt b 50) (if (ge a 60) (fatal 2))))",
			// a Custom function that returns without drawing (the base case of a recursive generator): rapid's own assertion
			// fails the test case — in the generation run, in the reproduce run and in every replay alike
			"((draw a (i 0 9)) (draw v (custom (emit 5))))",
			"((draw b (bool)) (draw a (i 0 99)) (if (istrue b) (draw v (custom (emit 7)))) (if (ge a 90) (fatal 1)))",
			"((draw a (slice (i 0 9) 0 3)) (if (lenge a 2) (draw v (deferred (custom (emit 1))))))",
			// … and with a failure of the property's own behind it: whichever of the two a run reaches, the generation run, the
			// reproduce run (recording) and the replays reach the same one
			"((draw a (i 0 99)) (draw v (custom (emit 7))) (if (ge a 50) (fatal 1)))",
			"((draw a (i 0 99)) (if (ge a 30) (draw v (custom (emit 7)))) (if (ge a 60) (error 2)))",
			// a state machine with an action that draws and then skips (its step is rejected, not retried): the runs Check bases
			// its verdict on do not log, the presented replay does — both must read the bits the same way
			"((repeat (act (emit 100) (draw x (i 0 9)) (if (ge x 5) (skip)) (emit 200)) (act (emit 101) (draw y (i 0 100)) (if (ge y 90) (fatal 2)) (emit 201))))",
			"((draw n (i 0 3)) (repeat (check (emit 90)) (act (emit 100) (draw x (bool)) (if (istrue x) (skip)) (emit 200)) (act (emit 101) (draw y (u 0 255)) (if (ge y 200) (error 3)) (emit 201))))",
		}
		for i := 0; i < 60*scale; i++ {
			var prog *SX
			pick := r.intn(5)
			if i < 2*len(sameSite) {
				pick = 5 // every listed program at least twice
			}
			if i >= 2*len(sameSite) && i%8 == 7 {
				pick = 6
			}
			if i >= 2*len(sameSite) && i%4 == 1 {
				pick = 7
			}
			switch pick {
			case 7:
				// state machines whose actions draw and then skip now and then, with a failure some steps in: the presented
				// replay (a logging T) must read the bits as the runs that found and minimized the failure (which do not log)
				th := 3 + r.intn(6)
				prog = mustSX(fmt.Sprintf("((repeat (act (emit 100) (draw x (i 0 9)) (if (ge x %d) (skip)) (emit 200)) (act (emit 101) (draw y (i 0 100)) (if (ge y %d) (fatal 2)) (emit 201)) (act (emit 102) (draw z (bool)) (if (istrue z) (skip)) (emit 202))))", th, 70+r.intn(25)))
				m.tag("draw-then-skip-actions")
			case 6:
				// the body needs a live context, some cleanups ask for the context too (the `*T` of the generation loop is
				// reused: what a cleanup leaves behind on it must not reach the next test case); most cases pass or skip
				prog = mustSX(fmt.Sprintf("((ctxlive 5) (draw b (i 0 %d)) (draw pad (slice (bool) 0 3)) (if (eq b 0) (cleanup (ctx))) (if (eq b 6) (cleanup (cleanup (ctx)))) (if (eq b 7) (cleanup (skip))) (if (eq b 9) (cleanup (emit 9)) (cleanup (skip))) (if (eq b 2) (skip)) (if (eq b 11) (error 1)))", r.pick(6, 12, 30)))
				m.tag("context-across-test-cases")
			case 5:
				prog = mustSX(sameSite[i%len(sameSite)])
				m.tag("same-site-messages")
			case 0:
				prog = r.engineProgram()
			case 1:
				prog = r.smProgram()
			case 2:
				prog = mustSX(sameSite[r.intn(len(sameSite))])
				m.tag("same-site-messages")
			default:
				prog = r.rejectingProgram()
			}
			fl := baseFlags()
			fl.Checks = int(r.pick(20, 100))
			fl.Seed = r.u64() | 1
			fl.ShrinkTime = []time.Duration{0, 0, 30 * time.Second, time.Duration(1+r.intn(3000)) * time.Microsecond}[r.intn(4)]
			run := runCheckTB(prog, fl, "c01", nil)
			kind, _, _ := verdictMsg(run.verdict)
			m.tag("verdict-" + kind)
			m.tag("shrinktime-" + map[bool]string{true: "zero", false: "nonzero"}[fl.ShrinkTime == 0])
			m.eval(prog.String()+fmt.Sprint(fl.Seed), kind == "failed" || kind == "panic" || kind == "flaky")
			if what := checkReported(run, prog); what != "" {
				p := flagsStr(fl)
				p["prog"] = prog.String()
				p["d2shape"] = fmt.Sprint(runHasD2Shape(run, prog, reportedSeed(run.verdict)))
				p["signal_in_custom"] = fmt.Sprint(runSignalInCustom(run))
				m.violate(violation{"C01", "reported", what, p})
			}
		}
	}
	replayers["reported"] = func(v violation, tmp string) (bool, string) {
		prog, err := parseSX(v.Params["prog"])
		if err != nil {
			return true, "bad program"
		}
		run := runCheckTB(prog, parseFlags(v.Params), "replay", nil)
		what := checkReported(run, prog)
		return what != "", what
	}
}
