package main

import (
	"fmt"
	"math"
	"os"
	"os/exec"
	"path/filepath"
	"reflect"
	"regexp"
	"sort"
	"strconv"
	"strings"
	"sync"
	"time"
	"unicode"
	"unicode/utf8"

	"pgregory.net/rapid"
)

func mustSX(src string) *SX {
	p, err := parseSX(src)
	if err != nil {
		panic(err)
	}
	return p
}

// ---------------------------------------------------------------- C02: every failure signal fails the test

var c02Kinds = []string{"(fatal 1)", "(failnow 1)", "(error 1)", "(fail)", "(panic 1)", "(rtpanic 1)", "(goerror 1)"}

// a non-fatal failure on the T of a Custom generator function (nested `depth` deep) from a goroutine after the function
// has returned: was a failure signalled, did Check fail the test
func c02Late(seed uint64, depth int) (signalled bool, failed bool) {
	fl := baseFlags()
	fl.Checks = 20
	fl.Seed = seed
	fl.ShrinkTime = 0
	tb := newRecTB("c02late")
	var mu sync.Mutex
	prop := func(t *rapid.T) {
		release := make(chan struct{})
		done := make(chan struct{})
		inner := rapid.Custom(func(ct *rapid.T) int {
			v := rapid.IntRange(0, 9).Draw(ct, "c")
			go func() {
				defer close(done)
				<-release
				if v >= 5 {
					mu.Lock()
					signalled = true
					mu.Unlock()
					ct.Errorf("late failure for %d", v)
				}
			}()
			return v
		})
		g := inner
		if depth == 2 {
			g = rapid.Custom(func(ct *rapid.T) int { return inner.Draw(ct, "inner") })
		}
		_ = g.Draw(t, "v")
		close(release)
		<-done
	}
	withFlags(fl, func() { runTB(func() { rapid.VerifCheckTB(tb, farDeadline(), prop) }) })
	return signalled, tb.failed
}

// the failure statement F placed in a callback context
func c02Context(ctx string, f string) string {
	switch ctx {
	case "body":
		return f
	case "action":
		return "(repeat (check (emit 90)) (act (emit 100) (draw q (i 0 3)) " + f + " (emit 200)))"
	case "invariant":
		return "(repeat (check " + f + ") (act (emit 100) (draw q (i 0 3)) (emit 200)))"
	case "custom":
		return "(draw cv (custom (draw c (i 0 9)) " + f + " (ret c)))"
	case "cleanup":
		return "(cleanup " + f + ")"
	case "custom-cleanup":
		return "(draw cv (custom (draw c (i 0 9)) (cleanup " + f + ") (ret c)))"
	case "nested-custom": // a Custom generator drawn inside a Custom generator function
		return "(draw cv (custom (draw c (custom (draw c (i 0 9)) " + f + " (ret c))) (ret c)))"
	case "nested-custom-cleanup":
		return "(draw cv (custom (draw c (custom (draw c (i 0 9)) (cleanup " + f + ") (ret c))) (ret c)))"
	case "custom-element": // a Custom generator as the element of a collection
		return "(draw cv (slice (custom (draw c (i 0 9)) " + f + " (ret c)) 1 3))"
	case "custom-in-action":
		return "(repeat (act (emit 100) (draw q (custom (draw c (custom (draw c (i 0 9)) " + f + " (ret c))) (ret c))) (emit 200)))"
	case "nested-cleanup":
		return "(cleanup (cleanup " + f + "))"
	// the panic of the signal is replaced on its way up by a cleanup that skips
	case "custom-skipping-cleanup":
		return "(draw cv (custom (draw c (i 0 9)) (cleanup (skip)) " + f + " (ret c)))"
	case "custom-under-skipping-cleanup":
		return "(cleanup (skip)) (draw cv (custom (draw c (i 0 9)) " + f + " (ret c)))"
	case "body-skipping-cleanup":
		return "(cleanup (skip)) " + f
	case "action-skipping-cleanup":
		return "(repeat (act (emit 100) (draw q (i 0 3)) (cleanup (skip)) " + f + " (emit 200)))"
	// a deferred function of the user's own code skips while the failure unwinds: a failure that was *recorded* on T
	// (Fatal*, FailNow, Error*, Fail) still falsifies; a plain panic replaced by the user's own defer is beyond rapid's reach
	case "body-deferred-skip":
		return "(defer (skip)) " + f
	case "custom-deferred-skip":
		return "(draw cv (custom (draw c (i 0 9)) (defer (skip)) " + f + " (ret c)))"
	case "action-deferred-skip":
		return "(repeat (act (emit 100) (draw q (i 0 3)) (defer (skip)) " + f + " (emit 200)))"
	case "nested-custom-skipping-cleanup":
		return "(draw cv (custom (cleanup (skip)) (draw c (custom (draw c (i 0 9)) " + f + " (ret c))) (ret c)))"
	case "action-cleanup":
		return "(repeat (act (emit 100) (draw q (i 0 3)) (cleanup " + f + ") (emit 200)))"
	}
	panic(ctx)
}

var c02Contexts = []string{"body", "action", "invariant", "custom", "cleanup", "custom-cleanup", "nested-cleanup", "action-cleanup",
	"nested-custom", "nested-custom-cleanup", "custom-element", "custom-in-action",
	"custom-skipping-cleanup", "custom-under-skipping-cleanup", "body-skipping-cleanup", "action-skipping-cleanup", "nested-custom-skipping-cleanup",
	"body-deferred-skip", "custom-deferred-skip", "action-deferred-skip"}

// where in the run the falsifying case occurs
func c02Position(pos string, stmt string) string {
	switch pos {
	case "first":
		return "(" + stmt + ")"
	case "after-skips": // most cases are skipped, the falsifying one comes late
		return "((draw g (i 0 9)) (if (lt g 8) (skip)) " + stmt + ")"
	case "rare": // only for a value class: passes many times first
		return "((draw g (i 0 99)) (if (ge g 90) " + stmt + "))"
	case "then-skip": // signal, then skip (non-fatal kinds reach the skip)
		return "((draw g (i 0 9)) " + stmt + " (skip))"
	}
	panic(pos)
}

var c02Positions = []string{"first", "after-skips", "rare", "then-skip"}

func init() {
	monitors["C02"] = func(r *rng, scale int, m *monOut, tmp string) {
		for _, k := range c02Kinds {
			for _, cx := range c02Contexts {
				for _, pos := range c02Positions {
					if strings.HasSuffix(cx, "-deferred-skip") && (strings.HasPrefix(k, "(panic") || strings.HasPrefix(k, "(rtpanic")) {
						continue // the user's own deferred function replaces the user's own panic
					}
					src := c02Position(pos, c02Context(cx, k))
					prog := mustSX(src)
					for rep := 0; rep < scale; rep++ {
						fl := baseFlags()
						fl.Checks = 100
						fl.Seed = r.u64() | 1
						fl.ShrinkTime = 0
						run := runCheckTB(prog, fl, "c02", nil)
						m.tag("kind-" + strings.Fields(strings.Trim(k, "()"))[0])
						m.tag("ctx-" + cx)
						m.tag("pos-" + pos)
						m.eval(src, true)
						signalled := false
						for _, inv := range run.in.invs {
							signalled = signalled || inv.signalled
						}
						kind, _, _ := verdictMsg(run.verdict)
						if signalled && (!run.tb.failed || kind == "pass" || kind == "only") {
							p := flagsStr(fl)
							p["prog"] = src
							m.violate(violation{"C02", "lost-signal", fmt.Sprintf("a test case signalled %s in %s (%s) but Check did not report a falsification: %s", k, cx, pos, run.verdict), p})
						}
					}
				}
			}
		}
		// a non-fatal failure signalled on the T of a Custom generator function from a goroutine, after the function
		// has returned (the property waits for the goroutine): it falsifies the test case
		for rep := 0; rep < 3*scale; rep++ {
			for depth := 1; depth <= 2; depth++ {
				seed := r.u64() | 1
				signalled, failed := c02Late(seed, depth)
				m.tag(fmt.Sprintf("late-error-custom-depth%d", depth))
				m.eval(fmt.Sprint("late", depth, seed), true)
				if signalled && !failed {
					m.violate(violation{"C02", "late-signal", fmt.Sprintf("Errorf on the T of a Custom generator function (nesting %d) from a goroutine after the function returned was lost: the test passed", depth),
						map[string]string{"seed": fmt.Sprint(seed), "depth": fmt.Sprint(depth)}})
				}
			}
		}
		// skipping alone never falsifies
		for _, src := range []string{"((skip))", "((draw g (i 0 9)) (if (lt g 5) (skip)))", "((repeat (act (emit 100) (skip))) )", "((draw cv (custom (draw c (i 0 9)) (if (lt c 5) (skip)) (ret c))))"} {
			fl := baseFlags()
			fl.Seed = r.u64() | 1
			run := runCheckTB(mustSX(src), fl, "c02s", nil)
			m.eval(src, true)
			kind, _, msg := verdictMsg(run.verdict)
			if (kind == "failed" || kind == "panic" || kind == "flaky") && !strings.HasPrefix(msg, "can't_find") {
				p := flagsStr(fl)
				p["prog"] = src
				m.violate(violation{"C02", "skip-fails", "skipping alone was reported as a falsification: " + run.verdict, p})
			}
		}
	}
	replayers["late-signal"] = func(v violation, tmp string) (bool, string) {
		seed, _ := strconv.ParseUint(v.Params["seed"], 10, 64)
		depth, _ := strconv.Atoi(v.Params["depth"])
		signalled, failed := c02Late(seed, depth)
		return signalled && !failed, fmt.Sprintf("signalled=%v failed=%v", signalled, failed)
	}
	replayers["lost-signal"] = func(v violation, tmp string) (bool, string) {
		run := runCheckTB(mustSX(v.Params["prog"]), parseFlags(v.Params), "replay", nil)
		signalled := false
		for _, inv := range run.in.invs {
			signalled = signalled || inv.signalled
		}
		kind, _, _ := verdictMsg(run.verdict)
		return signalled && (!run.tb.failed || kind == "pass" || kind == "only"), run.verdict
	}
	replayers["skip-fails"] = func(v violation, tmp string) (bool, string) {
		run := runCheckTB(mustSX(v.Params["prog"]), parseFlags(v.Params), "replay", nil)
		kind, _, _ := verdictMsg(run.verdict)
		return kind == "failed" || kind == "panic" || kind == "flaky", run.verdict
	}
}

// ---------------------------------------------------------------- C03: contracts

// contract of a Spec generator on a produced value; "" = satisfied
func contract(g *SX, v any) string {
	bad := func(format string, args ...any) string {
		return fmt.Sprintf("%s: ", g.Head()) + fmt.Sprintf(format, args...)
	}
	switch g.Head() {
	case "bool":
		if _, ok := v.(bool); !ok {
			return bad("not a bool: %T", v)
		}
	case "u", "i":
		lo, hi := atoBig(g.List[1]), atoBig(g.List[2])
		x := toBig(v)
		if x.Cmp(lo) < 0 || x.Cmp(hi) > 0 {
			return bad("%v outside [%v, %v]", x, lo, hi)
		}
	case "f64", "f32":
		// bounds and value are bit patterns; the contract is about the numbers
		lo, hi := atoBig(g.List[1]).Uint64(), atoBig(g.List[2]).Uint64()
		x := toBig(v).Uint64()
		var fl, fh, fx float64
		if g.Head() == "f64" {
			fl, fh, fx = math.Float64frombits(lo), math.Float64frombits(hi), math.Float64frombits(x)
		} else {
			fl, fh, fx = float64(math.Float32frombits(uint32(lo))), float64(math.Float32frombits(uint32(hi))), float64(math.Float32frombits(uint32(x)))
		}
		if fx != fx || fx < fl || fx > fh {
			return bad("%v outside [%v, %v]", fx, fl, fh)
		}
		if math.IsInf(fx, 0) && !math.IsInf(fl, 0) && !math.IsInf(fh, 0) {
			return bad("infinite value %v for finite bounds [%v, %v]", fx, fl, fh)
		}
	case "sampled":
		x := toBig(v).Int64()
		if x < 0 || x >= int64(atoi(g.List[1])) {
			return bad("%v not in the sampled slice", x)
		}
	case "oneof":
		for _, sub := range g.List[1:] {
			if contract(sub, v) == "" {
				return ""
			}
		}
		return bad("%v satisfies none of the alternatives", showVal(v))
	case "filter":
		if !applyPred(g.List[2], v) {
			return bad("%v does not satisfy the predicate %v", showVal(v), g.List[2])
		}
		return contract(g.List[1], v)
	case "map", "custom":
		return ""
	case "deferred":
		return contract(g.List[1], v)
	case "slice", "distinct":
		sl, ok := v.([]any)
		if !ok {
			return bad("not a slice: %T", v)
		}
		lo, hi := atoi(g.List[2]), atoi(g.List[3])
		if len(sl) < lo || (hi >= 0 && len(sl) > hi) {
			return bad("length %d outside [%d, %d]", len(sl), lo, hi)
		}
		seen := map[string]bool{}
		for _, e := range sl {
			if c := contract(g.List[1], e); c != "" {
				return c
			}
			if g.Head() == "distinct" {
				k := showVal(applyFn(g.List[4], e))
				if seen[k] {
					return bad("duplicate key %s in %s", k, showVal(v))
				}
				seen[k] = true
			}
		}
	case "mapof", "mapvals":
		mp, ok := v.(map[any]any)
		if !ok {
			return bad("not a map: %T", v)
		}
		li, hiI := 3, 4
		if g.Head() == "mapvals" {
			li, hiI = 2, 3
		}
		lo, hi := atoi(g.List[li]), atoi(g.List[hiI])
		if len(mp) < lo || (hi >= 0 && len(mp) > hi) {
			return bad("size %d outside [%d, %d]", len(mp), lo, hi)
		}
		for k, e := range mp {
			if g.Head() == "mapof" {
				if c := contract(g.List[1], k); c != "" {
					return c
				}
				if c := contract(g.List[2], e); c != "" {
					return c
				}
			} else {
				if c := contract(g.List[1], e); c != "" {
					return c
				}
				if showVal(applyFn(g.List[4], e)) != showVal(k) {
					return bad("key %s is not keyFn(value %s)", showVal(k), showVal(e))
				}
			}
		}
	case "ptr":
		p, ok := v.(*any)
		if !ok {
			return bad("not a pointer: %T", v)
		}
		if p == nil {
			if g.List[2].Atom != "true" {
				return bad("nil pointer although allowNil=false")
			}
			return ""
		}
		return contract(g.List[1], *p)
	case "perm":
		sl, ok := v.([]any)
		n := atoi(g.List[1])
		if !ok || len(sl) != n {
			return bad("not a permutation of %d elements: %s", n, showVal(v))
		}
		seen := make([]bool, n)
		for _, e := range sl {
			x := toBig(e).Int64()
			if x < 0 || x >= int64(n) || seen[x] {
				return bad("not a permutation: %s", showVal(v))
			}
			seen[x] = true
		}
	case "runes":
		x := toBig(v).Int64()
		for _, a := range g.List[1:] {
			if int64(atoi(a)) == x {
				return ""
			}
		}
		return bad("rune %d not in the given set", x)
	case "string":
		s, ok := v.(string)
		if !ok {
			return bad("not a string: %T", v)
		}
		if !utf8.ValidString(s) {
			return bad("invalid UTF-8 %q", s)
		}
		n := utf8.RuneCountInString(s)
		lo, hi, ml := atoi(g.List[2]), atoi(g.List[3]), atoi(g.List[4])
		if n < lo || (hi >= 0 && n > hi) {
			return bad("%d runes outside [%d, %d]", n, lo, hi)
		}
		if ml >= 0 && len(s) > ml {
			return bad("%d bytes > maxLen %d", len(s), ml)
		}
	}
	return ""
}

func neq[V comparable](got, want V) string {
	if got != want {
		return fmt.Sprintf("%v, the only allowed value is %v", got, want)
	}
	return ""
}

// draw from a native generator on a stream, reporting contract violations, internal
// assertion failures and hangs
type c03Node struct {
	ID   int
	Kids []c03Node
}

var c03Kids *rapid.Generator[[]c03Node]

func init() {
	depth := 0 // one draw at a time (nativeDraw waits for its goroutine)
	node := rapid.Custom(func(t *rapid.T) c03Node {
		n := c03Node{ID: rapid.IntRange(0, 3).Draw(t, "id")}
		if depth < 4 {
			depth++
			defer func() { depth-- }()
			n.Kids = c03Kids.Draw(t, "kids")
		}
		return n
	})
	c03Kids = rapid.Deferred(func() *rapid.Generator[[]c03Node] {
		return rapid.SliceOfNDistinct(node, 0, 3, func(n c03Node) int { return n.ID })
	})
}

func c03TreeDistinct(kids []c03Node) string {
	seen := map[int]bool{}
	for _, k := range kids {
		if seen[k.ID] {
			return fmt.Sprintf("two children with ID %d in %v", k.ID, kids)
		}
		seen[k.ID] = true
		if what := c03TreeDistinct(k.Kids); what != "" {
			return what
		}
	}
	if len(kids) > 3 {
		return fmt.Sprintf("%d children, at most 3 allowed", len(kids))
	}
	return ""
}

func nativeDraw[V any](name string, g *rapid.Generator[V], ws []uint64, usePRNG bool, seed uint64, check func(V) string) (what string, invalid bool) {
	var s *rapid.VerifStream
	if usePRNG {
		s = rapid.VerifRandStream(seed, false)
	} else {
		s = rapid.VerifBufStream(ws, false)
	}
	t := rapid.VerifNewT(newRecTB("c03"), s, false)
	done := make(chan struct{})
	go func() {
		defer close(done)
		defer func() {
			if r := recover(); r != nil {
				if fmt.Sprintf("%T", r) == "rapid.invalidData" {
					invalid = true
					return
				}
				what = fmt.Sprintf("%s: panic %v", name, r)
			}
		}()
		v := rapid.VerifValue(g, t)
		what = check(v)
		if what != "" {
			what = name + ": " + what
		}
	}()
	select {
	case <-done:
	case <-time.After(20 * time.Second):
		return name + ": no result within 20s (loops forever?)", false
	}
	return
}

func f64Interesting(r *rng) float64 {
	switch r.intn(14) {
	case 0:
		return 0
	case 1:
		return math.Copysign(0, -1)
	case 2:
		return math.Inf(1)
	case 3:
		return math.Inf(-1)
	case 4:
		return math.MaxFloat64
	case 5:
		return -math.MaxFloat64
	case 6:
		return math.SmallestNonzeroFloat64
	case 7:
		return -math.SmallestNonzeroFloat64
	case 8:
		return math.Float64frombits(r.u64() & 0x000fffffffffffff) // denormal
	case 9:
		return float64(int64(r.intn(2000)) - 1000)
	case 10:
		return math.Float64frombits(r.u64()&0x7fefffffffffffff | uint64(r.intn(2))<<63)
	case 11:
		return 1 / float64(1+r.intn(1000))
	default:
		return (float64(r.u64()>>11)/float64(1<<53) - 0.5) * math.Pow(2, float64(r.intn(200)-100))
	}
}

func f32Interesting(r *rng) float32 {
	switch r.intn(10) {
	case 0:
		return 0
	case 1:
		return float32(math.Copysign(0, -1))
	case 2:
		return float32(math.Inf(1))
	case 3:
		return float32(math.Inf(-1))
	case 4:
		return math.MaxFloat32
	case 5:
		return -math.MaxFloat32
	case 6:
		return math.SmallestNonzeroFloat32
	case 7:
		return math.Float32frombits(uint32(r.u64()) & 0x007fffff)
	case 8:
		f := math.Float32frombits(uint32(r.u64()))
		if f != f {
			return 1
		}
		return f
	default:
		return float32(int64(r.intn(2000)) - 1000)
	}
}

// defined types of every kind: Make must produce values of exactly these types, at the top level and
// nested in structs, slices, arrays, maps and pointers
type (
	defStr   string
	defInt   int16
	defBool  bool
	defF32   float32
	defSlice []defStr
	defMap   map[defStr]defInt
	defArr   [2]defStr
	defPtr   *defStr
)

type makeZoo struct {
	S  defStr
	I  defInt
	B  defBool
	F  defF32
	Sl defSlice
	M  defMap
	A  defArr
	P  defPtr
	PS *defStr
	MS map[defInt][]defStr
}

type makeStruct struct {
	A int8
	B []uint16
	C map[bool]string
	D *float32
	E [2]byte
}

func init() {
	monitors["C03"] = func(r *rng, scale int, m *monOut, tmp string) {
		report := func(kind, what string, p map[string]string) {
			m.violate(violation{"C03", kind, what, p})
		}
		// Spec generators on adversarial buffers and on the PRNG
		for i := 0; i < 1500*scale; i++ {
			r.customFatal = 8 // no failing Custom functions here: a failure of user code is not a broken contract
			sx, _ := r.anyGen(1 + r.intn(3))
			usePRNG := r.chance(1, 3)
			ws := r.words(40)
			seed := r.u64()
			in := newInterp(L(), false)
			g := in.b.gen(sx)
			what, invalid := nativeDraw(sx.String(), g, ws, usePRNG, seed, func(v any) string { return contract(sx, v) })
			m.tag("spec-" + sx.Head())
			if invalid {
				m.tag("invalid")
			}
			m.eval(sx.String()+joinU64(ws)+fmt.Sprint(usePRNG, seed), !invalid)
			if what != "" {
				report("contract", what, map[string]string{"gen": sx.String(), "words": joinU64(ws), "prng": fmt.Sprint(usePRNG), "seed": fmt.Sprint(seed)})
			}
		}
		// runes drawn from a table of the user's own belong to that table — also when another table with the same bounds
		// (another stride, the other range width) was used before
		for pass := 0; pass < 2; pass++ {
			tabs := []*unicode.RangeTable{
				{R16: []unicode.Range16{{Lo: 0x2500, Hi: 0x257e, Stride: 1}}}, {R16: []unicode.Range16{{Lo: 0x2500, Hi: 0x257e, Stride: 2}}},
				{R32: []unicode.Range32{{Lo: 0x2500, Hi: 0x257e, Stride: 3}}}, {R16: []unicode.Range16{{Lo: 0x41, Hi: 0x5a, Stride: 5}}, LatinOffset: 1},
				{R16: []unicode.Range16{{Lo: 0x41, Hi: 0x5a, Stride: 1}}, LatinOffset: 1}, {R16: []unicode.Range16{{Lo: 0x3000, Hi: 0x303c, Stride: 6}}},
				{R16: []unicode.Range16{{Lo: 0x3000, Hi: 0x303c, Stride: 4}}}}
			for ti := range tabs {
				tab := tabs[ti]
				if pass == 1 {
					tab = tabs[len(tabs)-1-ti]
				}
				name := fmt.Sprintf("%+v", *tab)
				what := ""
				func() {
					defer func() {
						if p := recover(); p != nil {
							what = fmt.Sprintf("RuneFrom(nil, %s): panic %v", name, p)
						}
					}()
					g := rapid.StringOfN(rapid.RuneFrom(nil, tab), 1, 8, -1)
					t := rapid.VerifNewT(newRecTB("rt"), rapid.VerifRandStream(r.u64(), false), false)
					for k := 0; k < 40 && what == ""; k++ {
						for _, c := range rapid.VerifValue(g, t) {
							if !unicode.Is(tab, c) {
								what = fmt.Sprintf("StringOf(RuneFrom(nil, %s)) contains %U, which is not in the table", name, c)
							}
						}
					}
				}()
				m.tag("rune-table-membership")
				m.eval(fmt.Sprint("rune-table-membership ", pass, ti), true)
				if what != "" {
					report("rune-table", what, map[string]string{"table": name})
				}
			}
		}
		// floats at the extremes
		for i := 0; i < 1500*scale; i++ {
			usePRNG := r.chance(1, 3)
			ws := r.words(12)
			seed := r.u64()
			if r.chance(1, 2) {
				lo, hi := f64Interesting(r), f64Interesting(r)
				if lo > hi {
					lo, hi = hi, lo
				}
				if r.chance(1, 8) {
					hi = math.Nextafter(lo, math.Inf(1))
				}
				if r.chance(1, 10) {
					hi = lo
				}
				name := fmt.Sprintf("Float64Range(%#x,%#x)", math.Float64bits(lo), math.Float64bits(hi))
				what, invalid := nativeDraw(name, rapid.Float64Range(lo, hi), ws, usePRNG, seed, func(f float64) string {
					if f != f {
						return "NaN"
					}
					if f < lo || f > hi {
						return fmt.Sprintf("%v (%#x) outside [%v, %v]", f, math.Float64bits(f), lo, hi)
					}
					if math.IsInf(f, 0) && !math.IsInf(lo, 0) && !math.IsInf(hi, 0) {
						return "infinite value from finite bounds"
					}
					return ""
				})
				m.tag("float64")
				m.eval(name+joinU64(ws)+fmt.Sprint(usePRNG, seed), !invalid)
				if what != "" {
					report("float64", what, map[string]string{"lo": fmt.Sprint(math.Float64bits(lo)), "hi": fmt.Sprint(math.Float64bits(hi)), "words": joinU64(ws), "prng": fmt.Sprint(usePRNG), "seed": fmt.Sprint(seed)})
				}
			} else {
				lo, hi := f32Interesting(r), f32Interesting(r)
				if lo > hi {
					lo, hi = hi, lo
				}
				if r.chance(1, 8) {
					hi = math.Nextafter32(lo, float32(math.Inf(1)))
				}
				name := fmt.Sprintf("Float32Range(%#x,%#x)", math.Float32bits(lo), math.Float32bits(hi))
				what, invalid := nativeDraw(name, rapid.Float32Range(lo, hi), ws, usePRNG, seed, func(f float32) string {
					if f != f {
						return "NaN"
					}
					if f < lo || f > hi {
						return fmt.Sprintf("%v (%#x) outside [%v, %v]", f, math.Float32bits(f), lo, hi)
					}
					if math.IsInf(float64(f), 0) && !math.IsInf(float64(lo), 0) && !math.IsInf(float64(hi), 0) {
						return "infinite value from finite bounds"
					}
					return ""
				})
				m.tag("float32")
				m.eval(name+joinU64(ws)+fmt.Sprint(usePRNG, seed), !invalid)
				if what != "" {
					report("float32", what, map[string]string{"lo": fmt.Sprint(math.Float32bits(lo)), "hi": fmt.Sprint(math.Float32bits(hi)), "words": joinU64(ws), "prng": fmt.Sprint(usePRNG), "seed": fmt.Sprint(seed)})
				}
			}
		}
		// the shorthand constructors (Float64Min/Max, Float32Min/Max, Float64, Float32) at special bounds: either the
		// constructor refuses the bound, or every draw is a value of the documented range (no assertion, no NaN)
		for _, b := range []float64{math.Inf(1), math.Inf(-1), 0, math.Copysign(0, -1), math.MaxFloat64, -math.MaxFloat64, math.SmallestNonzeroFloat64, 1.5, -1.5, math.NaN()} {
			for k := 0; k < 4; k++ {
				b := b
				var name string
				var g64 *rapid.Generator[float64]
				var g32 *rapid.Generator[float32]
				var lo, hi float64
				built := func() (ok bool) {
					defer func() {
						if recover() != nil {
							ok = false
						}
					}()
					switch k {
					case 0:
						name, lo, hi = fmt.Sprintf("Float64Min(%v)", b), b, math.MaxFloat64
						g64 = rapid.Float64Min(b)
					case 1:
						name, lo, hi = fmt.Sprintf("Float64Max(%v)", b), -math.MaxFloat64, b
						g64 = rapid.Float64Max(b)
					case 2:
						name, lo, hi = fmt.Sprintf("Float32Min(%v)", b), float64(float32(b)), math.MaxFloat32
						g32 = rapid.Float32Min(float32(b))
					default:
						name, lo, hi = fmt.Sprintf("Float32Max(%v)", b), -math.MaxFloat32, float64(float32(b))
						g32 = rapid.Float32Max(float32(b))
					}
					return true
				}()
				m.tag("float-shorthand")
				m.eval(fmt.Sprintf("float-shorthand %d %v", k, b), built)
				if !built {
					continue // refused at construction: fine
				}
				if b != b || lo > hi {
					report("float-shorthand", fmt.Sprintf("%s: the constructor accepted a bound that leaves no value", name), map[string]string{"k": fmt.Sprint(k), "bound": fmt.Sprint(math.Float64bits(b))})
					continue
				}
				for j := 0; j < 6; j++ {
					ws := r.words(12)
					if j == 0 {
						ws = make([]uint64, 12)
					}
					var what string
					chk := func(f float64) string {
						if f != f {
							return "NaN"
						}
						if f < lo || f > hi {
							return fmt.Sprintf("%v outside [%v, %v]", f, lo, hi)
						}
						return ""
					}
					if g64 != nil {
						what, _ = nativeDraw(name, g64, ws, j%2 == 1, r.u64(), chk)
					} else {
						what, _ = nativeDraw(name, g32, ws, j%2 == 1, r.u64(), func(f float32) string { return chk(float64(f)) })
					}
					if what != "" {
						report("float-shorthand", what, map[string]string{"k": fmt.Sprint(k), "bound": fmt.Sprint(math.Float64bits(b)), "words": joinU64(ws)})
					}
				}
			}
		}
		// every sized integer kind at its own extremes
		for i := 0; i < 600*scale; i++ {
			ws := r.words(8)
			usePRNG := r.chance(1, 3)
			seed := r.u64()
			var what string
			var invalid bool
			switch r.intn(6) {
			case 0:
				lo, hi := int8(r.u64()), int8(r.u64())
				if lo > hi {
					lo, hi = hi, lo
				}
				what, invalid = nativeDraw(fmt.Sprintf("Int8Range(%d,%d)", lo, hi), rapid.Int8Range(lo, hi), ws, usePRNG, seed, func(v int8) string {
					if v < lo || v > hi {
						return fmt.Sprintf("%d out of range", v)
					}
					return ""
				})
			case 1:
				lo := int16(r.u64())
				what, invalid = nativeDraw(fmt.Sprintf("Int16Min(%d)", lo), rapid.Int16Min(lo), ws, usePRNG, seed, func(v int16) string {
					if v < lo {
						return fmt.Sprintf("%d < min", v)
					}
					return ""
				})
			case 2:
				hi := uint32(r.u64())
				what, invalid = nativeDraw(fmt.Sprintf("Uint32Max(%d)", hi), rapid.Uint32Max(hi), ws, usePRNG, seed, func(v uint32) string {
					if v > hi {
						return fmt.Sprintf("%d > max", v)
					}
					return ""
				})
			case 3:
				what, invalid = nativeDraw("Byte()", rapid.Byte(), ws, usePRNG, seed, func(v byte) string { return "" })
			case 4:
				hi := int32(r.u64())
				what, invalid = nativeDraw(fmt.Sprintf("Int32Max(%d)", hi), rapid.Int32Max(hi), ws, usePRNG, seed, func(v int32) string {
					if v > hi {
						return fmt.Sprintf("%d > max", v)
					}
					return ""
				})
			default:
				lo := uint64(r.ubound())
				what, invalid = nativeDraw(fmt.Sprintf("Uint64Min(%d)", lo), rapid.Uint64Min(lo), ws, usePRNG, seed, func(v uint64) string {
					if v < lo {
						return fmt.Sprintf("%d < min", v)
					}
					return ""
				})
			}
			m.tag("sized-int")
			m.eval(fmt.Sprint(i, seed), !invalid)
			if what != "" {
				report("sized-int", what, map[string]string{"words": joinU64(ws), "prng": fmt.Sprint(usePRNG), "seed": fmt.Sprint(seed)})
			}
		}
		// a distinct-slice generator that is re-entered while it is filling a slice (children of a tree node, distinct by
		// ID, built from the same generator value through Deferred): distinct at every level
		for i := 0; i < 120*scale; i++ {
			seed := r.u64()
			m.tag("recursive-distinct")
			what, invalid := nativeDraw("recursive SliceOfNDistinct(node, 0, 3, ID)", c03Kids, nil, true, seed, c03TreeDistinct)
			m.eval("recdistinct"+fmt.Sprint(seed), !invalid)
			if what != "" {
				report("recursive-distinct", what, map[string]string{"seed": fmt.Sprint(seed)})
			}
		}
		// one-point domains at the extremes of every kind: the only allowed value, no assertion
		{
			ws := r.words(8)
			seed := r.u64()
			pt := func(what string, invalid bool) {
				m.tag("kind-extreme")
				m.eval(what+fmt.Sprint(seed), !invalid)
				if what != "" {
					report("sized-int", what, map[string]string{"words": joinU64(ws), "prng": "false", "seed": fmt.Sprint(seed)})
				}
			}
			pt(nativeDraw("Int8Max(MinInt8)", rapid.Int8Max(math.MinInt8), ws, false, seed, func(v int8) string { return neq(v, int8(math.MinInt8)) }))
			pt(nativeDraw("Int8Min(MaxInt8)", rapid.Int8Min(math.MaxInt8), ws, false, seed, func(v int8) string { return neq(v, int8(math.MaxInt8)) }))
			pt(nativeDraw("Int16Max(MinInt16)", rapid.Int16Max(math.MinInt16), ws, false, seed, func(v int16) string { return neq(v, int16(math.MinInt16)) }))
			pt(nativeDraw("Int16Min(MaxInt16)", rapid.Int16Min(math.MaxInt16), ws, false, seed, func(v int16) string { return neq(v, int16(math.MaxInt16)) }))
			pt(nativeDraw("Int32Max(MinInt32)", rapid.Int32Max(math.MinInt32), ws, false, seed, func(v int32) string { return neq(v, int32(math.MinInt32)) }))
			pt(nativeDraw("Int32Min(MaxInt32)", rapid.Int32Min(math.MaxInt32), ws, false, seed, func(v int32) string { return neq(v, int32(math.MaxInt32)) }))
			pt(nativeDraw("Int64Max(MinInt64)", rapid.Int64Max(math.MinInt64), ws, false, seed, func(v int64) string { return neq(v, int64(math.MinInt64)) }))
			pt(nativeDraw("Int64Min(MaxInt64)", rapid.Int64Min(math.MaxInt64), ws, false, seed, func(v int64) string { return neq(v, int64(math.MaxInt64)) }))
			pt(nativeDraw("IntMax(MinInt)", rapid.IntMax(math.MinInt), ws, false, seed, func(v int) string { return neq(v, math.MinInt) }))
			pt(nativeDraw("IntMin(MaxInt)", rapid.IntMin(math.MaxInt), ws, false, seed, func(v int) string { return neq(v, math.MaxInt) }))
			pt(nativeDraw("Uint8Min(MaxUint8)", rapid.Uint8Min(math.MaxUint8), ws, false, seed, func(v uint8) string { return neq(v, uint8(math.MaxUint8)) }))
			pt(nativeDraw("Uint16Min(MaxUint16)", rapid.Uint16Min(math.MaxUint16), ws, false, seed, func(v uint16) string { return neq(v, uint16(math.MaxUint16)) }))
			pt(nativeDraw("Uint32Min(MaxUint32)", rapid.Uint32Min(math.MaxUint32), ws, false, seed, func(v uint32) string { return neq(v, uint32(math.MaxUint32)) }))
			pt(nativeDraw("Uint64Min(MaxUint64)", rapid.Uint64Min(math.MaxUint64), ws, false, seed, func(v uint64) string { return neq(v, uint64(math.MaxUint64)) }))
			pt(nativeDraw("UintMin(MaxUint)", rapid.UintMin(math.MaxUint), ws, false, seed, func(v uint) string { return neq(v, uint(math.MaxUint)) }))
			pt(nativeDraw("ByteMin(255)", rapid.ByteMin(255), ws, false, seed, func(v byte) string { return neq(v, byte(255)) }))
			pt(nativeDraw("Uint32Max(0)", rapid.Uint32Max(0), ws, false, seed, func(v uint32) string { return neq(v, uint32(0)) }))
		}
		// strings, regexps, Make
		exprs := []string{`[a-z]{2,5}`, `^\d+$`, `(?i)abc|xyz`, `\w*\s?\pL+`, `a.c`, `^$`, `[^\n]{0,3}\b`, `(foo|ba[rz])+`, `\x00[\x{10000}-\x{10FFFF}]?`,
			// without anchors or word boundaries, and still not "whatever the builder writes matches": classes that reach into the
			// surrogates (written as U+FFFD), alternations that mix case-folded and plain branches, negated classes
			`[\x{D7FB}-\x{E000}]`, `(?i:k)|x`, `[^a-z]{1,3}`, `(?i:s)|t`, `[\x{D800}-\x{DFFF}a]+`, `(?i:ab)|cd|[E-G]`}
		// every expression with both generators on a few dozen seeds: whatever is generated matches
		for _, expr := range exprs {
			re := regexp.MustCompile(expr)
			for k := 0; k < 30; k++ {
				seed := r.u64()
				what, _ := nativeDraw("StringMatching("+expr+")", rapid.StringMatching(expr), nil, true, seed, func(s string) string {
					if !re.MatchString(s) {
						return fmt.Sprintf("%q does not match", s)
					}
					return ""
				})
				if what == "" {
					what, _ = nativeDraw("SliceOfBytesMatching("+expr+")", rapid.SliceOfBytesMatching(expr), nil, true, seed, func(s []byte) string {
						if !re.Match(s) {
							return fmt.Sprintf("%q does not match", s)
						}
						return ""
					})
				}
				m.tag("regexp-sweep")
				m.eval("regexp-sweep"+expr+fmt.Sprint(seed), true)
				if what != "" {
					report("native", what, map[string]string{"seed": fmt.Sprint(seed), "prng": "true", "words": ""})
					break
				}
			}
		}
		// Make of same-named types from different scopes: each draw yields a value of the requested type (no panic inside
		// Make or reflect), whichever type of that name was given to Make first
		for i := 0; i < 4*scale; i++ {
			ws := r.words(8)
			a1i, a1r := c04MakeScope1a(ws)
			b1i, b1r := c04MakeScope1b(ws)
			b2i, b2r := c04MakeScope2b(ws)
			a2i, a2r := c04MakeScope2a(ws)
			m.tag("make-same-name-contract")
			m.eval("make-names-contract|"+joinU64(ws), true)
			for _, res := range []string{a1i, a1r, b1i, b1r, b2i, b2r, a2i, a2r} {
				if strings.HasPrefix(res, "panic: ") {
					report("native", "Make of a type whose name another type (of another scope) has as well: "+res, map[string]string{"words": joinU64(ws), "seed": "0", "prng": "false"})
					break
				}
			}
		}
		for i := 0; i < 300*scale; i++ {
			ws := r.words(60)
			usePRNG := r.chance(1, 2)
			seed := r.u64()
			expr := exprs[r.intn(len(exprs))]
			re := regexp.MustCompile(expr)
			var what string
			var invalid bool
			switch r.intn(8) {
			case 5:
				what, invalid = nativeDraw("Make[makeZoo]", rapid.Make[makeZoo](), ws, usePRNG, seed, func(v makeZoo) string {
					if !utf8.ValidString(string(v.S)) {
						return "invalid UTF-8 in a defined string"
					}
					return ""
				})
			case 6:
				switch r.intn(6) {
				case 0:
					what, invalid = nativeDraw("Make[defStr]", rapid.Make[defStr](), ws, usePRNG, seed, func(v defStr) string { return "" })
				case 1:
					what, invalid = nativeDraw("Make[defSlice]", rapid.Make[defSlice](), ws, usePRNG, seed, func(v defSlice) string { return "" })
				case 2:
					what, invalid = nativeDraw("Make[defMap]", rapid.Make[defMap](), ws, usePRNG, seed, func(v defMap) string { return "" })
				case 3:
					what, invalid = nativeDraw("Make[defArr]", rapid.Make[defArr](), ws, usePRNG, seed, func(v defArr) string { return "" })
				case 4:
					what, invalid = nativeDraw("Make[[]defBool]", rapid.Make[[]defBool](), ws, usePRNG, seed, func(v []defBool) string { return "" })
				default:
					what, invalid = nativeDraw("Make[*defInt]", rapid.Make[*defInt](), ws, usePRNG, seed, func(v *defInt) string { return "" })
				}
			case 7:
				what, invalid = nativeDraw("Make[map[defStr]defF32]", rapid.Make[map[defStr]defF32](), ws, usePRNG, seed, func(v map[defStr]defF32) string { return "" })
			case 0:
				what, invalid = nativeDraw("StringMatching("+expr+")", rapid.StringMatching(expr), ws, usePRNG, seed, func(s string) string {
					if !re.MatchString(s) {
						return fmt.Sprintf("%q does not match", s)
					}
					return ""
				})
			case 1:
				what, invalid = nativeDraw("SliceOfBytesMatching("+expr+")", rapid.SliceOfBytesMatching(expr), ws, usePRNG, seed, func(s []byte) string {
					if !re.Match(s) {
						return fmt.Sprintf("%q does not match", s)
					}
					return ""
				})
			case 2:
				lo, hi := r.smallRange()
				ml := -1
				if r.chance(1, 2) {
					ml = r.intn(12)
					if hi > ml {
						ml = hi
					}
					if hi < 0 && ml >= 0 {
						// maxLen must be >= maxRunes only when maxRunes is given
					}
				}
				if hi < 0 && ml >= 0 && lo > ml {
					ml = lo
				}
				what, invalid = nativeDraw(fmt.Sprintf("StringN(%d,%d,%d)", lo, hi, ml), rapid.StringN(lo, hi, ml), ws, usePRNG, seed, func(s string) string {
					n := utf8.RuneCountInString(s)
					switch {
					case !utf8.ValidString(s):
						return fmt.Sprintf("invalid UTF-8 %q", s)
					case n < lo || (hi >= 0 && n > hi):
						return fmt.Sprintf("%d runes outside [%d,%d]", n, lo, hi)
					case ml >= 0 && len(s) > ml:
						return fmt.Sprintf("%d bytes > %d", len(s), ml)
					}
					return ""
				})
			case 3:
				what, invalid = nativeDraw("Make[makeStruct]", rapid.Make[makeStruct](), ws, usePRNG, seed, func(v makeStruct) string {
					if reflect.TypeOf(v) != reflect.TypeOf(makeStruct{}) {
						return "wrong dynamic type"
					}
					for _, s := range v.C {
						if !utf8.ValidString(s) {
							return "invalid UTF-8 in map value"
						}
					}
					return ""
				})
			default:
				what, invalid = nativeDraw("Make[map[int8][]*uint]", rapid.Make[map[int8][]*uint](), ws, usePRNG, seed, func(v map[int8][]*uint) string { return "" })
			}
			m.tag("strings-regexp-make")
			m.eval(fmt.Sprint(i, seed, expr), !invalid)
			if what != "" {
				report("native", what, map[string]string{"words": joinU64(ws), "prng": fmt.Sprint(usePRNG), "seed": fmt.Sprint(seed), "expr": expr})
			}
		}
	}
	replayers["recursive-distinct"] = func(v violation, tmp string) (bool, string) {
		seed, _ := strconv.ParseUint(v.Params["seed"], 10, 64)
		what, _ := nativeDraw("recursive SliceOfNDistinct(node, 0, 3, ID)", c03Kids, nil, true, seed, c03TreeDistinct)
		return what != "", what
	}
	replayers["contract"] = func(v violation, tmp string) (bool, string) {
		sx := mustSX(v.Params["gen"])
		in := newInterp(L(), false)
		seed, _ := strconv.ParseUint(v.Params["seed"], 10, 64)
		what, _ := nativeDraw(sx.String(), in.b.gen(sx), parseWordsGo(v.Params["words"]), v.Params["prng"] == "true", seed, func(x any) string { return contract(sx, x) })
		return what != "", what
	}
}

func parseWordsGo(s string) []uint64 {
	var out []uint64
	for _, t := range strings.Split(s, ",") {
		if t == "" {
			continue
		}
		u, _ := strconv.ParseUint(t, 10, 64)
		out = append(out, u)
	}
	return out
}

// ---------------------------------------------------------------- C04: same bits, same test case

// run a program once on a stream; value log + outcome
func runOnce(prog *SX, s *rapid.VerifStream) (string, rapid.VerifErr, *interp) {
	in := newInterp(prog, false)
	var e rapid.VerifErr
	runTB(func() { e = rapid.VerifCheckOnce(rapid.VerifNewT(newRecTB("c04"), s, false), in.prop) })
	draws := ""
	if len(in.invs) > 0 {
		draws = strings.Join(in.invs[0].vals, ";")
	}
	return draws, e, in
}

func outcomeClass(e rapid.VerifErr) string {
	if e.IsNil() {
		return "pass"
	}
	return e.Kind() + ":" + e.Msg()
}

// record on seed, replay as recorded and pruned; "" if the property holds
func checkReplay(prog *SX, seed uint64) (what string, nontrivial bool) {
	what, nontrivial, _ = checkReplay2(prog, seed)
	return
}

var lastSignalInCustom bool // set by checkReplay2: the recorded run signalled a failure inside a Custom function

func checkReplay2(prog *SX, seed uint64) (what string, nontrivial bool, isD2 bool) {
	s := rapid.VerifRandStream(seed, true)
	d1, e1, in1 := runOnce(prog, s)
	lastSignalInCustom = len(in1.invs) > 0 && in1.invs[0].signalInCustom
	rec := s.Rec()
	isD2 = d2Shape(rec)
	hasDiscard := false
	for _, g := range rec.Groups {
		hasDiscard = hasDiscard || g.Discard
	}
	// as recorded
	d2, e2, _ := runOnce(prog, rapid.VerifBufStream(rec.Data, false))
	if d1 != d2 || outcomeClass(e1) != outcomeClass(e2) {
		return fmt.Sprintf("replaying the recorded bits gives [%s] %s instead of [%s] %s", d2, outcomeClass(e2), d1, outcomeClass(e1)), hasDiscard, isD2
	}
	if e1.Kind() == "invalid" {
		return "", false, isD2
	}
	// same seed again
	d3, e3, _ := runOnce(prog, rapid.VerifRandStream(seed, false))
	if d1 != d3 || outcomeClass(e1) != outcomeClass(e3) {
		return fmt.Sprintf("same seed gives [%s] %s then [%s] %s", d1, outcomeClass(e1), d3, outcomeClass(e3)), hasDiscard, isD2
	}
	// same seed on a T that logs (as the T of the final run of Check does): logging does not change what is drawn
	{
		in5 := newInterp(prog, false)
		var e5 rapid.VerifErr
		runTB(func() {
			e5 = rapid.VerifCheckOnce(rapid.VerifNewT(newRecTB("c04log"), rapid.VerifRandStream(seed, false), true), in5.prop)
		})
		d5 := ""
		if len(in5.invs) > 0 {
			d5 = strings.Join(in5.invs[0].vals, ";")
		}
		if d1 != d5 || outcomeClass(e1) != outcomeClass(e5) {
			return fmt.Sprintf("same seed on a T that logs its draws gives [%s] %s, on a quiet T [%s] %s", d5, outcomeClass(e5), d1, outcomeClass(e1)), hasDiscard, isD2
		}
	}
	// pruned
	var pruned rapid.VerifRec
	prunePanic := runTB(func() { pruned = rapid.VerifPrune(rec) })
	if prunePanic != nil {
		// prune() is what shrink() starts with on the recording of a failing run; a panic there kills Check
		return fmt.Sprintf("prune() of the recording panics: %v", prunePanic), hasDiscard, isD2
	}
	d4, e4, _ := runOnce(prog, rapid.VerifBufStream(pruned.Data, false))
	if d1 != d4 || outcomeClass(e1) != outcomeClass(e4) {
		return fmt.Sprintf("replaying the pruned bits (%d of %d words) gives [%s] %s instead of [%s] %s", len(pruned.Data), len(rec.Data), d4, outcomeClass(e4), d1, outcomeClass(e1)), hasDiscard, isD2
	}
	return "", hasDiscard, isD2
}

func init() {
	monitors["C04"] = func(r *rng, scale int, m *monOut, tmp string) {
		for i := 0; i < 400*scale; i++ {
			var prog *SX
			switch r.intn(4) {
			case 0:
				prog = r.program(5)
			case 1:
				prog = r.smProgram()
			default:
				prog = r.rejectingProgram()
			}
			seed := r.u64()
			what, nontrivial, d2 := checkReplay2(prog, seed)
			if nontrivial {
				m.tag("recording-with-discarded-groups")
			}
			if d2 {
				m.tag("recording-with-D2-shape")
			}
			m.eval(prog.String()+fmt.Sprint(seed), nontrivial)
			if what != "" {
				m.violate(violation{"C04", "replay", what, map[string]string{"prog": prog.String(), "seed": fmt.Sprint(seed), "d2shape": fmt.Sprint(d2), "signal_in_custom": fmt.Sprint(lastSignalInCustom)}})
			}
		}
		// a value handed out belongs to the caller: changing it in place must not change what the generator produces
		// from the same bits afterwards (all-zero words give the "smallest" values: identity permutations, …)
		for k := 0; k < c04AliasGens; k++ {
			for i := 0; i < 12*scale; i++ {
				ws := r.words(24)
				switch i % 4 {
				case 0:
					ws = make([]uint64, 24)
				case 1:
					for j := range ws {
						ws[j] &= 3
					}
				}
				m.tag("alias")
				m.eval(fmt.Sprintf("alias%d|%s", k, joinU64(ws)), true)
				if what := c04Alias(k, ws); what != "" {
					m.violate(violation{"C04", "alias", what, map[string]string{"gen": fmt.Sprint(k), "words": joinU64(ws)}})
				}
			}
		}
		// Make: what it produces is a function of the structure of the type and of the bits, not of which other types
		// (of the same name, from another scope or package) were given to Make before
		for i := 0; i < 12*scale; i++ {
			ws := r.words(8)
			if i%3 == 0 {
				for j := range ws {
					ws[j] |= 0xffff << 40 // wide values: int8 and int64 draws differ
				}
			}
			m.tag("make-same-name")
			m.eval("make-names|"+joinU64(ws), true)
			if what := c04MakeNames(ws); what != "" {
				m.violate(violation{"C04", "make-names", what, map[string]string{"words": joinU64(ws)}})
			}
		}
		// a state machine whose action names differ in case only, run again and again from one seed: the same actions in the same
		// order every time (the map of actions is iterated in a random order; only the sorting of its keys makes a drawn index
		// mean an action)
		for i := 0; i < 3*scale; i++ {
			seed := r.u64()
			m.tag("case-tied-action-names")
			m.eval(fmt.Sprint("case-tied", seed), true)
			if what := c04CaseTiedActions(seed); what != "" {
				m.violate(violation{"C04", "case-tied", what, map[string]string{"seed": fmt.Sprint(seed)}})
			}
		}
		// reflection-made generators (Make) of maps, slices and structs with such fields: the values drawn from a recording are
		// the values drawn from the same recording without the bits of rejected attempts (duplicate keys)
		for i := 0; i < 60*scale; i++ {
			seed := r.u64()
			m.tag("make-replay-pruned")
			m.eval(fmt.Sprint("make-replay", seed), true)
			if what := c04MakeReplay(seed); what != "" {
				m.violate(violation{"C04", "make-replay", what, map[string]string{"seed": fmt.Sprint(seed)}})
			}
		}
		// what a generator draws does not depend on which other generators were built before it in the process:
		// a catalogue of generators is built and drawn from in several orders, each in a process of its own
		{
			self, _ := os.Executable()
			var ref string
			for order := 0; order < 4; order++ {
				out, err := exec.Command(self, "orderchild", strconv.Itoa(order)).CombinedOutput()
				m.tag("construction-order")
				m.eval("construction-order "+strconv.Itoa(order), true)
				if err != nil {
					m.violate(violation{"C04", "construction-order", fmt.Sprintf("catalogue in order %d: %v %s", order, err, tail(string(out), 400)), map[string]string{"order": strconv.Itoa(order)}})
					break
				}
				if order == 0 {
					ref = string(out)
					continue
				}
				if string(out) != ref {
					m.violate(violation{"C04", "construction-order", "the same generators, built in another order in a fresh process, draw other values from the same bits: " + firstDiff(ref, string(out)),
						map[string]string{"order": strconv.Itoa(order)}})
					break
				}
			}
		}
		// Example(seed) is a function of the seed; history independence: interleave other work
		g := rapid.SliceOfNDistinct(rapid.IntRange(0, 9), 0, 6, rapid.ID[int])
		for i := 0; i < 50*scale; i++ {
			seed := int(r.u64() >> 1)
			a := fmt.Sprint(g.Example(seed))
			_ = rapid.StringMatching(`[a-z]+\d`).Example(i) // unrelated use of caches in between
			_ = rapid.String().Example(i)
			b := fmt.Sprint(g.Example(seed))
			m.eval("example"+fmt.Sprint(seed), true)
			if a != b {
				m.violate(violation{"C04", "example", fmt.Sprintf("Example(%d) gave %s then %s", seed, a, b), map[string]string{"seed": fmt.Sprint(seed)}})
			}
		}
	}
	replayers["make-names"] = func(v violation, tmp string) (bool, string) {
		what := c04MakeNames(parseWordsGo(v.Params["words"]))
		return what != "", what
	}
	replayers["alias"] = func(v violation, tmp string) (bool, string) {
		k, _ := strconv.Atoi(v.Params["gen"])
		what := c04Alias(k, parseWordsGo(v.Params["words"]))
		return what != "", what
	}
	replayers["replay"] = func(v violation, tmp string) (bool, string) {
		seed, _ := strconv.ParseUint(v.Params["seed"], 10, 64)
		what, _ := checkReplay(mustSX(v.Params["prog"]), seed)
		return what != "", what
	}
}

// shrink a failing run of "slice of uint16 > 3 whose sum exceeds 5000" that starts from the given words
func c05ElementFilter(buf []uint64) string {
	prop := func(t *rapid.T) {
		xs := rapid.SliceOf(rapid.Uint16().Filter(func(v uint16) bool { return v > 3 })).Draw(t, "xs")
		sum := 0
		for _, x := range xs {
			sum += int(x)
		}
		if sum > 5000 {
			t.Fatalf("sum")
		}
	}
	return c05ShrinkExplicit(buf, prop)
}

// a record of k flags (one word each) that is followed by 7-k optional flags unless its last flag is set: a standalone
// group of seven words that is not a float.  The float pass of the shrinker lowers word 3 (4, 5) of such a group and
// sets the words behind it to the maximum; when that sets the last flag the accepted recording is shorter than the
// group was.  `pre` draws precede the record, `post` draws follow it.
func c05ShortRecord(k, pre, post int, buf []uint64) string {
	rec := rapid.Custom(func(t *rapid.T) []bool {
		v := make([]bool, 0, 7)
		for i := 0; i < k; i++ {
			v = append(v, rapid.Bool().Draw(t, "flag"))
		}
		if !v[k-1] {
			for i := k; i < 7; i++ {
				v = append(v, rapid.Bool().Draw(t, "opt"))
			}
		}
		return v
	})
	prop := func(t *rapid.T) {
		for i := 0; i < pre; i++ {
			rapid.Bool().Draw(t, "pre")
		}
		v := rec.Draw(t, "v")
		for i := 0; i < post; i++ {
			rapid.Bool().Draw(t, "post")
		}
		if v[k-2] || v[k-1] {
			t.Fatalf("bad record")
		}
	}
	return c05ShrinkExplicit(buf, prop)
}

// a value drawn through a Filter that refuses one number (`hole`), followed by a slice: when the minimizer of the value's
// block proposes `hole`, the attempt is rejected and discarded, and the words of the slice slide into the value's place —
// the block now holds less than what the minimizer believes to be its best value.  The property fails for two small
// values (`lo1 < lo2 < hole`) when the first draw is small, and for every value above `hole` that is followed by a
// non-empty slice.
func c05StaleBest(hole, lo1, lo2 uint8, buf []uint64) string {
	prop := func(t *rapid.T) {
		a := rapid.Uint8().Draw(t, "a")
		x := rapid.Uint8().Filter(func(v uint8) bool { return v != hole }).Draw(t, "x")
		rest := rapid.SliceOf(rapid.Uint8()).Draw(t, "rest")
		if ((x == lo1 || x == lo2) && a < 5) || (x > hole && len(rest) >= 1) {
			t.Fatalf("bad combination")
		}
	}
	return c05ShrinkExplicit(buf, prop)
}

// two failure sites inside one small leaf function that the compiler inlines (an index out of range for v >= 1000, a division by
// zero for v == 1): the frames of an inlined function are part of where a failure happened — random values find the first
// site, v == 1 lies on the way of the minimizer, and the minimized test case must still fail at the site that was found
var (
	c05Site int
	c05Tbl  [1000]int
)

func c05Leaf(v int) int {
	c05Site = 1
	x := c05Tbl[v]
	c05Site = 2
	return x / (v - 1)
}

func c05InlinedSites(seed uint64) string {
	prop := func(t *rapid.T) {
		v := rapid.IntRange(0, 3000).Draw(t, "v")
		c05Site = 0
		_ = c05Leaf(v)
	}
	var res rapid.VerifDoCheckResult
	if p := runTB(func() { res = rapid.VerifDoCheck(newRecTB("inl"), farDeadline(), 100, seed, "", false, prop) }); p != nil {
		return fmt.Sprintf("doCheck crashed: %v", p)
	}
	if res.Err1.IsNil() && res.Err2.IsNil() {
		return ""
	}
	// the failure that was found: the failing seed on a fresh T
	runTB(func() {
		rapid.VerifCheckOnce(rapid.VerifNewT(newRecTB("inl"), rapid.VerifRandStream(res.Seed, false), false), prop)
	})
	found := c05Site
	runTB(func() {
		rapid.VerifCheckOnce(rapid.VerifNewT(newRecTB("inl"), rapid.VerifBufStream(res.Buf, false), false), prop)
	})
	final := c05Site
	if found != final && res.Err1.Traceback() == res.Err2.Traceback() {
		return fmt.Sprintf("the failure found is at statement %d of an inlined helper (%s), the minimized test case [%s] fails at statement %d (%s) and is reported as the same failure",
			found, firstLine(res.Err1.Msg()), joinU64(res.Buf), final, firstLine(res.Err2.Msg()))
	}
	return ""
}

// the same failing statement reached through a deep chain of calls (fourteen frames of one recursive helper) from two different
// lines of the property: the line of the property is part of where the failure happened as long as it lies within the 32
// frames rapid looks at
func c05Deep(t *rapid.T, depth int) {
	if depth == 0 {
		t.Fatalf("bad book")
	}
	c05Deep(t, depth-1)
}

func c05DeepSites(seed uint64) string {
	prop := func(t *rapid.T) {
		kind := rapid.IntRange(0, 3).Draw(t, "kind")
		v := rapid.IntRange(0, 1000).Draw(t, "v")
		c05Site = 0
		if kind == 0 {
			if v >= 1 {
				c05Site = 1
				c05Deep(t, 14)
			}
		} else if v >= 500 {
			c05Site = 2
			c05Deep(t, 14)
		}
	}
	var res rapid.VerifDoCheckResult
	if p := runTB(func() { res = rapid.VerifDoCheck(newRecTB("deep"), farDeadline(), 100, seed, "", false, prop) }); p != nil {
		return fmt.Sprintf("doCheck crashed: %v", p)
	}
	if res.Err1.IsNil() && res.Err2.IsNil() {
		return ""
	}
	runTB(func() {
		rapid.VerifCheckOnce(rapid.VerifNewT(newRecTB("deep"), rapid.VerifRandStream(res.Seed, false), false), prop)
	})
	found := c05Site
	runTB(func() {
		rapid.VerifCheckOnce(rapid.VerifNewT(newRecTB("deep"), rapid.VerifBufStream(res.Buf, false), false), prop)
	})
	final := c05Site
	if found != final && res.Err1.Traceback() == res.Err2.Traceback() {
		return fmt.Sprintf("the failure found came from call site %d of the property (through 14 frames of a helper), the minimized test case [%s] fails through call site %d and is reported as the same failure", found, joinU64(res.Buf), final)
	}
	return ""
}

func firstLine(s string) string {
	if k := strings.IndexByte(s, '\n'); k >= 0 {
		return s[:k]
	}
	return s
}

// minimize the failure of prop on buf with the real `shrink`: no crash, not larger, the result replays to the reported
// failure and is its own recording
func c05ShrinkExplicit(buf []uint64, prop0 func(*rapid.T)) string {
	// every candidate the shrinker runs, in order: an accepted one is run twice in a row (the second time recording).
	// (The first run goes through the same wrapper: the traceback of a failure names its callers.)
	var cands [][]uint64
	watching := false
	prop := func(t *rapid.T) {
		if ws, ok := rapid.VerifTWords(t); ok && watching {
			cands = append(cands, ws)
		}
		prop0(t)
	}
	s := rapid.VerifBufStream(buf, true)
	var e rapid.VerifErr
	if p := runTB(func() { e = rapid.VerifCheckOnce(rapid.VerifNewT(newRecTB("efc"), s, false), prop) }); p != nil {
		return ""
	}
	if e.IsNil() || e.Kind() == "invalid" {
		return "" // these words do not fail: nothing to minimize
	}
	var res []uint64
	var e2 rapid.VerifErr
	watching = true
	if p := runTB(func() { res, e2 = rapid.VerifShrink(newRecTB("efc"), time.Now().Add(time.Minute), s.Rec(), e, prop) }); p != nil {
		return fmt.Sprintf("shrink crashed: %v", p)
	}
	watching = false
	if rapid.VerifCompareData(res, s.Rec().Data) > 0 {
		return fmt.Sprintf("minimized [%s] is larger than the recording it started from [%s]", joinU64(res), joinU64(s.Rec().Data))
	}
	// the test case the shrinker holds after accepting a candidate is the pruned recording of the candidate's run
	held := func(cand []uint64) []uint64 {
		sc := rapid.VerifBufStream(cand, true)
		runTB(func() { rapid.VerifCheckOnce(rapid.VerifNewT(newRecTB("efc"), sc, false), prop) })
		return rapid.VerifPrune(sc.Rec()).Data
	}
	prev := rapid.VerifPrune(s.Rec()).Data
	for k := 0; k+1 < len(cands); k++ {
		if equalWords(cands[k], cands[k+1]) {
			if rapid.VerifCompareData(cands[k], prev) >= 0 {
				return fmt.Sprintf("accepted candidate [%s] is not smaller than the test case before it [%s]", joinU64(cands[k]), joinU64(prev))
			}
			prev = held(cands[k])
			k++
		}
	}
	s3 := rapid.VerifBufStream(res, true)
	var e3 rapid.VerifErr
	runTB(func() { e3 = rapid.VerifCheckOnce(rapid.VerifNewT(newRecTB("efc"), s3, false), prop) })
	if e3.IsNil() || e3.Kind() == "invalid" || !rapid.VerifSameError(e3, e2) {
		return fmt.Sprintf("the result of shrink [%s] replays to %s, shrink reported %s", joinU64(res), showErr(e3), showErr(e2))
	}
	if !equalWords(s3.Rec().Data, res) {
		return fmt.Sprintf("the result of shrink [%s] is not what its replay records [%s]", joinU64(res), joinU64(s3.Rec().Data))
	}
	return ""
}

// generators of reference values (slices, maps, pointers), kept across calls like package-level generators
var (
	c04PermSrc = []int{1, 2, 3, 4, 5}
	c04Perm    = rapid.Permutation(c04PermSrc)
	c04Slice   = rapid.SliceOfN(rapid.IntRange(0, 9), 0, 6)
	c04Dist    = rapid.SliceOfNDistinct(rapid.IntRange(0, 9), 0, 6, rapid.ID[int])
	c04Map     = rapid.MapOfN(rapid.IntRange(0, 9), rapid.IntRange(0, 9), 0, 5)
	c04Bytes   = rapid.SliceOfBytesMatching(`[a-c]{0,6}`)
	c04Ptr     = rapid.Ptr(rapid.IntRange(0, 9), false)
	c04Just    = rapid.Permutation([]string{"x", "y", "z"})
)

// c04Draw draws one value from explicit words; a panic or invalid data is part of the result
func c04Draw[V any](g *rapid.Generator[V], ws []uint64) (res string) {
	defer func() {
		if p := recover(); p != nil {
			if fmt.Sprintf("%T", p) == "rapid.invalidData" {
				res = "invalid data: " + fmt.Sprint(p)
				return
			}
			res = "panic: " + fmt.Sprint(p)
		}
	}()
	t := rapid.VerifNewT(newRecTB("make"), rapid.VerifBufStream(ws, false), false)
	return fmt.Sprintf("%v", rapid.VerifValue(g, t))
}

// four scopes, two names: in each pair the same name stands for two different types; the "a" types of both pairs
// are structurally identical, and so are the "b" types.  Pair 1 meets Make in the order a, b; pair 2 in the order b, a.
func c04MakeScope1a(ws []uint64) (string, string) {
	type ID1 int8
	type Rec1 struct {
		X uint8
		Y uint64
	}
	return c04Draw(rapid.Make[ID1](), ws), c04Draw(rapid.Make[Rec1](), ws)
}

func c04MakeScope1b(ws []uint64) (string, string) {
	type ID1 int64
	type Rec1 struct {
		X uint64
		Y uint8
	}
	return c04Draw(rapid.Make[ID1](), ws), c04Draw(rapid.Make[Rec1](), ws)
}

func c04MakeScope2a(ws []uint64) (string, string) {
	type ID2 int8
	type Rec2 struct {
		X uint8
		Y uint64
	}
	return c04Draw(rapid.Make[ID2](), ws), c04Draw(rapid.Make[Rec2](), ws)
}

func c04MakeScope2b(ws []uint64) (string, string) {
	type ID2 int64
	type Rec2 struct {
		X uint64
		Y uint8
	}
	return c04Draw(rapid.Make[ID2](), ws), c04Draw(rapid.Make[Rec2](), ws)
}

func c04CaseTiedActions(seed uint64) string {
	run := func() string {
		var trace []string
		acts := map[string]func(*rapid.T){}
		for _, name := range []string{"get", "GET", "Get", "put", "PUT", "Put", "x", "X"} {
			name := name
			acts[name] = func(t *rapid.T) { trace = append(trace, name+fmt.Sprint(rapid.IntRange(0, 9).Draw(t, "v"))) }
		}
		t := rapid.VerifNewT(newRecTB("tied"), rapid.VerifRandStream(seed, false), false)
		runTB(func() { rapid.VerifCheckOnce(t, func(t *rapid.T) { t.Repeat(acts) }) })
		return strings.Join(trace, " ")
	}
	first := run()
	for k := 0; k < 16; k++ {
		if again := run(); again != first {
			return fmt.Sprintf("seed %d, a state machine with the actions get/GET/Get/put/PUT/Put/x/X: one run executes [%s], another [%s]", seed, first, again)
		}
	}
	return ""
}

type c04MakeRec struct {
	M map[uint8]bool
	S []map[bool]int8
	P *map[int8]uint8
}

var c04MakeGens = []*rapid.Generator[any]{
	rapid.Make[map[int8]int]().AsAny(),
	rapid.Make[map[bool]int64]().AsAny(),
	rapid.Make[map[uint8]string]().AsAny(),
	rapid.Make[c04MakeRec]().AsAny(),
	rapid.Make[[]map[bool]bool]().AsAny(),
}

// record a draw from the PRNG, prune the recording, replay it: the same values
func c04MakeReplay(seed uint64) string {
	for k, g := range c04MakeGens {
		render := func(s *rapid.VerifStream) (out string) {
			defer func() {
				if p := recover(); p != nil {
					out = fmt.Sprintf("panic: %v", p)
				}
			}()
			return fmt.Sprintf("%v", derefAll(rapid.VerifValue(g, rapid.VerifNewT(newRecTB("mk"), s, false))))
		}
		s1 := rapid.VerifRandStream(seed, true)
		v1 := render(s1)
		if strings.HasPrefix(v1, "panic:") {
			continue
		}
		pr := rapid.VerifPrune(s1.Rec())
		v2 := render(rapid.VerifBufStream(pr.Data, false))
		if v1 != v2 {
			return fmt.Sprintf("Make generator #%d, seed %d: the run drew %s, the replay of its pruned recording (%d of %d words) draws %s", k, seed, v1, len(pr.Data), len(s1.Rec().Data), v2)
		}
	}
	return ""
}

// pointers inside a value replaced by what they point to (for printing)
func derefAll(v any) any {
	if r, ok := v.(c04MakeRec); ok {
		if r.P != nil {
			return fmt.Sprintf("{%v %v &%v}", r.M, r.S, *r.P)
		}
		return fmt.Sprintf("{%v %v nil}", r.M, r.S)
	}
	return v
}

func c04MakeNames(ws []uint64) string {
	a1i, a1r := c04MakeScope1a(ws)
	b1i, b1r := c04MakeScope1b(ws)
	b2i, b2r := c04MakeScope2b(ws)
	a2i, a2r := c04MakeScope2a(ws)
	switch {
	case a1i != a2i:
		return fmt.Sprintf("Make of a named int8 type from the same bits: %s when it is the first type of its name given to Make, %s after a same-named int64 type", a1i, a2i)
	case b1i != b2i:
		return fmt.Sprintf("Make of a named int64 type from the same bits: %s after a same-named int8 type, %s when it is the first of its name", b1i, b2i)
	case a1r != a2r:
		return fmt.Sprintf("Make of struct{uint8; uint64} from the same bits: %s when first of its name, %s after a same-named other struct", a1r, a2r)
	case b1r != b2r:
		return fmt.Sprintf("Make of struct{uint64; uint8} from the same bits: %s after a same-named other struct, %s when first of its name", b1r, b2r)
	}
	return ""
}

func tail(s string, n int) string {
	if len(s) > n {
		return s[len(s)-n:]
	}
	return s
}

func firstDiff(a, b string) string {
	la, lb := strings.Split(a, "\n"), strings.Split(b, "\n")
	for i := 0; i < len(la) && i < len(lb); i++ {
		if la[i] != lb[i] {
			return fmt.Sprintf("%q vs %q", la[i], lb[i])
		}
	}
	return fmt.Sprintf("%d vs %d lines", len(la), len(lb))
}

// orderChild builds a catalogue of generators in the order number `order` (0: as listed, 1: reversed, else a
// fixed shuffle) and draws from each right after building it; the output is sorted by catalogue index
func orderChild(order int) {
	tabs := []*unicode.RangeTable{unicode.Latin, unicode.Greek, unicode.Cyrillic, unicode.Digit, unicode.Han, unicode.Hebrew, unicode.Arabic,
		unicode.Thai, unicode.Armenian, unicode.Georgian, unicode.Hiragana, unicode.Katakana, unicode.Lu, unicode.Ll, unicode.Nd, unicode.Sm,
		// tables of the user's own: the same bounds with different strides, 16-bit and 32-bit ranges, equal tables at two addresses
		{R16: []unicode.Range16{{Lo: 0x2500, Hi: 0x257e, Stride: 1}}}, {R16: []unicode.Range16{{Lo: 0x2500, Hi: 0x257e, Stride: 2}}},
		{R32: []unicode.Range32{{Lo: 0x2500, Hi: 0x257e, Stride: 3}}}, {R16: []unicode.Range16{{Lo: 0x2500, Hi: 0x257e, Stride: 2}}},
		{R16: []unicode.Range16{{Lo: 0x3000, Hi: 0x303c, Stride: 6}}}, {R16: []unicode.Range16{{Lo: 0x3000, Hi: 0x303c, Stride: 1}}}}
	var cat []func() string
	draws := func(idx int, draw func(t *rapid.T) string) string {
		t := rapid.VerifNewT(newRecTB("order"), rapid.VerifRandStream(uint64(1000+idx), false), false)
		var b strings.Builder
		for i := 0; i < 6; i++ {
			b.WriteString(draw(t))
			b.WriteString(" ")
		}
		return b.String()
	}
	add := func(build func() func(t *rapid.T) string) {
		idx := len(cat)
		cat = append(cat, func() (res string) {
			defer func() {
				if p := recover(); p != nil {
					res = fmt.Sprintf("%d: panic %v", idx, p)
				}
			}()
			return fmt.Sprintf("%d: %s", idx, draws(idx, build()))
		})
	}
	for k := 1; k <= len(tabs); k++ {
		k := k
		add(func() func(t *rapid.T) string {
			g := rapid.RuneFrom(nil, tabs[:k]...)
			return func(t *rapid.T) string { return fmt.Sprintf("%q", rapid.VerifValue(g, t)) }
		})
		add(func() func(t *rapid.T) string {
			g := rapid.RuneFrom([]rune("xyz"), tabs[:k]...)
			return func(t *rapid.T) string { return fmt.Sprintf("%q", rapid.VerifValue(g, t)) }
		})
		add(func() func(t *rapid.T) string {
			g := rapid.StringOfN(rapid.RuneFrom([]rune{'a', 'b'}, tabs[k-1]), 0, 5, -1)
			return func(t *rapid.T) string { return fmt.Sprintf("%q", rapid.VerifValue(g, t)) }
		})
		add(func() func(t *rapid.T) string {
			g := rapid.RuneFrom(nil, tabs[k-1])
			return func(t *rapid.T) string { return fmt.Sprintf("%q", rapid.VerifValue(g, t)) }
		})
	}
	for _, pat := range []string{`[a-z]+`, `[a-z]+\d`, `(ab|cd)*x`, `\pL{1,3}`, `[[:alpha:]]{2}`, `a.c`, `(?i)abc`, `[^a-c]{1,2}`} {
		pat := pat
		add(func() func(t *rapid.T) string {
			g := rapid.StringMatching(pat)
			return func(t *rapid.T) string { return fmt.Sprintf("%q", rapid.VerifValue(g, t)) }
		})
		add(func() func(t *rapid.T) string {
			g := rapid.SliceOfBytesMatching(pat)
			return func(t *rapid.T) string { return fmt.Sprintf("%q", rapid.VerifValue(g, t)) }
		})
	}
	add(func() func(t *rapid.T) string {
		g := rapid.String()
		return func(t *rapid.T) string { return fmt.Sprintf("%q", rapid.VerifValue(g, t)) }
	})
	add(func() func(t *rapid.T) string {
		g := rapid.Rune()
		return func(t *rapid.T) string { return fmt.Sprintf("%q", rapid.VerifValue(g, t)) }
	})
	add(func() func(t *rapid.T) string {
		type P struct {
			A int8
			B string
			C []uint16
		}
		g := rapid.Make[P]()
		return func(t *rapid.T) string { return fmt.Sprintf("%v", rapid.VerifValue(g, t)) }
	})
	add(func() func(t *rapid.T) string {
		type P struct {
			A uint64
			B map[int8]bool
		}
		g := rapid.Make[P]()
		return func(t *rapid.T) string { return fmt.Sprintf("%v", rapid.VerifValue(g, t)) }
	})
	n := len(cat)
	perm := make([]int, n)
	for i := range perm {
		perm[i] = i
	}
	switch order {
	case 0:
	case 1:
		for i, j := 0, n-1; i < j; i, j = i+1, j-1 {
			perm[i], perm[j] = perm[j], perm[i]
		}
	default:
		x := uint64(order) * 0x9E3779B97F4A7C15
		for i := n - 1; i > 0; i-- {
			x = x*6364136223846793005 + 1442695040888963407
			j := int((x >> 33) % uint64(i+1))
			perm[i], perm[j] = perm[j], perm[i]
		}
	}
	lines := make([]string, n)
	for _, idx := range perm {
		lines[idx] = cat[idx]()
	}
	fmt.Println(strings.Join(lines, "\n"))
}

// c07GoTest runs a small test package against /repo with `go test -rapid.seed=…` twice; the test cases of the three
// ways to set up a check must be the same in both runs and the same among each other
func c07GoTest(tmp string) (what string, ran bool) {
	goBin, err := exec.LookPath("go")
	if err != nil {
		return "no go tool", false
	}
	repo := os.Getenv("VERIF_REPO")
	if repo == "" {
		repo = "/repo"
	}
	dir, err := os.MkdirTemp(tmp, "c07go-")
	if err != nil {
		return err.Error(), false
	}
	defer os.RemoveAll(dir)
	sum, _ := os.ReadFile(filepath.Join(repo, "go.sum"))
	_ = os.WriteFile(filepath.Join(dir, "go.sum"), sum, 0o644)
	_ = os.WriteFile(filepath.Join(dir, "go.mod"), []byte("module c07probe\n\ngo 1.18\n\nrequire pgregory.net/rapid v0.0.0\n\nreplace pgregory.net/rapid => "+repo+"\n"), 0o644)
	_ = os.WriteFile(filepath.Join(dir, "probe_test.go"), []byte(`package c07probe

import (
	"fmt"
	"testing"

	"pgregory.net/rapid"
)

func prop(tag string) func(*rapid.T) {
	return func(t *rapid.T) {
		a := rapid.IntRange(-1000, 1000).Draw(t, "a")
		b := rapid.SliceOfN(rapid.Uint8(), 0, 3).Draw(t, "b")
		fmt.Printf("CASE %s %d %v\n", tag, a, b)
	}
}

// created while the package is initialised: the flags of the test binary are not parsed yet
var early = rapid.MakeCheck(prop("early"))

func TestEarly(t *testing.T)  { t.Run("sub", early) }
func TestInline(t *testing.T) { t.Run("sub", rapid.MakeCheck(prop("inline"))) }
func TestCheck(t *testing.T)  { rapid.Check(t, prop("check")) }
`), 0o644)
	runOnce := func() (map[string][]string, string) {
		cmd := exec.Command(goBin, "test", "-vet=off", "-count=1", "-rapid.seed=4242", "-rapid.checks=15", ".")
		cmd.Dir = dir
		cmd.Env = append(os.Environ(), "GOFLAGS=-mod=mod", "GOPROXY=off", "GOSUMDB=off", "GOTOOLCHAIN=local")
		out, err := cmd.CombinedOutput()
		cases := map[string][]string{}
		for _, ln := range strings.Split(string(out), "\n") {
			if f := strings.SplitN(ln, " ", 3); len(f) == 3 && f[0] == "CASE" {
				cases[f[1]] = append(cases[f[1]], f[2])
			}
		}
		if err != nil {
			return cases, tail(string(out), 400)
		}
		return cases, ""
	}
	c1, e1 := runOnce()
	if e1 != "" && len(c1) == 0 {
		return "go test did not run: " + e1, false // no toolchain / no module cache: not a finding
	}
	c2, _ := runOnce()
	for _, tag := range []string{"early", "inline", "check"} {
		if len(c1[tag]) != 15 {
			return fmt.Sprintf("-rapid.checks=15: the %s check ran %d test cases", tag, len(c1[tag])), true
		}
		if strings.Join(c1[tag], ";") != strings.Join(c2[tag], ";") {
			return fmt.Sprintf("two runs with -rapid.seed=4242: the test cases of the %s check differ (first: %s / %s)", tag, c1[tag][0], c2[tag][0]), true
		}
		if strings.Join(c1[tag], ";") != strings.Join(c1["check"], ";") {
			return fmt.Sprintf("-rapid.seed=4242: the %s MakeCheck runs other test cases than Check (first: %s / %s)", tag, c1[tag][0], c1["check"][0]), true
		}
	}
	return "", true
}

// c09GoTest builds a small test package against /repo and runs the test binary with the timeouts a user can give
// (`go test -timeout 0` = none, the default, one hour) and with -short: a passing Check ran the promised number of
// test cases (N, or N/5 with -short) each time
func c09GoTest(tmp string) (what string, ran bool) {
	goBin, err := exec.LookPath("go")
	if err != nil {
		return "no go tool", false
	}
	repo := os.Getenv("VERIF_REPO")
	if repo == "" {
		repo = "/repo"
	}
	dir, err := os.MkdirTemp(tmp, "c09go-")
	if err != nil {
		return err.Error(), false
	}
	defer os.RemoveAll(dir)
	sum, _ := os.ReadFile(filepath.Join(repo, "go.sum"))
	_ = os.WriteFile(filepath.Join(dir, "go.sum"), sum, 0o644)
	_ = os.WriteFile(filepath.Join(dir, "go.mod"), []byte("module c09probe\n\ngo 1.18\n\nrequire pgregory.net/rapid v0.0.0\n\nreplace pgregory.net/rapid => "+repo+"\n"), 0o644)
	_ = os.WriteFile(filepath.Join(dir, "probe_test.go"), []byte(`package c09probe

import (
	"fmt"
	"testing"

	"pgregory.net/rapid"
)

func prop(tag string) func(*rapid.T) {
	return func(t *rapid.T) {
		a := rapid.IntRange(0, 99).Draw(t, "a")
		if tag == "skippy" && a < 30 {
			t.Skip("small")
		}
		fmt.Printf("CASE %s %d\n", tag, a)
	}
}

func TestCheck(t *testing.T)  { rapid.Check(t, prop("check")) }
func TestSub(t *testing.T)    { t.Run("sub", rapid.MakeCheck(prop("sub"))) }
func TestSkippy(t *testing.T) { rapid.Check(t, prop("skippy")) }
`), 0o644)
	build := exec.Command(goBin, "test", "-vet=off", "-c", "-o", "probe.test", ".")
	build.Dir = dir
	build.Env = append(os.Environ(), "GOFLAGS=-mod=mod", "GOPROXY=off", "GOSUMDB=off", "GOTOOLCHAIN=local")
	if out, err := build.CombinedOutput(); err != nil {
		return "go test -c did not run: " + tail(string(out), 300), false // no toolchain / no module cache: not a finding
	}
	for _, mode := range []struct {
		args []string
		want int
	}{
		{[]string{"-test.timeout=0", "-rapid.checks=60"}, 60},
		{[]string{"-rapid.checks=60"}, 60},
		{[]string{"-test.timeout=1h", "-rapid.checks=35"}, 35},
		{[]string{"-test.timeout=25s", "-rapid.checks=40"}, 40},                         // a timeout below the default -rapid.shrinktime
		{[]string{"-test.timeout=10m", "-rapid.shrinktime=1h", "-rapid.checks=45"}, 45}, // a shrink time above the timeout
		{[]string{"-test.timeout=0", "-test.short", "-rapid.checks=60"}, 12},
		{[]string{"-test.timeout=0"}, 100},
	} {
		cmd := exec.Command(filepath.Join(dir, "probe.test"), append([]string{"-test.count=1", "-rapid.seed=77"}, mode.args...)...)
		cmd.Dir = dir
		out, err := cmd.CombinedOutput()
		cases := map[string]int{}
		for _, ln := range strings.Split(string(out), "\n") {
			if f := strings.SplitN(ln, " ", 3); len(f) == 3 && f[0] == "CASE" {
				cases[f[1]]++
			}
		}
		if err != nil {
			return fmt.Sprintf("test binary with %v: a property that never fails did not pass: %s", mode.args, tail(string(out), 300)), true
		}
		for _, tag := range []string{"check", "sub", "skippy"} {
			if cases[tag] != mode.want {
				return fmt.Sprintf("test binary with %v: the passing %s check ran %d valid test cases, promised %d", mode.args, tag, cases[tag], mode.want), true
			}
		}
	}
	return "", true
}

// c13GoTest: one function returned by MakeFuzz run on many inputs in a row (what f.Fuzz does): every input gives the draws that a
// function made for that input alone gives — whatever the inputs before it were (lengths that are no multiple of 8 after longer
// inputs full of ones, empty inputs, repeats)
func c13GoTest(tmp string) (what string, ran bool) {
	goBin, err := exec.LookPath("go")
	if err != nil {
		return "no go tool", false
	}
	repo := os.Getenv("VERIF_REPO")
	if repo == "" {
		repo = "/repo"
	}
	dir, err := os.MkdirTemp(tmp, "c13go-")
	if err != nil {
		return err.Error(), false
	}
	defer os.RemoveAll(dir)
	sum, _ := os.ReadFile(filepath.Join(repo, "go.sum"))
	_ = os.WriteFile(filepath.Join(dir, "go.sum"), sum, 0o644)
	_ = os.WriteFile(filepath.Join(dir, "go.mod"), []byte("module c13probe\n\ngo 1.18\n\nrequire pgregory.net/rapid v0.0.0\n\nreplace pgregory.net/rapid => "+repo+"\n"), 0o644)
	_ = os.WriteFile(filepath.Join(dir, "probe_test.go"), []byte(`package c13probe

import (
	"fmt"
	"testing"

	"pgregory.net/rapid"
)

var tag string

func prop(t *rapid.T) {
	a := rapid.Bool().Draw(t, "a")
	b := rapid.Uint64().Draw(t, "b")
	c := rapid.SliceOfN(rapid.Byte(), 0, 3).Draw(t, "c")
	d := rapid.Bool().Draw(t, "d")
	fmt.Printf("DRAWS %s %v %v %v %v\n", tag, a, b, c, d)
	if b == 12345 {
		t.Fatalf("b")
	}
}

func inputs() [][]byte {
	ones := func(n int) []byte {
		b := make([]byte, n)
		for i := range b {
			b[i] = 0xff
		}
		return b
	}
	x := uint64(88172645463325252)
	rnd := func(n int) []byte {
		b := make([]byte, n)
		for i := range b {
			x ^= x << 13
			x ^= x >> 7
			x ^= x << 17
			b[i] = byte(x >> 32)
		}
		return b
	}
	var in [][]byte
	for _, n := range []int{64, 9, 17, 3, 0, 33, 1, 48, 47, 25, 8, 7, 41, 12} {
		in = append(in, ones(n), make([]byte, n), rnd(n), append(make([]byte, n), 1), rnd(n+1))
	}
	return in
}

func TestShared(t *testing.T) {
	f := rapid.MakeFuzz(prop)
	for i, in := range inputs() {
		tag = fmt.Sprintf("shared-%d", i)
		in := in
		t.Run(tag, func(t *testing.T) { f(t, in) })
	}
}

func TestFresh(t *testing.T) {
	for i, in := range inputs() {
		tag = fmt.Sprintf("fresh-%d", i)
		in := in
		t.Run(tag, func(t *testing.T) { rapid.MakeFuzz(prop)(t, in) })
	}
}
`), 0o644)
	build := exec.Command(goBin, "test", "-vet=off", "-c", "-o", "probe.test", ".")
	build.Dir = dir
	build.Env = append(os.Environ(), "GOFLAGS=-mod=mod", "GOPROXY=off", "GOSUMDB=off", "GOTOOLCHAIN=local")
	if out, err := build.CombinedOutput(); err != nil {
		return "go test -c did not run: " + tail(string(out), 300), false
	}
	cmd := exec.Command(filepath.Join(dir, "probe.test"), "-test.count=1", "-test.v")
	cmd.Dir = dir
	out, _ := cmd.CombinedOutput()
	draws := map[string]string{}
	verdict := map[string]string{}
	for _, ln := range strings.Split(string(out), "\n") {
		ln = strings.TrimSpace(ln)
		if f := strings.SplitN(ln, " ", 3); len(f) == 3 && f[0] == "DRAWS" {
			draws[f[1]] += f[2] + ";"
		}
		for _, v := range []string{"--- PASS: ", "--- FAIL: ", "--- SKIP: "} {
			if strings.HasPrefix(ln, v) {
				name := strings.Fields(strings.TrimPrefix(ln, v))[0]
				if k := strings.LastIndex(name, "/"); k >= 0 {
					verdict[name[k+1:]] = strings.TrimSpace(strings.Trim(v, "-: "))
				}
			}
		}
	}
	n := 0
	for k := range verdict {
		if strings.HasPrefix(k, "fresh-") {
			n++
		}
	}
	if n < 50 {
		return "the probe did not run: " + tail(string(out), 300), false
	}
	for i := 0; i < n; i++ {
		sh, fr := fmt.Sprintf("shared-%d", i), fmt.Sprintf("fresh-%d", i)
		if draws[sh] != draws[fr] || verdict[sh] != verdict[fr] {
			return fmt.Sprintf("input #%d run by a MakeFuzz function that has run other inputs before: %s, draws %s; run by a function of its own: %s, draws %s",
				i, verdict[sh], draws[sh], verdict[fr], draws[fr]), true
		}
	}
	return "", true
}

// c18GoTest: without -rapid.seed, a check explores other test cases every time it runs — also one and the same
// MakeCheck value run twice in a process (a package-level table of subtests), and Check called twice
func c18GoTest(tmp string) (what string, ran bool) {
	goBin, err := exec.LookPath("go")
	if err != nil {
		return "no go tool", false
	}
	repo := os.Getenv("VERIF_REPO")
	if repo == "" {
		repo = "/repo"
	}
	dir, err := os.MkdirTemp(tmp, "c18go-")
	if err != nil {
		return err.Error(), false
	}
	defer os.RemoveAll(dir)
	sum, _ := os.ReadFile(filepath.Join(repo, "go.sum"))
	_ = os.WriteFile(filepath.Join(dir, "go.sum"), sum, 0o644)
	_ = os.WriteFile(filepath.Join(dir, "go.mod"), []byte("module c18probe\n\ngo 1.18\n\nrequire pgregory.net/rapid v0.0.0\n\nreplace pgregory.net/rapid => "+repo+"\n"), 0o644)
	_ = os.WriteFile(filepath.Join(dir, "probe_test.go"), []byte(`package c18probe

import (
	"fmt"
	"testing"

	"pgregory.net/rapid"
)

var round = 0

func prop(tag string) func(*rapid.T) {
	return func(t *rapid.T) {
		a := rapid.Uint64().Draw(t, "a")
		b := rapid.SliceOfN(rapid.Uint8(), 0, 3).Draw(t, "b")
		fmt.Printf("CASE %s%d %d %v\n", tag, round, a, b)
	}
}

var shared = rapid.MakeCheck(prop("shared"))

func TestShared(t *testing.T) {
	round = 1
	t.Run("first", shared)
	round = 2
	t.Run("second", shared)
}

func TestCheckTwice(t *testing.T) {
	round = 1
	rapid.Check(t, prop("check"))
	round = 2
	rapid.Check(t, prop("check"))
}
`), 0o644)
	cmd := exec.Command(goBin, "test", "-vet=off", "-count=1", "-rapid.checks=12", ".")
	cmd.Dir = dir
	cmd.Env = append(os.Environ(), "GOFLAGS=-mod=mod", "GOPROXY=off", "GOSUMDB=off", "GOTOOLCHAIN=local")
	out, err := cmd.CombinedOutput()
	cases := map[string][]string{}
	for _, ln := range strings.Split(string(out), "\n") {
		if f := strings.SplitN(ln, " ", 3); len(f) == 3 && f[0] == "CASE" {
			cases[f[1]] = append(cases[f[1]], f[2])
		}
	}
	if err != nil && len(cases) == 0 {
		return "go test did not run: " + tail(string(out), 300), false
	}
	for _, tag := range []string{"shared", "check"} {
		a, b := cases[tag+"1"], cases[tag+"2"]
		if len(a) != 12 || len(b) != 12 {
			return fmt.Sprintf("the %s check ran %d and %d test cases, 12 were asked for", tag, len(a), len(b)), true
		}
		if strings.Join(a, ";") == strings.Join(b, ";") {
			return fmt.Sprintf("without -rapid.seed, the %s check explored exactly the same 12 test cases when it ran the second time (first: %s)", tag, a[0]), true
		}
	}
	return "", true
}

const c04AliasGens = 7

// draw, remember, scribble over the value, draw again from the same bits: "" or what differs
func c04Alias(k int, ws []uint64) string {
	draw := func() (v any, err string) {
		defer func() {
			if p := recover(); p != nil {
				err = fmt.Sprint(p)
			}
		}()
		t := rapid.VerifNewT(newRecTB("alias"), rapid.VerifBufStream(ws, false), false)
		switch k {
		case 0:
			return rapid.VerifValue(c04Perm, t), ""
		case 1:
			return rapid.VerifValue(c04Slice, t), ""
		case 2:
			return rapid.VerifValue(c04Dist, t), ""
		case 3:
			return rapid.VerifValue(c04Map, t), ""
		case 4:
			return rapid.VerifValue(c04Bytes, t), ""
		case 5:
			return rapid.VerifValue(c04Ptr, t), ""
		default:
			return rapid.VerifValue(c04Just, t), ""
		}
	}
	show := func(v any) string {
		if p, ok := v.(*int); ok && p != nil {
			return fmt.Sprintf("&%d", *p)
		}
		return fmt.Sprintf("%#v", v)
	}
	v1, e1 := draw()
	if e1 != "" {
		return "" // invalid data on these words: nothing to compare
	}
	before := show(v1)
	switch x := v1.(type) {
	case []int:
		for i := range x {
			x[i] = -77
		}
		sort.Ints(x)
	case []string:
		for i := range x {
			x[i] = "scribble"
		}
	case map[int]int:
		for key := range x {
			x[key] = -77
		}
		x[1234] = 1
	case []byte:
		for i := range x {
			x[i] = '!'
		}
	case *int:
		if x != nil {
			*x = -77
		}
	}
	v2, e2 := draw()
	if e2 != "" {
		return fmt.Sprintf("generator %d: the same words gave %s, and after the caller changed that value in place: %s", k, before, e2)
	}
	if after := show(v2); after != before {
		return fmt.Sprintf("generator %d: the same words gave %s, and after the caller changed that value in place %s", k, before, after)
	}
	if k == 0 && fmt.Sprint(c04PermSrc) != "[1 2 3 4 5]" {
		return fmt.Sprintf("Permutation: the slice the generator was made from was changed to %v", c04PermSrc)
	}
	return ""
}

// ---------------------------------------------------------------- C05: same site, only smaller

func init() {
	monitors["C05"] = func(r *rng, scale int, m *monOut, tmp string) {
		progs := []string{
			"((draw a (slice (i 0 1000) 0 8)) (draw b (i -9223372036854775808 9223372036854775807)) (if (lenge a 3) (fatal 1)) (if (ge b 100) (fatal 2)) (if (lt b -100) (panic 3)))",
			"((draw a (i 0 1000)) (draw b (i 0 1000)) (if (ge a 500) (error 1)) (if (ge b 500) (error 2)))",
			"((draw a (distinct (i 0 50) 0 8 (id))) (if (lenge a 4) (fatal 1)) (if (lenge a 2) (fatal 2)))",
			"((draw a (i 0 1000)) (if (ge a 900) (rtpanic 1)) (if (ge a 500) (fatal 2)) (if (ge a 100) (failnow 3)))",
			"((draw a (string (runes 97 98 233 8364 128512) 0 -1 -1)) (draw b (mapof (i 0 9) (bool) 0 -1)) (if (lenge a 5) (fatal 1)) (if (lenge b 3) (fatal 2)))",
			// distinct failure sites that report the SAME message: only the call stack tells them apart
			"((draw a (slice (i 0 1000) 0 8)) (draw b (i -9223372036854775808 9223372036854775807)) (if (lenge a 3) (failnow 1)) (if (ge b 100) (failnow 2)))",
			"((draw a (i 0 1000)) (draw b (i 0 1000)) (if (ge a 700) (rtpanic 1)) (if (ge b 300) (rtpanic 2)))",
			"((draw a (distinct (i 0 50) 0 8 (id))) (if (lenge a 4) (failnow 1)) (if (lenge a 2) (failnow 2)))",
			"((draw a (i 0 1000)) (draw b (slice (bool) 0 5)) (if (ge a 500) (failnow 3)) (if (lenge b 2) (failnow 4)))",
			// chained filters: a rejected attempt of the inner filter begins where the rejected attempt of the outer one begins
			"((draw a (filter (filter (u 0 1000) (mod 3 0)) (ge 400))) (draw b (u 0 1000)) (if (mod b 2 1) (fatal 2)) (if (ge a 700) (fatal 1)))",
			"((draw a (filter (filter (filter (i 0 99) (mod 2 0)) (ge 30)) (lt 90))) (draw b (i 0 99)) (draw c (bool)) (if (ge b 50) (fatal 1)) (if (lt b 50) (if (ge a 60) (fatal 2))))",
			// a failure inside an action of Repeat, right after its last draw: the group of the failing step is still
			// open, its coin lies between finished groups, and the last group ends at the end of the data
			"((draw a (u 0 255)) (repeat (act (draw x (u 0 255)) (if (ge a 5) (if (ge x 7) (fatal 1))))))",
			"((draw a (u 0 255)) (repeat (act (draw x (u 0 255)) (if (ge a 5) (if (lt a 10) (if (ge x 7) (fatal 1)))))))",
			"((draw a (u 0 255)) (draw b (u 0 255)) (repeat (act (draw x (u 0 255)) (if (ge x 200) (fatal 1))) (act (draw y (slice (u 0 9) 0 3)) (if (ge b 100) (if (lenge y 2) (fatal 2))))))",
			// the failing statement sits at a call depth that is drawn: the same statement reached through more or fewer
			// recursive calls is another call stack, hence another failure
			"((draw d (i 0 6)) (draw a (i 0 1000)) (deep d (if (ge a 500) (fatal 1))))",
			"((draw d (u 1 9)) (draw a (slice (bool) 0 5)) (deep d (if (lenge a 2) (error 1))) (if (lenge a 4) (fatal 2)))",
		}
		ncollapse := len(collapseCorpus) * 4 * scale
		for i := 0; i < 40*scale+ncollapse; i++ {
			var prog *SX
			listed := false
			fl := baseFlags()
			fl.Seed = r.u64() | 1
			fl.ShrinkTime = []time.Duration{0, 30 * time.Second, time.Duration(1+r.intn(4000)) * time.Microsecond}[r.intn(3)]
			if i < ncollapse {
				// minimization that makes the recording collapse (see collapseCorpus)
				prog = mustSX(collapseCorpus[i%len(collapseCorpus)])
				fl.ShrinkTime = 30 * time.Second
				m.tag("collapse-corpus")
			} else if i-ncollapse < 2*len(progs) {
				// every listed program at least twice, with time to finish the minimization
				prog = mustSX(progs[(i-ncollapse)%len(progs)])
				fl.ShrinkTime = 30 * time.Second
				fl.Checks = 400
				listed = true
			} else if r.chance(1, 2) {
				prog = mustSX(progs[r.intn(len(progs))])
				listed = true
			} else {
				prog = r.engineProgram()
			}
			run := runCheckTB(prog, fl, "c05", nil)
			if run.escaped != nil {
				// Check itself panicked: minimization did not end with a (smaller) failing test case
				p := flagsStr(fl)
				p["prog"] = prog.String()
				m.eval(prog.String()+fmt.Sprint(fl.Seed), true)
				m.violate(violation{"C05", "crash", fmt.Sprintf("Check crashed instead of reporting the failure: %v", run.escaped), p})
				continue
			}
			kind, _, _ := verdictMsg(run.verdict)
			if kind == "flaky" {
				// the property is a deterministic function of its draws: "flaky" means minimization
				// ended at a failure with another traceback than the one it started from
				p := flagsStr(fl)
				p["prog"] = prog.String()
				m.eval(prog.String()+fmt.Sprint(fl.Seed), true)
				m.violate(violation{"C05", "site", "minimization moved to a different failure: deterministic property reported as flaky: " + run.verdict, p})
				continue
			}
			if kind != "failed" && kind != "panic" {
				m.eval(prog.String()+fmt.Sprint(fl.Seed), false)
				continue
			}
			what := ""
			// site of the first falsified random test case vs site of the reported one
			firstSite, finalSite := "", ""
			var firstWords []uint64
			idxRepro := -1
			for k, inv := range run.in.invs {
				if !inv.isBuf {
					idxRepro = k
				}
			}
			if idxRepro >= 0 {
				// the reproduce step is the last PRNG-backed invocation; its recording is what shrink starts from
				firstSite = siteOf(run.in.invs[idxRepro])
			}
			_, last := run.lastBuf()
			if last != nil {
				finalSite = siteOf(last)
			}
			if firstSite != "" && finalSite != "" && firstSite != finalSite {
				what = fmt.Sprintf("minimized failure is at %s, the failure found was at %s", finalSite, firstSite)
			}
			if listed && firstSite != "" && last != nil && finalSite == "" {
				// (the listed programs signal nothing from Custom functions and have no action that gives up: D2/D8 do not apply)
				what = fmt.Sprintf("the failure found was at %s; the minimized test case [%s], run for the report, does not fail (it drew %v)", firstSite, joinU64(last.words), last.vals)
			}
			// accepted candidates are strictly decreasing
			var prev []uint64
			bufs := [][]uint64{}
			for _, inv := range run.in.invs {
				if inv.isBuf {
					bufs = append(bufs, inv.words)
				}
			}
			if len(bufs) > 0 {
				bufs = bufs[:len(bufs)-1]
			}
			accepted := 0
			for k := 0; k+1 < len(bufs); k++ {
				if equalWords(bufs[k], bufs[k+1]) {
					if prev != nil && rapid.VerifCompareData(bufs[k], prev) >= 0 {
						what = fmt.Sprintf("accepted candidate [%s] is not smaller than the previous one [%s]", joinU64(bufs[k]), joinU64(prev))
					}
					prev = bufs[k]
					accepted++
					k++
				}
			}
			_ = firstWords
			m.tag("accepted-steps-" + strconv.Itoa(min(accepted, 5)))
			m.eval(prog.String()+fmt.Sprint(fl.Seed), true)
			if what != "" {
				p := flagsStr(fl)
				p["prog"] = prog.String()
				m.violate(violation{"C05", "site", what, p})
			}
		}
		// element-level Filter inside a collection: lowering a block of a rejected-then-retried element makes the accepted
		// recording shorter and moves other blocks to the position being minimized.  Explicit bitstreams (three elements,
		// each: continue coin, bias block, value block; then the stop coin); the result of shrink must replay to the same
		// failure and be its own recording.
		const cont, bias16, bias3 = uint64(1) << 52, uint64(7) << 50, uint64(1) << 51
		for k := 0; k < 6*scale; k++ {
			a, b2, c3 := uint64(4611), uint64(300), uint64(500)
			if k > 0 {
				a, b2, c3 = 4000+uint64(r.intn(1500)), 4+uint64(r.intn(900)), 4+uint64(r.intn(1200))
			}
			buf := []uint64{cont, bias16, a, bias3, bias16 | b2, b2, bias16, bias16 | (c3 * 83 % 65536), c3, 0}
			if k == 0 {
				buf[7] = bias16 | 41920
			}
			m.tag("element-filter-collapse")
			m.eval(fmt.Sprint("efc", buf), true)
			if what := c05ElementFilter(buf); what != "" {
				m.violate(violation{"C05", "efc", what, map[string]string{"words": joinU64(buf)}})
			}
		}
		// a Filter with one hole in front of a slice: proposals of the block minimizer that fall into the hole
		const hb = uint64(6305039478318694) // "8 bits" as a bias block, "continue" as a coin
		for k := 0; k < 8*scale; k++ {
			hole, lo1 := uint8(36), uint8(11)
			if k > 0 {
				hole = uint8(2 * (8 + r.intn(50)))
				lo1 = uint8(5 + r.intn(int(hole)/2-5))
			}
			lo2 := hole / 2
			for _, x0 := range []uint64{2 * uint64(hole), uint64(hole) + 1 + uint64(r.intn(100))} {
				buf := []uint64{hb, 150, hb, x0 & 255, hb, uint64(lo1), 1, 0}
				m.tag("stale-best")
				m.eval(fmt.Sprint("stale", hole, lo1, buf), true)
				if what := c05StaleBest(hole, lo1, lo2, buf); what != "" {
					m.violate(violation{"C05", "stale", what, map[string]string{"words": joinU64(buf), "hole": fmt.Sprint(hole), "lo1": fmt.Sprint(lo1), "lo2": fmt.Sprint(lo2)}})
				}
			}
		}
		// two failure sites that differ in the frames of an inlined function only
		for k := 0; k < 4*scale; k++ {
			seed := r.u64() | 1
			m.tag("inlined-sites")
			m.eval(fmt.Sprint("inlined", seed), true)
			if what := c05InlinedSites(seed); what != "" {
				m.violate(violation{"C05", "inlined", what, map[string]string{"seed": fmt.Sprint(seed)}})
			}
		}
		// two call sites of the property that reach the failing statement through a deep chain of calls
		for k := 0; k < 4*scale; k++ {
			seed := r.u64() | 1
			m.tag("deep-call-sites")
			m.eval(fmt.Sprint("deep", seed), true)
			if what := c05DeepSites(seed); what != "" {
				m.violate(violation{"C05", "deep", what, map[string]string{"seed": fmt.Sprint(seed)}})
			}
		}
		// seven-word standalone groups that are not floats and get shorter when the float pass lowers one of their words
		for _, k := range []int{4, 5, 6} {
			for _, pre := range []int{0, 2} {
				for _, post := range []int{0, 1} {
					buf := make([]uint64, pre+7+post)
					buf[pre+k-2] = 1
					m.tag("short-record")
					m.eval(fmt.Sprint("shortrec", k, pre, post), true)
					if what := c05ShortRecord(k, pre, post, buf); what != "" {
						m.violate(violation{"C05", "shortrec", what, map[string]string{"words": joinU64(buf), "k": fmt.Sprint(k), "pre": fmt.Sprint(pre), "post": fmt.Sprint(post)}})
					}
				}
			}
		}
	}
}

func init() {
	replayers["efc"] = func(v violation, tmp string) (bool, string) {
		what := c05ElementFilter(parseWordsGo(v.Params["words"]))
		return what != "", what
	}
	replayers["case-tied"] = func(v violation, tmp string) (bool, string) {
		seed, _ := strconv.ParseUint(v.Params["seed"], 10, 64)
		what := c04CaseTiedActions(seed)
		return what != "", what
	}
	replayers["make-replay"] = func(v violation, tmp string) (bool, string) {
		seed, _ := strconv.ParseUint(v.Params["seed"], 10, 64)
		what := c04MakeReplay(seed)
		return what != "", what
	}
	replayers["gotest-fuzz"] = func(v violation, tmp string) (bool, string) {
		what, ran := c13GoTest(tmp)
		return ran && what != "", what
	}
	replayers["gotest"] = func(v violation, tmp string) (bool, string) {
		what, ran := c09GoTest(tmp)
		return ran && what != "", what
	}
	replayers["deep"] = func(v violation, tmp string) (bool, string) {
		seed, _ := strconv.ParseUint(v.Params["seed"], 10, 64)
		what := c05DeepSites(seed)
		return what != "", what
	}
	replayers["inlined"] = func(v violation, tmp string) (bool, string) {
		seed, _ := strconv.ParseUint(v.Params["seed"], 10, 64)
		what := c05InlinedSites(seed)
		return what != "", what
	}
	replayers["stale"] = func(v violation, tmp string) (bool, string) {
		what := c05StaleBest(uint8(atoiS(v.Params["hole"])), uint8(atoiS(v.Params["lo1"])), uint8(atoiS(v.Params["lo2"])), parseWordsGo(v.Params["words"]))
		return what != "", what
	}
	replayers["shortrec"] = func(v violation, tmp string) (bool, string) {
		what := c05ShortRecord(atoiS(v.Params["k"]), atoiS(v.Params["pre"]), atoiS(v.Params["post"]), parseWordsGo(v.Params["words"]))
		return what != "", what
	}
	replayers["crash"] = func(v violation, tmp string) (bool, string) {
		prog, err := parseSX(v.Params["prog"])
		if err != nil {
			return true, "bad program"
		}
		run := runCheckTB(prog, parseFlags(v.Params), "replay", nil)
		if run.escaped != nil {
			return true, fmt.Sprintf("Check crashed: %v", run.escaped)
		}
		return false, run.verdict
	}
}

// the failure site of an invocation as the interpreter saw it: the last failure statement
func siteOf(inv *invocation) string {
	for i := len(inv.events) - 1; i >= 0; i-- {
		if strings.HasPrefix(inv.events[i], "F:") {
			return inv.events[i]
		}
	}
	return ""
}

func min(a, b int) int {
	if a < b {
		return a
	}
	return b
}

// ---------------------------------------------------------------- C07 / C09: seeds and counts

func init() {
	monitors["C07"] = func(r *rng, scale int, m *monOut, tmp string) {
		// a fixed seed fixes the run whatever way the check is set up: Check, MakeCheck inline, and a MakeCheck value
		// created before the test binary parsed its flags (a package-level table of subtests) — through `go test`
		if what, ran := c07GoTest(tmp); ran {
			m.tag("go-test-makecheck")
			m.eval("go-test-makecheck", true)
			if what != "" {
				m.violate(violation{"C07", "seed", what, map[string]string{"how": "go test -rapid.seed=4242 in a scratch module with a package-level MakeCheck"}})
			}
		} else {
			m.tag("go-test-unavailable:" + what)
		}
		// a failure replayed from a fail file: a seed offered in its report reproduces the failure, too
		for i := 0; i < 3*scale; i++ {
			src := []string{"((draw a (i 0 99)) (draw b (slice (bool) 0 4)) (if (ge a 60) (fatal 1)))", "((draw x (u 0 18446744073709551615)) (if (mod x 16 5) (error 1)))",
				"((draw a (i 0 99)) (if (lt a 20) (skip)) (if (ge a 90) (fatal 1)))"}[i%3]
			prog := mustSX(src)
			dir, _ := os.MkdirTemp(tmp, "c07ff-")
			fl := baseFlags()
			fl.Nofailfile = false
			fl.Seed = r.u64() | 1
			var run1, run2 *tbRun
			inDir(dir, func() { run1 = runCheckTB(prog, fl, "TestSeedOffer", nil) })
			kind1, _, msg1 := verdictMsg(run1.verdict)
			if kind1 == "failed" && len(listFailFiles(dir, "TestSeedOffer")) == 1 {
				fl2 := fl
				fl2.Seed = r.u64() | 1
				inDir(dir, func() { run2 = runCheckTB(prog, fl2, "TestSeedOffer", nil) })
				m.tag("seed-offered-after-failfile-replay")
				m.eval("seed-offer "+src+fmt.Sprint(fl.Seed), true)
				if k := strings.LastIndex(run2.verdict, ":seed="); k >= 0 {
					if seed2, err := strconv.ParseUint(run2.verdict[k+6:], 10, 64); err == nil && seed2 != 0 {
						fl3 := fl
						fl3.Seed = seed2
						fl3.Nofailfile = true
						clean, _ := os.MkdirTemp(tmp, "c07fc-")
						var run3 *tbRun
						inDir(clean, func() { run3 = runCheckTB(prog, fl3, "TestSeedOffer", nil) })
						kind3, valid3, msg3 := verdictMsg(run3.verdict)
						if kind3 != "failed" || valid3 != "0" || msg3 != msg1 {
							p := flagsStr(fl2)
							p["prog"] = src
							m.violate(violation{"C07", "seed", fmt.Sprintf("the report of a failure replayed from the fail file offers -rapid.seed=%d; a run with that seed gives %s (the failure: %s)", seed2, run3.verdict, run1.verdict), p})
						} else if len(run3.in.invs) > 0 && len(run2.in.invs) > 0 && strings.Join(run3.in.invs[0].draws, ";") != strings.Join(run2.in.invs[0].draws, ";") {
							// the printed seed makes the first test case draw the values of the test case the report is about
							p := flagsStr(fl2)
							p["prog"] = src
							m.violate(violation{"C07", "seed", fmt.Sprintf("the report of a failure replayed from the fail file (draws %v) offers -rapid.seed=%d; with that seed the first test case draws %v", run2.in.invs[0].draws, seed2, run3.in.invs[0].draws), p})
						}
						os.RemoveAll(clean)
					}
				}
			}
			os.RemoveAll(dir)
		}
		for i := 0; i < 40*scale; i++ {
			// fails for a value class of known frequency ⇒ first failing index varies
			th := []int{0, 30, 60, 90, 97, 99}[r.intn(6)]
			src := fmt.Sprintf("((draw a (i 0 99)) (draw b (slice (bool) 0 4)) (if (ge a %d) (fatal 1)))", th)
			if r.chance(1, 3) {
				src = fmt.Sprintf("((draw a (i 0 99)) (if (lt a 20) (skip)) (draw b (distinct (i 0 3) 0 3 (id))) (if (ge a %d) (error 1)))", th)
			}
			prog := mustSX(src)
			fl := baseFlags()
			fl.Seed = r.u64() | 1
			fl.ShrinkTime = 0
			run := runCheckTB(prog, fl, "c07", nil)
			kind, valid, _ := verdictMsg(run.verdict)
			if kind == "flaky" {
				// the property is a deterministic function of its draws: the seed rapid re-ran was not the failing one
				m.eval(src+fmt.Sprint(fl.Seed), true)
				p := flagsStr(fl)
				p["prog"] = src
				m.violate(violation{"C07", "seed", "the failing test case did not reproduce from the seed rapid recorded for it: " + run.verdict, p})
				continue
			}
			if kind != "failed" && kind != "panic" {
				m.eval(src+fmt.Sprint(fl.Seed), false)
				continue
			}
			m.tag("first-failing-after-" + valid)
			seedStr := run.verdict[strings.LastIndex(run.verdict, ":seed=")+6:]
			rep, _ := strconv.ParseUint(seedStr, 10, 64)
			// draws of the originally failing test case = the reproduce invocation (last PRNG-backed)
			var orig *invocation
			for _, inv := range run.in.invs {
				if !inv.isBuf {
					orig = inv
				}
			}
			fl2 := fl
			fl2.Seed = rep
			run2 := runCheckTB(prog, fl2, "c07", nil)
			kind2, valid2, _ := verdictMsg(run2.verdict)
			what := ""
			switch {
			case rep == 0:
				what = "no seed printed"
			case kind2 != kind || valid2 != "0":
				what = fmt.Sprintf("-rapid.seed=%d gives %s, not a failure after 0 tests", rep, run2.verdict)
			case orig != nil && strings.Join(run2.in.invs[0].draws, ";") != strings.Join(orig.draws, ";"):
				what = fmt.Sprintf("first test case under -rapid.seed=%d draws %v, the failing case drew %v", rep, run2.in.invs[0].draws, orig.draws)
			}
			// whole run repeats under the fixed seed
			run3 := runCheckTB(prog, fl, "c07", nil)
			if what == "" && (run3.verdict != run.verdict || len(run3.in.invs) != len(run.in.invs)) {
				what = fmt.Sprintf("two runs with -rapid.seed=%d differ: %s (%d invocations) vs %s (%d)", fl.Seed, run.verdict, len(run.in.invs), run3.verdict, len(run3.in.invs))
			}
			m.eval(src+fmt.Sprint(fl.Seed), true)
			if what != "" {
				p := flagsStr(fl)
				p["prog"] = src
				m.violate(violation{"C07", "seed", what, p})
			}
		}
	}

	monitors["C09"] = func(r *rng, scale int, m *monOut, tmp string) {
		// the promised amount of work under the timeouts of `go test` (none, default, explicit) and with -short
		if what, ran := c09GoTest(tmp); ran {
			m.tag("go-test-timeouts")
			m.eval("go-test-timeouts", true)
			if what != "" {
				m.violate(violation{"C09", "gotest", what, map[string]string{"how": "a scratch test package against /repo, its test binary run with -test.timeout=0 / default / 1h / -test.short"}})
			}
		} else {
			m.tag("go-test-unavailable:" + what)
		}
		// very large numbers of checks with deadlines near and far: every one of them is run (a property that
		// neither draws nor fails; the count is all that is looked at)
		for _, big := range []struct {
			checks int
			until  time.Duration
		}{{110000, 24 * time.Hour}, {250000, 24 * time.Hour}, {120000, 1000 * time.Hour}, {20000, 10 * time.Minute}} {
			fl := baseFlags()
			fl.Checks = big.checks
			fl.Seed = r.u64() | 1
			calls := 0
			tb := newRecTB("c09big")
			withFlags(fl, func() {
				runTB(func() {
					rapid.VerifCheckTB(tb, time.Now().Add(big.until), func(t *rapid.T) { calls++ })
				})
			})
			m.tag("large-checks")
			m.eval(fmt.Sprintf("large-checks %d %v", big.checks, big.until), true)
			if calls != big.checks || tb.failed {
				m.violate(violation{"C09", "counts", fmt.Sprintf("checks=%d with the deadline %v away: the property ran %d times (test failed: %v)", big.checks, big.until, calls, tb.failed),
					map[string]string{"checks": fmt.Sprint(big.checks), "until": big.until.String()}})
			}
		}
		// a state machine whose invariant check skips (after an action that drew): the test case is skipped, it does not
		// count towards the promised number, and a property that skips almost always does not pass
		for _, tc := range []struct {
			src    string
			checks int
		}{
			{"((draw x (i 0 2)) (repeat (check (if (ge x 5) (skip))) (act (draw x (i 0 9)))))", 20},
			{"((draw x (i 0 0)) (repeat (check (emit 90) (if (ge x 1) (skip))) (act (emit 100) (draw x (i 1 9)) (emit 200))))", 50},
			{"((draw x (i 0 2)) (repeat (check (if (ge x 8) (skip))) (act (draw x (i 0 9))) (act (draw y (bool)))))", 17},
		} {
			fl := baseFlags()
			fl.Checks = tc.checks
			fl.Seed = r.u64() | 1
			run := runCheckTB(mustSX(tc.src), fl, "c09sm", nil)
			kind, v, _ := verdictMsg(run.verdict)
			valid, skippedValid := 0, 0
			for _, inv := range run.in.invs {
				if inv.ended == "ret" && !inv.checkSkipped {
					valid++
				}
				if inv.ended == "ret" && inv.checkSkipped {
					skippedValid++
				}
			}
			m.tag("check-skips-" + kind)
			m.eval("check-skips "+tc.src+fmt.Sprint(fl.Seed), true)
			what := ""
			switch {
			case skippedValid > 0:
				what = fmt.Sprintf("%d test cases in which the invariant check called Skip ended as valid ones", skippedValid)
			case kind == "pass" && (valid != tc.checks || v != strconv.Itoa(tc.checks)):
				what = fmt.Sprintf("passed with %d valid test cases (reported %s), checks=%d", valid, v, tc.checks)
			case kind != "pass" && kind != "only":
				what = "unexpected verdict " + run.verdict
			}
			if what != "" {
				p := flagsStr(fl)
				p["prog"] = tc.src
				m.violate(violation{"C09", "counts", what, p})
			}
		}
		for i := 0; i < 60*scale; i++ {
			n := int(r.pick(0, 1, 2, 5, 17, 100))
			skipBelow := int(r.pick(0, 0, 3, 5, 9, 10)) // of 10: how often a case is skipped
			src := fmt.Sprintf("((draw a (i 0 9)) (if (lt a %d) (skip)) (draw b (bool)))", skipBelow)
			if i%3 == 2 {
				// a skipped test case may also leave something behind at cleanup time: it must not leak into the next one
				src = fmt.Sprintf("((draw a (i 0 9)) (if (lt a %d) (cleanup (skip)) (skip)) (draw b (bool)))", skipBelow)
			}
			fl := baseFlags()
			fl.Checks = n
			fl.Seed = r.u64() | 1
			// the time reserved for minimization is no reason to run fewer test cases (48h: more than the time to the deadline)
			fl.ShrinkTime = []time.Duration{30 * time.Second, 0, 48 * time.Hour, time.Hour}[r.intn(4)]
			run := runCheckTB(mustSX(src), fl, "c09", nil)
			kind, v, rest := verdictMsg(run.verdict)
			valid, invalid := 0, 0
			for _, inv := range run.in.invs {
				if inv.ended == "ret" {
					valid++
				} else {
					invalid++
				}
			}
			what := ""
			switch {
			case kind == "pass":
				if valid != n || v != strconv.Itoa(n) || len(run.in.invs) != valid+invalid {
					what = fmt.Sprintf("passed with %d valid test cases (reported %s), checks=%d", valid, v, n)
				}
				if run.tb.failed {
					what = "passed but the test is marked failed"
				}
			case kind == "only":
				if valid >= n && n > 0 {
					what = fmt.Sprintf("'only generated' although %d valid cases ran (checks=%d)", valid, n)
				}
				if invalid != 10*n {
					what = fmt.Sprintf("gave up after %d skipped cases, promised %d", invalid, 10*n)
				}
				if run.tb.exited != "FailNow" {
					what = "failed Check did not stop the test (FailNow)"
				}
				_ = rest
			case kind == "nothing" && n == 0:
				// checks=0: nothing to do
			default:
				what = "unexpected verdict " + run.verdict
			}
			m.tag(fmt.Sprintf("checks-%d", n))
			m.tag("verdict-" + kind)
			m.eval(src+fmt.Sprint(n, fl.Seed), true)
			if what != "" {
				p := flagsStr(fl)
				p["prog"] = src
				m.violate(violation{"C09", "counts", what, p})
			}
		}
		// a deadline that cuts the run short (early exit): still no vacuous pass
		for i := 0; i < 10*scale; i++ {
			skipBelow := int(r.pick(0, 5, 10, 10))
			src := fmt.Sprintf("((draw a (i 0 9)) (if (lt a %d) (skip)) (draw b (bool)))", skipBelow)
			fl := baseFlags()
			fl.Checks = int(r.pick(1, 5, 100))
			fl.Seed = r.u64() | 1
			run := &tbRun{tb: newRecTB("c09"), in: newInterp(mustSX(src), false)}
			withFlags(fl, func() {
				run.escaped = runTB(func() { rapid.VerifCheckTB(run.tb, time.Now().Add(-time.Second), run.in.prop) })
			})
			run.verdict = tbVerdict(run.tb)
			kind, _, _ := verdictMsg(run.verdict)
			valid := 0
			for _, inv := range run.in.invs {
				if inv.ended == "ret" {
					valid++
				}
			}
			what := ""
			if kind == "pass" && valid == 0 {
				what = fmt.Sprintf("passed without a single valid test case (%d invocations, all skipped) when the deadline cut the run short", len(run.in.invs))
			}
			if kind == "only" && run.tb.exited != "FailNow" {
				what = "failed Check did not stop the test (FailNow)"
			}
			m.tag("early-exit-" + kind)
			m.eval(src+fmt.Sprint(fl.Checks, fl.Seed, "early"), true)
			if what != "" {
				p := flagsStr(fl)
				p["prog"] = src
				p["deadline"] = "expired"
				m.violate(violation{"C09", "counts", what, p})
			}
		}
		// after the first falsified case no fresh random case is generated
		for i := 0; i < 20*scale; i++ {
			src := "((draw a (i 0 99)) (if (ge a 80) (fatal 1)))"
			fl := baseFlags()
			fl.Seed = r.u64() | 1
			run := runCheckTB(mustSX(src), fl, "c09", nil)
			seenFail := false
			what := ""
			nAfter := 0
			for _, inv := range run.in.invs {
				if seenFail && !inv.isBuf {
					nAfter++
				}
				if inv.signalled {
					seenFail = true
				}
			}
			if nAfter > 1 { // exactly one PRNG-backed invocation follows: the reproduction of the failing seed
				what = fmt.Sprintf("%d PRNG-driven test cases ran after the first falsified one", nAfter)
			}
			if seenFail && run.tb.exited != "FailNow" {
				what = "failed Check did not stop the test (FailNow)"
			}
			m.eval(src+fmt.Sprint(fl.Seed), true)
			if what != "" {
				p := flagsStr(fl)
				p["prog"] = src
				m.violate(violation{"C09", "after-fail", what, p})
			}
		}
	}
}

// ---------------------------------------------------------------- C06 / C17: fail files

func inDir(dir string, f func()) {
	old, _ := os.Getwd()
	_ = os.Chdir(dir)
	defer os.Chdir(old)
	f()
}

func listFailFiles(dir, name string) []string {
	pat := filepath.Join(dir, rapid.VerifFailFilePattern(name))
	ms, _ := filepath.Glob(pat)
	sort.Strings(ms)
	return ms
}

func init() {
	monitors["C06"] = func(r *rng, scale int, m *monOut, tmp string) {
		names := []string{"TestA", "Test/sub test", "Тест_юникод", "con", "COM1", "a*b?c[d]", `back\slash`, "x..y", "LPT¹", strings.Repeat("long", 30),
			"Test/" + strings.Repeat("長い名前→、", 14) + "/end", strings.Repeat("a→", 60)} // (long, but the sanitized form still fits in a file name)
		outputs := []string{"", "plain line", "line1\nline2\n", "\x00\xff\xfe binary \r\n# 0x12\n", strings.Repeat("x", 70000), "a\rb", "# v0.4.8#1\n0x1"}
		for i := 0; i < 12*scale; i++ {
			name := names[r.intn(len(names))]
			output := outputs[r.intn(len(outputs))]
			src := "((draw a (slice (i 0 1000) 0 6)) (draw b (i -9223372036854775808 9223372036854775807)) (if (ge b 1000) (fatal 1)))"
			if r.chance(1, 4) || i == 1 {
				src = "((fatal 1))" // empty bitstream: the fail file has a header and no data words
			} else if r.chance(1, 3) || i == 0 {
				// a long bitstream: the minimized test case has thousands of words (a fail file of many KB)
				src = "((draw a (slice (u 0 18446744073709551615) 700 700)) (draw b (i -9223372036854775808 9223372036854775807)) (if (ge b 1000) (fatal 1)))"
			}
			seed1 := r.u64() | 1
			if i%6 == 2 {
				// a base seed just below 2^64 and a property whose first failing test case is the one whose seed wraps
				// around to 0: a failure like any other
				if wsrc, wseed, ok := c06WrapCase(); ok {
					src, seed1 = wsrc, wseed
					m.tag("failing-case-has-seed-0")
				}
			}
			prog := mustSX(src)
			dir, _ := os.MkdirTemp(tmp, "c06-")
			fl := baseFlags()
			fl.Nofailfile = false
			fl.Seed = seed1
			fl.ShrinkTime = []time.Duration{0, 30 * time.Second}[r.intn(2)]
			if strings.Contains(src, "700 700") {
				fl.ShrinkTime = 0 // the pruned original: long enough, and no minutes of minimization
			}
			logOutput := func(in *interp, t *rapid.T) {
				if output != "" {
					t.Log(output)
				}
			}
			var run1, run2 *tbRun
			inDir(dir, func() { run1 = runCheckTB(prog, fl, name, logOutput) })
			files := listFailFiles(dir, name)
			what := ""
			kind1, _, msg1 := verdictMsg(run1.verdict)
			if kind1 != "failed" {
				what = "first run did not fail: " + run1.verdict
			} else if len(files) != 1 {
				what = fmt.Sprintf("%d fail files found for test %q after a failure", len(files), name)
			} else {
				_, _, buf, err := rapid.VerifLoad(files[0])
				wantBuf, last1 := run1.lastBuf()
				if err != nil {
					what = fmt.Sprintf("fail file written by a failure cannot be loaded: %v", err)
				} else if !equalWords(buf, wantBuf) {
					what = fmt.Sprintf("fail file holds [%s], the minimized test case is [%s]", joinU64(buf), joinU64(wantBuf))
				} else {
					fl2 := fl
					fl2.Seed = r.u64() | 1 // a different seed: the file must be found without any flag
					inDir(dir, func() { run2 = runCheckTB(prog, fl2, name, logOutput) })
					kind2, valid2, msg2 := verdictMsg(run2.verdict)
					switch {
					case kind2 != "failed" || valid2 != "0" || msg2 != msg1:
						what = fmt.Sprintf("rerun gives %s, first run gave %s", run2.verdict, run1.verdict)
					case len(run2.in.invs) == 0 || !run2.in.invs[0].isBuf:
						what = "rerun executed a random test case before replaying the fail file"
					case strings.Join(run2.in.invs[0].draws, ";") != strings.Join(last1.draws, ";"):
						what = fmt.Sprintf("rerun drew %v, the persisted case drew %v", run2.in.invs[0].draws, last1.draws)
					}
					if what == "" {
						// the persisted failure reproduced: no random test case runs at all, and no second fail file appears
						for k, inv := range run2.in.invs {
							if !inv.isBuf {
								what = fmt.Sprintf("rerun executed a random test case (invocation %d) although the fail file reproduces the failure", k)
								break
							}
						}
						if n := len(listFailFiles(dir, name)); what == "" && n != 1 {
							what = fmt.Sprintf("%d fail files after the rerun (the failure came from the fail file)", n)
						}
					}
					// the failure came from the fail file: if the report offers a seed as well, that seed reproduces it
					if what == "" {
						if k := strings.LastIndex(run2.verdict, ":seed="); k >= 0 {
							if seed2, err := strconv.ParseUint(run2.verdict[k+6:], 10, 64); err == nil && seed2 != 0 {
								fl5 := fl
								fl5.Seed = seed2
								fl5.Nofailfile = true
								clean5, _ := os.MkdirTemp(tmp, "c06s-")
								var run5 *tbRun
								inDir(clean5, func() { run5 = runCheckTB(prog, fl5, name, logOutput) })
								kind5, valid5, msg5 := verdictMsg(run5.verdict)
								m.tag("failfile-report-with-seed")
								if kind5 != "failed" || valid5 != "0" || msg5 != msg1 {
									what = fmt.Sprintf("the report of a failure replayed from the fail file offers -rapid.seed=%d; with that seed: %s", seed2, run5.verdict)
								} else if len(run5.in.invs) > 0 && strings.Join(run5.in.invs[0].draws, ";") != strings.Join(run2.in.invs[0].draws, ";") {
									// (the seed printed with a failure makes the first test case draw the values of the test case the report
									// is about: here the persisted one)
									what = fmt.Sprintf("the report of a failure replayed from the fail file (draws %v) offers -rapid.seed=%d; with that seed the first test case draws %v", run2.in.invs[0].draws, seed2, run5.in.invs[0].draws)
								}
								os.RemoveAll(clean5)
							}
						}
					}
					// explicit -rapid.failfile as well
					if what == "" {
						fl3 := fl2
						fl3.Failfile = files[0]
						dir3, _ := os.MkdirTemp(tmp, "c06b-")
						var run3 *tbRun
						inDir(dir3, func() { run3 = runCheckTB(prog, fl3, name, logOutput) })
						kind3, valid3, msg3 := verdictMsg(run3.verdict)
						if kind3 != "failed" || valid3 != "0" || msg3 != msg1 {
							what = fmt.Sprintf("-rapid.failfile rerun gives %s", run3.verdict)
						}
					}
					// -rapid.failfile is given for the whole test binary: when it names the file of another test (one that
					// passes here), or a file that is not there, the failure persisted for *this* test is still replayed first
					if what == "" {
						stale := filepath.Join(tmp, "c06-other-test.fail")
						_ = os.WriteFile(stale, []byte("# another test\n"+rapid.VerifVersion+"#1\n0x0\n0x0\n0x0\n0x0\n0x0\n0x0"), 0o644)
						for _, ex := range []string{stale, filepath.Join(tmp, "c06-missing.fail")} {
							fl4 := fl2
							fl4.Failfile = ex
							var run4 *tbRun
							inDir(dir, func() { run4 = runCheckTB(prog, fl4, name, logOutput) })
							kind4, valid4, msg4 := verdictMsg(run4.verdict)
							m.tag("failfile-flag-names-another-file")
							replayedFirst := false
							for _, inv := range run4.in.invs {
								if !inv.isBuf {
									break
								}
								if strings.Join(inv.draws, ";") == strings.Join(last1.draws, ";") {
									replayedFirst = true
								}
							}
							if kind4 != "failed" || valid4 != "0" || msg4 != msg1 || !replayedFirst {
								what = fmt.Sprintf("with -rapid.failfile=%s (not a failing case of this test) the persisted failure is not replayed first: %s", filepath.Base(ex), run4.verdict)
							}
						}
					}
					// the other way round: the *failing* run itself was made with -rapid.failfile naming a file that does not make
					// this test fail (another test's, or none): the failure found by the random search is persisted all the same
					if what == "" {
						stale := filepath.Join(tmp, "c06-other-test.fail")
						for _, ex := range []string{stale, filepath.Join(tmp, "c06-missing.fail")} {
							dir6, _ := os.MkdirTemp(tmp, "c06f-")
							fl6 := fl
							fl6.Failfile = ex
							var run6, run7 *tbRun
							inDir(dir6, func() { run6 = runCheckTB(prog, fl6, name, logOutput) })
							kind6, _, msg6 := verdictMsg(run6.verdict)
							made := listFailFiles(dir6, name)
							m.tag("failing-run-with-failfile-flag")
							// (a property that fails whatever it draws fails on the other test's file, too: then the failure came from
							// that file and nothing new is to be written)
							fromFile := len(run6.in.invs) > 0 && run6.in.invs[0].isBuf && run6.in.invs[0].signalled
							if fromFile {
								os.RemoveAll(dir6)
								continue
							}
							if kind6 == "failed" && len(made) != 1 {
								what = fmt.Sprintf("a failure found while -rapid.failfile=%s (which does not fail this test) was given: %d fail files written", filepath.Base(ex), len(made))
							} else if kind6 == "failed" {
								inDir(dir6, func() { run7 = runCheckTB(prog, fl2, name, logOutput) })
								if kind7, valid7, msg7 := verdictMsg(run7.verdict); kind7 != "failed" || valid7 != "0" || msg7 != msg6 {
									what = fmt.Sprintf("a failure found while -rapid.failfile=%s was given is not replayed first by the next run: %s, first run %s", filepath.Base(ex), run7.verdict, run6.verdict)
								}
							}
							os.RemoveAll(dir6)
						}
					}
				}
			}
			m.tag("name-" + name[:min(len(name), 8)])
			m.tag(fmt.Sprintf("output-%dB", len(output)))
			if strings.Contains(src, "700 700") {
				m.tag("bitstream-of-thousands-of-words")
			}
			m.eval(name+src+fmt.Sprint(len(output), fl.Seed), true)
			if what != "" {
				p := flagsStr(fl)
				p["prog"], p["name"], p["output_len"] = src, name, fmt.Sprint(len(output))
				m.violate(violation{"C06", "persist", what, p})
			}
			os.RemoveAll(dir)
		}
	}

	monitors["C17"] = func(r *rng, scale int, m *monOut, tmp string) {
		valid := "# out\nv0.4.8#123\n0x5\n0x0\n0x11"
		for i := 0; i < 40*scale; i++ {
			failing := r.chance(1, 2)
			src := "((draw a (i 0 99)) (draw b (slice (bool) 0 3)))"
			if failing {
				src = "((draw a (i 0 99)) (draw b (slice (bool) 0 3)) (if (ge a 70) (fatal 1)))"
			}
			prog := mustSX(src)
			name := "TestX"
			dir, _ := os.MkdirTemp(tmp, "c17-")
			ffdir := filepath.Join(dir, "testdata", "rapid", name)
			_ = os.MkdirAll(ffdir, 0o775)
			nfiles := 1 + r.intn(3)
			var kinds []string
			for k := 0; k < nfiles; k++ {
				path := filepath.Join(ffdir, fmt.Sprintf("%s-2026010100000%d-1.fail", name, k))
				var data []byte
				kind := ""
				switch r.intn(11) {
				case 9:
					_ = os.Symlink(filepath.Join(ffdir, "does-not-exist"), path) // listed by the glob, cannot be opened
					kind = "dangling-symlink"
				case 10:
					_ = os.Symlink(path, path) // a symlink to itself
					kind = "symlink-loop"
				case 0:
					kind = "empty"
				case 1:
					data = randBytes(r, 1+r.intn(80))
					kind = "garbage"
				case 2:
					data = []byte(valid[:r.intn(len(valid))])
					kind = "truncated"
				case 3:
					data = []byte(strings.Replace(valid, "v0.4.8", "v0.0.1", 1))
					kind = "other-version"
				case 4:
					data = []byte("v0.4.8#1\n0x1_0000_0000_0000_0000\n99999999999999999999999")
					kind = "huge-number"
				case 5:
					data = []byte("v0.4.8#1#2\n0x1")
					kind = "extra-field"
				case 6:
					data = []byte("v0.4.8#1\n0x0\n0x0\n0x0\n0x0") // a test case that passes now (a = 0)
					kind = "passes-now"
				case 7:
					data = []byte("v0.4.8#1") // no bits: overrun ⇒ invalid
					kind = "invalid-now"
				default:
					_ = os.Mkdir(path, 0o775) // a directory with a matching name: unreadable as a file
					kind = "directory"
				}
				if kind != "directory" && !strings.Contains(kind, "symlink") {
					_ = os.WriteFile(path, data, 0o644)
				}
				kinds = append(kinds, kind)
				m.tag("file-" + kind)
			}
			fl := baseFlags()
			fl.Nofailfile = true // do not add files of our own
			fl.Seed = r.u64() | 1
			fl.Checks = 30
			var with, without *tbRun
			inDir(dir, func() { with = runCheckTB(prog, fl, name, nil) })
			clean, _ := os.MkdirTemp(tmp, "c17c-")
			inDir(clean, func() { without = runCheckTB(prog, fl, name, nil) })
			what := ""
			if with.escaped != nil {
				what = fmt.Sprintf("Check crashed on unusable fail files: %v", with.escaped)
			} else if with.verdict != without.verdict {
				what = fmt.Sprintf("verdict with unusable files %v: %s, without: %s", kinds, with.verdict, without.verdict)
			} else {
				// the random test cases that ran are the same
				a, b := randomDraws(with), randomDraws(without)
				if a != b {
					what = fmt.Sprintf("random test cases differ with unusable files %v present", kinds)
				}
			}
			// the same at the level of doCheck with -rapid.seed unset (the caller's seed is the argument): the random test cases
			// are those of that seed, whatever an unusable file says about seeds
			if what == "" {
				fl0 := fl
				fl0.Seed = 0
				sd := r.u64() | 1
				draws := func(d string) (string, rapid.VerifDoCheckResult) {
					in := newInterp(prog, false)
					var res rapid.VerifDoCheckResult
					inDir(d, func() {
						withFlags(fl0, func() {
							runTB(func() { res = rapid.VerifDoCheck(newRecTB(name), farDeadline(), fl0.Checks, sd, "", true, in.prop) })
						})
					})
					var out []string
					for _, inv := range in.invs {
						if !inv.isBuf {
							out = append(out, strings.Join(inv.draws, ","))
						}
					}
					return strings.Join(out, ";"), res
				}
				da, ra := draws(dir)
				db, rb := draws(clean)
				m.tag("doCheck-level-seed-flag-unset")
				if da != db || ra.Valid != rb.Valid || ra.Invalid != rb.Invalid || ra.Seed != rb.Seed || ra.Err2.Msg() != rb.Err2.Msg() {
					what = fmt.Sprintf("doCheck(seed=%d) without -rapid.seed: with unusable files %v present it ran other random test cases (valid %d/%d, failing seed %d/%d)", sd, kinds, ra.Valid, rb.Valid, ra.Seed, rb.Seed)
				}
			}
			m.eval(src+strings.Join(kinds, ",")+fmt.Sprint(fl.Seed), true)
			if what != "" {
				p := flagsStr(fl)
				p["prog"], p["files"] = src, strings.Join(kinds, ",")
				m.violate(violation{"C17", "unusable", what, p})
			}
			// an unusable file given explicitly (-rapid.failfile) and lying in the test's own directory, next to a
			// usable failing file that sorts after it: the usable one must still be found and replayed first
			if failing && r.chance(1, 2) {
				scratch, _ := os.MkdirTemp(tmp, "c17s-")
				fls := fl
				fls.Nofailfile = false
				fls.Seed = 4242
				fls.Checks = 200
				var first *tbRun
				inDir(scratch, func() { first = runCheckTB(prog, fls, name, nil) })
				made := listFailFiles(scratch, name)
				if k, _, _ := verdictMsg(first.verdict); k == "failed" && len(made) == 1 {
					usable, _ := os.ReadFile(made[0])
					later := fmt.Sprintf("%s-20270101000000-1.fail", name)
					_ = os.WriteFile(filepath.Join(ffdir, later), usable, 0o644)
					only, _ := os.MkdirTemp(tmp, "c17o-")
					_ = os.MkdirAll(filepath.Join(only, "testdata", "rapid", name), 0o775)
					_ = os.WriteFile(filepath.Join(only, "testdata", "rapid", name, later), usable, 0o644)
					fle := fl
					fle.Failfile = filepath.Join("testdata", "rapid", name, fmt.Sprintf("%s-2026010100000%d-1.fail", name, 0))
					var explicit, base *tbRun
					inDir(dir, func() { explicit = runCheckTB(prog, fle, name, nil) })
					inDir(only, func() { base = runCheckTB(prog, fl, name, nil) })
					m.tag("explicit-unusable-next-to-usable")
					m.eval("explicit"+src+strings.Join(kinds, ",")+fmt.Sprint(fl.Seed), true)
					if explicit.escaped != nil || explicit.verdict != base.verdict {
						p := flagsStr(fle)
						p["prog"], p["files"] = src, strings.Join(kinds, ",")
						m.violate(violation{"C17", "unusable", fmt.Sprintf("an unusable fail file (%s) given with -rapid.failfile next to a usable one: verdict %s, with the usable file alone: %s (crash: %v)",
							kinds[0], explicit.verdict, base.verdict, explicit.escaped), p})
					}
					// the same with the unusable explicit file somewhere else: an absolute path, a file that does not exist,
					// another spelling of a path into the directory — the usable file of the directory must still be replayed
					garbage := filepath.Join(tmp, "c17-elsewhere.fail")
					_ = os.WriteFile(garbage, []byte("this is not a fail file\n"), 0o644)
					for _, ex := range []string{garbage, "/nonexistent-dir/x.fail", "./" + filepath.Join("testdata", "rapid", name, name+"-20250101000000-9.fail"),
						filepath.Join("testdata", "rapid", name, name+"-20280101000000-9.fail")} {
						fle2 := fl
						fle2.Failfile = ex
						var elsewhere *tbRun
						inDir(only, func() { elsewhere = runCheckTB(prog, fle2, name, nil) })
						m.tag("explicit-unusable-elsewhere")
						m.eval("explicit-elsewhere"+ex+src+fmt.Sprint(fl.Seed), true)
						if elsewhere.escaped != nil || elsewhere.verdict != base.verdict {
							p := flagsStr(fle2)
							p["prog"], p["files"], p["explicit"] = src, "usable", ex
							m.violate(violation{"C17", "unusable", fmt.Sprintf("an unusable fail file given with -rapid.failfile=%s hides the usable fail file of the test: verdict %s, without the flag: %s (crash: %v)",
								ex, elsewhere.verdict, base.verdict, elsewhere.escaped), p})
						}
					}
					os.RemoveAll(only)
					// the usable file with the version field of a *neighbouring* version (a pre-release, a build tag, another
					// patch level, other case, padding): written by another rapid, ignored — nothing is replayed from it
					cur := rapid.VerifVersion
					for _, ver := range []string{cur + "-rc1", cur + "+fork.2", cur + "-dev", cur + "0", cur + ".1", strings.ToUpper(cur), cur + " ", cur[1:], cur[:len(cur)-2], cur + "-"} {
						vdir, _ := os.MkdirTemp(tmp, "c17v-")
						_ = os.MkdirAll(filepath.Join(vdir, "testdata", "rapid", name), 0o775)
						_ = os.WriteFile(filepath.Join(vdir, "testdata", "rapid", name, later), []byte(strings.Replace(string(usable), "\n"+cur+"#", "\n"+ver+"#", 1)), 0o644)
						var other *tbRun
						inDir(vdir, func() { other = runCheckTB(prog, fl, name, nil) })
						m.tag("file-neighbouring-version")
						m.eval("version"+ver+src+fmt.Sprint(fl.Seed), true)
						replayed := len(other.in.invs) > 0 && other.in.invs[0].isBuf
						if other.escaped != nil || other.verdict != without.verdict || randomDraws(other) != randomDraws(without) || replayed {
							p := flagsStr(fl)
							p["prog"], p["files"], p["version"] = src, "usable with version "+ver, ver
							m.violate(violation{"C17", "unusable", fmt.Sprintf("a fail file written by version %q is not ignored: verdict %s, without files: %s (replayed from it: %v, crash: %v)",
								ver, other.verdict, without.verdict, replayed, other.escaped), p})
						}
						os.RemoveAll(vdir)
					}
					// the usable file damaged so that every data line still *starts* like a word: trailing junk, two words on a
					// line, a comment behind the word, a conflict marker — unusable; the verdict is that of a run without files
					nData := 0
					for _, ln := range strings.Split(string(usable), "\n") {
						if strings.HasPrefix(ln, "0x") {
							nData++
						}
					}
					for ji, junk := range []string{"?? <<<<<<< garbage", ",0x2b", " # note", "xyz", " 0x1", "\t0b1",
						// one damaged word only, and not the last one: a word that is no number, a number that does not fit 64 bits
						"\x00first:zz", "\x00first:ffffffffffffffffff", "\x00butlast:_", "\x00butlast:ffffffffffffffffff"} {
						var lines []string
						di := 0
						for li, ln := range strings.Split(string(usable), "\n") {
							if strings.HasPrefix(ln, "0x") {
								switch {
								case strings.HasPrefix(junk, "\x00first:"):
									if di == 0 && nData > 1 {
										ln += strings.TrimPrefix(junk, "\x00first:")
									}
								case strings.HasPrefix(junk, "\x00butlast:"):
									if di < nData-1 {
										ln += strings.TrimPrefix(junk, "\x00butlast:")
									}
								case ji%2 == 0 || li%2 == 0:
									ln += junk
								}
								di++
							}
							lines = append(lines, ln)
						}
						if strings.HasPrefix(junk, "\x00") && nData < 2 {
							continue
						}
						jdir, _ := os.MkdirTemp(tmp, "c17j-")
						_ = os.MkdirAll(filepath.Join(jdir, "testdata", "rapid", name), 0o775)
						_ = os.WriteFile(filepath.Join(jdir, "testdata", "rapid", name, later), []byte(strings.Join(lines, "\n")), 0o644)
						var junked *tbRun
						inDir(jdir, func() { junked = runCheckTB(prog, fl, name, nil) })
						m.tag("file-trailing-junk")
						m.eval("junk"+junk+src+fmt.Sprint(fl.Seed), true)
						// an unusable file is ignored: nothing is replayed from it before the random test cases
						replayed := len(junked.in.invs) > 0 && junked.in.invs[0].isBuf
						if junked.escaped != nil || junked.verdict != without.verdict || randomDraws(junked) != randomDraws(without) || replayed {
							p := flagsStr(fl)
							p["prog"], p["files"], p["junk"] = src, "trailing-junk", junk
							m.violate(violation{"C17", "unusable", fmt.Sprintf("a fail file whose data lines carry trailing junk %q: verdict %s, without any file: %s (crash: %v; a test case was replayed from it: %v)",
								junk, junked.verdict, without.verdict, junked.escaped, replayed), p})
						}
						os.RemoveAll(jdir)
					}
				}
				os.RemoveAll(scratch)
			}
			os.RemoveAll(dir)
			os.RemoveAll(clean)
		}
	}
}

// c06WrapCase looks for a threshold property and a base seed 2^64-k such that the test cases with the seeds
// 2^64-k … 2^64-1 pass and the next one — seed 0 after the wrap-around — fails
func c06WrapCase() (src string, base uint64, ok bool) {
	// the value the first draw yields under a given seed
	valueAt := func(seed uint64) (v uint64, ok bool) {
		defer func() {
			if recover() != nil {
				ok = false
			}
		}()
		g := newInterp(L(), false).b.gen(mustSX("(u 0 18446744073709551615)"))
		t := rapid.VerifNewT(newRecTB("wrap"), rapid.VerifRandStream(seed, false), false)
		switch x := rapid.VerifValue(g, t).(type) {
		case uint64:
			return x, true
		case int64:
			return uint64(x), x >= 0
		}
		return 0, false
	}
	// base 2^64-1: the first test case has the seed 2^64-1, the second one the seed 0
	b0, ok0 := valueAt(0)
	bm, okm := valueAt(^uint64(0))
	if !ok0 || !okm || b0 == bm {
		return "", 0, false
	}
	if bm < b0 {
		src = fmt.Sprintf("((draw b (u 0 18446744073709551615)) (if (ge b %d) (fatal 1)))", b0)
	} else {
		src = fmt.Sprintf("((draw b (u 0 18446744073709551615)) (if (lt b %d) (fatal 1)))", bm)
	}
	// confirm with the real findBug: the failing test case is the one with the seed 0
	var sd uint64
	var e rapid.VerifErr
	prog := mustSX(src)
	withFlags(baseFlags(), func() {
		in := newInterp(prog, false)
		runTB(func() { _, _, _, sd, e = rapid.VerifFindBug(newRecTB("wrap"), farDeadline(), 20, ^uint64(0), in.prop) })
	})
	if e.IsNil() || e.Kind() == "invalid" || sd != 0 {
		return "", 0, false
	}
	return src, ^uint64(0), true
}

func randomDraws(run *tbRun) string {
	var b strings.Builder
	for _, inv := range run.in.invs {
		if !inv.isBuf {
			b.WriteString(strings.Join(inv.draws, ";") + "|")
		}
	}
	return b.String()
}

func atoiS(s string) int {
	n, _ := strconv.Atoi(s)
	return n
}
