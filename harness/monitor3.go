package main

import (
	"context"
	"fmt"
	"math"
	"os"
	"os/exec"
	"path/filepath"
	"sort"
	"strconv"
	"strings"
	"sync"
	"sync/atomic"
	"time"
	"unicode"

	"pgregory.net/rapid"
)

// ---------------------------------------------------------------- C08: check/action discipline

// events: u90 = invariant, u1xx = action xx starts, u2xx = action xx completed, F:… = failure statement
func smDiscipline(evs []string, hasCheck bool) string {
	expectCheck := hasCheck // the invariant runs once before any action
	open := -1
	failed := false     // a falsification happened: nothing new may start
	failedHard := false // …by a fatal call or panic: nothing at all may follow
	inCheck := false
	for i, e := range evs {
		if strings.HasPrefix(e, "ctx:") {
			continue
		}
		if strings.HasPrefix(e, "F:") {
			failed = true
			if e != "F:nonfatal" {
				failedHard = true
			}
			continue
		}
		if !strings.HasPrefix(e, "u") {
			continue
		}
		n, _ := strconv.Atoi(e[1:])
		if failedHard {
			return fmt.Sprintf("event %q at %d after a fatal falsification", e, i)
		}
		switch {
		case n == 90:
			if failed {
				return fmt.Sprintf("invariant ran at event %d after a falsification", i)
			}
			if open >= 0 {
				return fmt.Sprintf("invariant ran inside action %d (event %d)", open, i)
			}
			if !expectCheck {
				return fmt.Sprintf("invariant ran at event %d although no action completed since the last one", i)
			}
			expectCheck = false
			inCheck = true
		case n >= 100 && n < 200:
			if failed {
				return fmt.Sprintf("action %d started at event %d after a falsification", n-100, i)
			}
			if expectCheck {
				return fmt.Sprintf("action %d started at event %d before the invariant was checked", n-100, i)
			}
			// a previous action that did not complete was skipped / rejected: fine
			open = n - 100
			inCheck = false
		case n >= 200 && n < 300:
			// the rest of an action in which a non-fatal failure was signalled still runs (user code)
			if open != n-200 {
				return fmt.Sprintf("action %d completed at event %d but action %d was running", n-200, i, open)
			}
			open = -1
			expectCheck = hasCheck
		}
	}
	_ = inCheck
	return ""
}

func (r *rng) disciplineProgram() (*SX, bool) {
	hasCheck := r.chance(3, 4)
	var parts []string
	if hasCheck {
		chk := "(check (emit 90)"
		if r.chance(1, 4) {
			chk += " (draw q (i 0 50)) (if (ge q 45) " + []string{"(fatal 6)", "(error 1)"}[r.intn(2)] + ")"
		}
		parts = append(parts, chk+")")
	}
	n := 1 + r.intn(3)
	for i := 0; i < n; i++ {
		body := fmt.Sprintf("(act (emit %d)", 100+i)
		switch r.intn(8) {
		case 7: // a non-fatal failure, then a skip, before anything was drawn: still the end of the test case
			body += " (error 3) (skip)"
		case 0:
			body += " (skip)"
		case 1:
			body += " (draw x (i 0 9)) (if (lt x 5) (skip))"
		case 2:
			body += fmt.Sprintf(" (draw x (i 0 99)) (if (ge x 95) (fatal %d))", i)
		case 3:
			body += " (draw x (i 0 99)) (if (ge x 95) (error 1))"
		case 4:
			body += " (draw x (filter (i 0 3) (eq 0)))"
		case 5:
			body += " (draw x (i 0 99)) (if (ge x 90) (error 2)) (if (ge x 90) (skip))"
		default:
			body += " (draw x (bool))"
		}
		parts = append(parts, body+fmt.Sprintf(" (emit %d))", 200+i))
	}
	return mustSX("((repeat " + strings.Join(parts, " ") + "))"), hasCheck
}

type c14Account struct {
	mu       sync.Mutex
	inString chan struct{}
	once     sync.Once
}

func (a *c14Account) String() string {
	a.once.Do(func() { close(a.inString) })
	a.mu.Lock()
	defer a.mu.Unlock()
	return "42"
}

type c08Machine interface {
	rapid.StateMachine
	log() *[]string
	names() []string
}

// TB methods before and after *T methods, two TB methods
type c08SMa struct{ l []string }

func (s *c08SMa) log() *[]string        { return &s.l }
func (s *c08SMa) names() []string       { return []string{"", "Alpha", "Beta", "Delta", "Gamma"} }
func (s *c08SMa) Alpha(t rapid.TB)      { s.l = append(s.l, "Alpha") }
func (s *c08SMa) Beta(t *rapid.T)       { s.l = append(s.l, "Beta") }
func (s *c08SMa) Delta(t *rapid.T)      { s.l = append(s.l, "Delta") }
func (s *c08SMa) Gamma(t rapid.TB)      { s.l = append(s.l, "Gamma") }
func (s *c08SMa) Check(t *rapid.T)      { s.l = append(s.l, "Check") }
func (s *c08SMa) Helper(a, b int) int   { return a + b } // not an action
func (s *c08SMa) unexported(t *rapid.T) {}

// only TB methods, the last action in alphabetical order takes *T
type c08SMb struct{ l []string }

func (s *c08SMb) log() *[]string   { return &s.l }
func (s *c08SMb) names() []string  { return []string{"", "Pop", "Push", "Zap"} }
func (s *c08SMb) Pop(t rapid.TB)   { s.l = append(s.l, "Pop") }
func (s *c08SMb) Push(t rapid.TB)  { s.l = append(s.l, "Push") }
func (s *c08SMb) Zap(t *rapid.T)   { s.l = append(s.l, "Zap") }
func (s *c08SMb) Check(t *rapid.T) { s.l = append(s.l, "Check") }

func keysOf(m map[string]bool) []string {
	var out []string
	for k := range m {
		out = append(out, k)
	}
	sort.Strings(out)
	return out
}

func init() {
	monitors["C08"] = func(r *rng, scale int, m *monOut, tmp string) {
		// StateMachineActions: every action of the map runs the method it is named after (methods taking *T and
		// methods taking TB, in any alphabetical arrangement), the entry "" runs Check; and a Repeat over the map
		// follows the check/action discipline with exactly those methods
		for _, sm := range []c08Machine{&c08SMa{}, &c08SMb{}} {
			log := sm.log()
			actions := rapid.StateMachineActions(sm)
			m.tag("state-machine-actions")
			m.eval(fmt.Sprintf("sm-actions %T", sm), true)
			t := rapid.VerifNewT(newRecTB("c08sm"), rapid.VerifRandStream(r.u64(), false), false)
			var names []string
			for name := range actions {
				names = append(names, name)
			}
			sort.Strings(names)
			if want := sm.names(); fmt.Sprint(names) != fmt.Sprint(want) {
				m.violate(violation{"C08", "sm-actions", fmt.Sprintf("%T: actions %v, want %v", sm, names, want), map[string]string{}})
			}
			for _, name := range names {
				*log = nil
				func() {
					defer func() {
						if p := recover(); p != nil {
							*log = append(*log, fmt.Sprintf("panic: %v", p))
						}
					}()
					actions[name](t)
				}()
				want := name
				if name == "" {
					want = "Check"
				}
				if fmt.Sprint(*log) != fmt.Sprint([]string{want}) {
					m.violate(violation{"C08", "sm-actions", fmt.Sprintf("%T: the action %q ran %v", sm, name, *log), map[string]string{"action": name}})
				}
			}
			// the map of actions belongs to the caller: built for every test case, built once and used by every test case,
			// used for two Repeat phases of one test case — the discipline is the same
			for _, mode := range []string{"fresh", "shared", "two-phases"} {
				*log = nil
				fl := baseFlags()
				fl.Checks = 20
				fl.Seed = r.u64() | 1
				tb := newRecTB("c08smr")
				shared := rapid.StateMachineActions(sm)
				m.tag("sm-actions-map-" + mode)
				m.eval(fmt.Sprintf("sm-actions-map %T %s", sm, mode), true)
				withFlags(fl, func() {
					runTB(func() {
						rapid.VerifCheckTB(tb, farDeadline(), func(t *rapid.T) {
							*log = append(*log, "|")
							switch mode {
							case "fresh":
								t.Repeat(rapid.StateMachineActions(sm))
							case "shared":
								t.Repeat(shared)
							default:
								acts := rapid.StateMachineActions(sm)
								t.Repeat(acts)
								*log = append(*log, "|")
								t.Repeat(acts)
							}
						})
					})
				})
				seen := map[string]bool{}
				prev := "|"
				for _, e := range *log {
					seen[e] = true
					if e != "Check" && e != "|" && prev != "Check" {
						m.violate(violation{"C08", "sm-actions", fmt.Sprintf("%T (%s): action %s ran after %s, not after Check", sm, mode, e, prev), map[string]string{}})
						break
					}
					prev = e
				}
				for _, name := range sm.names() {
					if name != "" && !seen[name] {
						m.violate(violation{"C08", "sm-actions", fmt.Sprintf("%T (%s): in 20 runs of Repeat the action %s never ran (ran: %v)", sm, mode, name, keysOf(seen)), map[string]string{}})
					}
				}
			}
		}
		for i := 0; i < 40*scale; i++ {
			prog, hasCheck := r.disciplineProgram()
			fl := baseFlags()
			fl.Checks = 30
			fl.Seed = r.u64() | 1
			fl.ShrinkTime = []time.Duration{0, 30 * time.Second}[r.intn(2)]
			run := runCheckTB(prog, fl, "c08", nil)
			kind, _, _ := verdictMsg(run.verdict)
			m.tag("verdict-" + kind)
			m.eval(prog.String()+fmt.Sprint(fl.Seed), true)
			for k, inv := range run.in.invs {
				if what := smDiscipline(inv.events, hasCheck); what != "" {
					p := flagsStr(fl)
					p["prog"] = prog.String()
					p["invocation"] = fmt.Sprint(k)
					p["events"] = strings.Join(inv.events, ",")
					m.violate(violation{"C08", "discipline", what, p})
					break
				}
			}
		}
		// the limit of skipped attempts from both sides: an action that can run on the 100th attempt of a step (99 attempts skipped
		// before drawing) does run, is followed by the invariant and fails nothing; with 100 skipped attempts Repeat gives up
		for _, period := range []int{100, 101, 2, 37} {
			seed := r.u64() | 1
			m.tag("late-action")
			m.eval(fmt.Sprint("late-action ", period), true)
			if what := c08LateAction(period, seed); what != "" {
				m.violate(violation{"C08", "late-action", what, map[string]string{"period": fmt.Sprint(period), "seed": fmt.Sprint(seed)}})
			}
		}
		// all actions skip: Repeat must report a failure, not loop
		run := runCheckTB(mustSX("((repeat (act (emit 100) (skip)) (act (emit 101) (skip))))"), baseFlags(), "c08", nil)
		m.eval("all-skip", true)
		if kind, _, msg := verdictMsg(run.verdict); kind != "failed" || !strings.HasPrefix(msg, "can't_find") {
			m.violate(violation{"C08", "stuck", "Repeat with only skipping actions gives " + run.verdict, map[string]string{}})
		}
	}
	replayers["late-action"] = func(v violation, tmp string) (bool, string) {
		seed, _ := strconv.ParseUint(v.Params["seed"], 10, 64)
		what := c08LateAction(atoiS(v.Params["period"]), seed)
		return what != "", what
	}
	replayers["discipline"] = func(v violation, tmp string) (bool, string) {
		prog := mustSX(v.Params["prog"])
		run := runCheckTB(prog, parseFlags(v.Params), "replay", nil)
		hasCheck := strings.Contains(v.Params["prog"], "(check")
		for _, inv := range run.in.invs {
			if what := smDiscipline(inv.events, hasCheck); what != "" {
				return true, what
			}
		}
		return false, ""
	}
}

// one action that can run on attempt `period` of every step only (the attempts before it skip without drawing)
func c08LateAction(period int, seed uint64) string {
	var log []string
	n := 0
	acts := map[string]func(*rapid.T){
		"A": func(t *rapid.T) {
			n++
			if n%period != 0 {
				t.Skip("not yet")
			}
			log = append(log, "A")
		},
		"": func(t *rapid.T) { log = append(log, "Check") },
	}
	fl := baseFlags()
	fl.Checks = 3
	fl.Seed = seed
	tb := newRecTB("c08late")
	withFlags(fl, func() {
		runTB(func() {
			rapid.VerifCheckTB(tb, farDeadline(), func(t *rapid.T) {
				n = 0
				log = append(log, "|")
				t.Repeat(acts)
			})
		})
	})
	kind, _, msg := verdictMsg(tbVerdict(tb))
	what := ""
	if period <= 100 {
		if kind != "pass" {
			what = fmt.Sprintf("an action that runs on attempt %d of every step: Check reports %s", period, tbVerdict(tb))
		}
		for k, e := range log {
			if e == "A" && (k+1 >= len(log) || log[k+1] != "Check") {
				what = fmt.Sprintf("an action that runs on attempt %d of a step was not followed by the invariant (%v)", period, log[max(0, k-2):min(len(log), k+3)])
			}
		}
	} else if kind != "failed" || !strings.HasPrefix(msg, "can't_find") {
		what = fmt.Sprintf("%d skipped attempts in a row: Check reports %s", period-1, tbVerdict(tb))
	}
	return what
}

// ---------------------------------------------------------------- C10: contexts and cleanups (native property)

type c10Log struct {
	mu        sync.Mutex
	active    int
	problems  []string
	invs      int
	customs   int
	cleanups  int
	endings   map[string]int
	withShrnk bool
}

func (l *c10Log) problem(format string, args ...any) {
	l.mu.Lock()
	defer l.mu.Unlock()
	if len(l.problems) < 10 {
		l.problems = append(l.problems, fmt.Sprintf(format, args...))
	}
}

// one invocation scope (property body or Custom function) with its own *T
func c10Scope(l *c10Log, t *rapid.T, kind string, nReg int, panicAt int, nested bool, skipLast bool) (finish func()) {
	l.mu.Lock()
	if kind == "prop" {
		if l.active != 0 {
			l.problems = append(l.problems, "property invoked while a previous invocation (or its cleanups) was still running")
		}
		l.active++
		l.invs++
	} else {
		l.customs++
	}
	l.mu.Unlock()
	ctx := t.Context()
	if ctx.Err() != nil {
		l.problem("%s: context not live at the start of the call", kind)
	}
	if t.Context() != ctx {
		l.problem("%s: two Context() calls returned different contexts", kind)
	}
	var order []int
	expected := []int{}
	ran := map[int]int{}
	reg := func(id int) {
		t.Cleanup(func() {
			if ctx.Err() == nil {
				l.problem("%s: cleanup %d ran before the context was cancelled", kind, id)
			}
			if c2 := t.Context(); c2.Err() == nil {
				l.problem("%s: Context() during cleanup returned a live context", kind)
			}
			order = append(order, id)
			ran[id]++
			l.mu.Lock()
			l.cleanups++
			l.mu.Unlock()
			if nested && id == 0 {
				t.Cleanup(func() { order = append(order, 1000); ran[1000]++ })
			}
			if id == panicAt {
				panic(fmt.Sprintf("cleanup %d panics", id))
			}
		})
	}
	// registered first ⇒ runs last: verifies what the others did
	t.Cleanup(func() {
		want := []int{}
		for i := nReg - 1; i >= 0; i-- {
			want = append(want, i)
			if nested && i == 0 {
				want = append(want, 1000)
			}
		}
		_ = expected
		if fmt.Sprint(order) != fmt.Sprint(want) {
			l.problem("%s: cleanups ran in order %v, registered order implies %v", kind, order, want)
		}
		for id, n := range ran {
			if n != 1 {
				l.problem("%s: cleanup %d ran %d times", kind, id, n)
			}
		}
		if kind == "prop" {
			l.mu.Lock()
			l.active--
			l.mu.Unlock()
		}
		if skipLast {
			t.SkipNow() // the cleanup that runs last panics with invalid data: the test case is skipped, the *T is reused
		}
	})
	for i := 0; i < nReg; i++ {
		reg(i)
	}
	return func() {
		if ctx.Err() != nil {
			l.problem("%s: context cancelled before the call returned", kind)
		}
		if t.Context() != ctx {
			l.problem("%s: Context() changed during the call", kind)
		}
	}
}

func init() {
	monitors["C10"] = func(r *rng, scale int, m *monOut, tmp string) {
		for i := 0; i < 12*scale; i++ {
			l := &c10Log{endings: map[string]int{}}
			failAbove := int(r.pick(50, 90, 101)) // 101: never fails
			custom := rapid.Custom(func(t *rapid.T) int {
				fin := c10Scope(l, t, "custom", 2, -1, false, false)
				v := rapid.IntRange(0, 9).Draw(t, "c")
				if v%4 == 0 {
					t.Skip("retry") // Custom retries: cleanups of the rejected attempt still run
				}
				fin()
				return v
			})
			prop := func(t *rapid.T) {
				nReg := rapid.IntRange(0, 4).Draw(t, "nreg")
				panicAt := rapid.IntRange(-1, 3).Draw(t, "panicAt")
				if panicAt >= nReg {
					panicAt = -1
				}
				skipLast := rapid.IntRange(0, 5).Draw(t, "skipLast") == 0
				fin := c10Scope(l, t, "prop", nReg, panicAt, nReg > 0 && panicAt != 0, skipLast)
				if skipLast {
					l.endings["cleanup-skips"]++
				}
				if nReg%2 == 1 {
					// a Custom generator drawn by a cleanup function: its function gets a live context as well
					l.endings["custom-in-cleanup"]++
					t.Cleanup(func() { _ = custom.Draw(t, "in cleanup") })
				}
				_ = custom.Draw(t, "cv")
				end := rapid.IntRange(0, 100).Draw(t, "end")
				fin()
				switch {
				case end > failAbove:
					l.endings["fatal"]++
					t.Fatalf("end %d", end)
				case end%7 == 0:
					l.endings["skip"]++
					t.Skip("skip")
				case end%11 == 0:
					l.endings["panic"]++
					panic("body panics")
				default:
					l.endings["return"]++
				}
			}
			fl := baseFlags()
			fl.Checks = 40
			fl.Seed = r.u64() | 1
			fl.ShrinkTime = []time.Duration{0, 2 * time.Second}[r.intn(2)]
			tb := newRecTB("c10")
			withFlags(fl, func() { runTB(func() { rapid.VerifCheckTB(tb, farDeadline(), prop) }) })
			m.eval(fmt.Sprint("c10-", fl.Seed, failAbove), true)
			m.tag(fmt.Sprintf("invocations~%d", (l.invs/50)*50))
			for k, v := range l.endings {
				m.Tags["ending-"+k] += v
			}
			if l.active != 0 {
				l.problems = append(l.problems, fmt.Sprintf("%d invocations never had their cleanups run", l.active))
			}
			if len(l.problems) > 0 {
				m.violate(violation{"C10", "bracket", strings.Join(l.problems, "; "), map[string]string{"seed": fmt.Sprint(fl.Seed), "failAbove": fmt.Sprint(failAbove), "shrinktime": fl.ShrinkTime.String()}})
			}
		}
	}
}

// ---------------------------------------------------------------- C11: isolation

func init() {
	monitors["C11"] = func(r *rng, scale int, m *monOut, tmp string) {
		// what one check leaves behind in the package (generators cached by Make) does not change what a later check
		// of another type of the same name draws — or whether it crashes
		for i := 0; i < 4*scale; i++ {
			ws := r.words(8)
			m.tag("make-same-name-across-checks")
			m.eval("make-names|"+joinU64(ws), true)
			if what := c04MakeNames(ws); what != "" {
				m.violate(violation{"C11", "make-names", what, map[string]string{"words": joinU64(ws)}})
			}
		}
		// behaviour chosen by the drawn value: 0 pass, 1 errorf, 2 skip, 3 errorf+skip, 4 cleanup-time errorf,
		// 5 cleanup-time errorf + skip, 6 pass, 7 a cleanup that skips, 8/9 a cleanup that skips while an older one
		// (which signals / does not signal) is still pending … most cases pass or skip, rarely one signals
		for i := 0; i < 40*scale; i++ {
			hi := int(r.pick(6, 12, 30, 60))
			src := fmt.Sprintf("((ctxlive 5) (draw b (i 0 %d)) (draw pad (slice (bool) 0 3)) (if (eq b 0) (cleanup (ctx))) (if (eq b 6) (cleanup (cleanup (ctx)))) (if (eq b 4) (cleanup (error 4))) (if (eq b 5) (cleanup (error 5))) (if (eq b 7) (cleanup (skip))) (if (eq b 8) (cleanup (error 2)) (cleanup (skip))) (if (eq b 9) (cleanup (emit 9)) (cleanup (skip))) (if (eq b %d) (cleanup (skip))) (if (eq b 1) (error 1)) (if (eq b 3) (error 3)) (if (eq b 2) (skip)) (if (eq b 3) (skip)) (if (eq b 5) (skip)) (if (eq b %d) (skip)))", hi, hi, hi)
			quiet := i%2 == 1
			if quiet {
				// the same without the failing branches: such runs pass, and every test case that neither skips nor has a
				// skipping cleanup counts
				src = fmt.Sprintf("((ctxlive 5) (draw b (i 0 %d)) (draw pad (slice (bool) 0 3)) (if (eq b 0) (cleanup (ctx))) (if (eq b 6) (cleanup (cleanup (ctx)))) (if (eq b 7) (cleanup (skip))) (if (eq b 9) (cleanup (emit 9)) (cleanup (skip))) (if (eq b %d) (cleanup (skip))) (if (eq b 2) (skip)) (if (eq b %d) (skip)))", hi, hi, hi)
			}
			prog := mustSX(src)
			fl := baseFlags()
			fl.Checks = int(r.pick(10, 100))
			fl.Seed = r.u64() | 1
			fl.ShrinkTime = []time.Duration{0, 30 * time.Second}[r.intn(2)]
			run := runCheckTB(prog, fl, "c11", nil)
			kind, _, _ := verdictMsg(run.verdict)
			m.tag("verdict-" + kind)
			signalled := false
			for _, inv := range run.in.invs {
				signalled = signalled || inv.signalled
			}
			m.eval(src+fmt.Sprint(fl.Seed, fl.Checks), signalled)
			what := checkReported(run, prog)
			if what == "" && (kind == "failed" || kind == "panic") {
				_, last := run.lastBuf()
				if last != nil && !last.signalled {
					what = fmt.Sprintf("the test case reported as falsifying (draws %v) signalled no failure", last.draws)
				}
			}
			if what == "" && signalled && (kind == "pass" || kind == "only") {
				what = "a test case signalled a failure but Check reported " + run.verdict
			}
			// a passing Check has counted every test case in which nothing failed and nothing skipped (neither the body nor a
			// cleanup; at the maximum of b a cleanup and the body both skip), whatever the test case before it did
			if what == "" && kind == "pass" {
				clean := 0
				for _, inv := range run.in.invs {
					if inv.isBuf || inv.ended != "ret" || len(inv.draws) == 0 {
						continue
					}
					if b, err := strconv.Atoi(strings.TrimSpace(inv.draws[0])); err == nil && b != hi {
						if (quiet && b != 2 && b != 7 && b != 9) || (!quiet && (b == 0 || b == 6 || b > 9)) {
							clean++
						}
					}
				}
				if clean != fl.Checks {
					what = fmt.Sprintf("Check passed (%s) after %d test cases in which nothing failed and nothing skipped; -rapid.checks=%d", run.verdict, clean, fl.Checks)
				}
			}
			if what != "" {
				p := flagsStr(fl)
				p["prog"] = src
				m.violate(violation{"C11", "reported", what, p})
			}
		}
	}
}

// ---------------------------------------------------------------- C12: exact boundary

func init() {
	monitors["C12"] = func(r *rng, scale int, m *monOut, tmp string) {
		type kindT struct {
			name   string
			gen    string
			lo, hi string
		}
		kinds := []kindT{
			{"Int64", "(i -9223372036854775808 9223372036854775807)", "-9223372036854775808", "9223372036854775807"},
			{"Uint64", "(u 0 18446744073709551615)", "0", "18446744073709551615"},
			{"Int8", "(i -128 127)", "-128", "127"},
			{"Uint8", "(u 0 255)", "0", "255"},
			{"Int16", "(i -32768 32767)", "-32768", "32767"},
			{"Uint16", "(u 0 65535)", "0", "65535"},
			{"Int32", "(i -2147483648 2147483647)", "-2147483648", "2147483647"},
			{"Uint32", "(u 0 4294967295)", "0", "4294967295"},
		}
		// thresholds in the top bit ranges of the 64-bit kinds are always included
		fixed := [][2]string{
			{"Uint64", "9223372036854775808"}, {"Uint64", "9223372036854775809"}, {"Uint64", "13835058055282163712"},
			{"Uint64", "18446744073709551614"}, {"Uint64", "4611686018427387905"}, {"Int64", "4611686018427387905"},
			{"Int64", "-4611686018427387905"}, {"Int64", "9223372036854775806"}, {"Int64", "-9223372036854775807"},
		}
		for i := 0; i < 30*scale+len(fixed); i++ {
			k := kinds[r.intn(len(kinds))]
			lo, hi := atoBig(A(k.lo)), atoBig(A(k.hi))
			// threshold: 0, ±1, 2^j, 2^j ± 1, type extremes, random
			th := toBig(int64(0))
			j := uint(r.intn(64))
			mode := r.intn(6)
			if i < len(fixed) {
				for _, kk := range kinds {
					if kk.name == fixed[i][0] {
						k = kk
					}
				}
				lo, hi = atoBig(A(k.lo)), atoBig(A(k.hi))
				th = atoBig(A(fixed[i][1]))
				mode = 99
			}
			switch mode {
			case 99:
			case 0:
				th = toBig(r.pick(0, 1, -1, 2, 5, 17))
			case 1:
				th = th.Lsh(toBig(int64(1)), j)
			case 2:
				th = th.Lsh(toBig(int64(1)), j)
				th = th.Add(th, toBig(r.pick(1, -1)))
			case 3:
				th = th.Neg(th.Lsh(toBig(int64(1)), j))
			case 4:
				th = toBig(r.ibound())
			default:
				th = th.Set(hi)
				if r.chance(1, 2) {
					th = th.Set(lo)
				}
			}
			if th.Cmp(lo) < 0 || th.Cmp(hi) > 0 {
				continue
			}
			up := th.Sign() >= 0 // fails at or beyond the threshold, away from zero
			var src string
			if up {
				src = fmt.Sprintf("((draw v %s) (if (ge v %s) (fatal 1)))", k.gen, th)
			} else {
				th1 := new(strings.Builder)
				fmt.Fprint(th1, th.Add(th, toBig(int64(1)))) // v < th+1  ⇔  v <= th
				th = th.Sub(th, toBig(int64(1)))
				src = fmt.Sprintf("((draw v %s) (if (lt v %s) (fatal 1)))", k.gen, th1)
			}
			if i%3 == 2 {
				// the same property failing by a panic whose value names the drawn number (another value at every step)
				src = strings.Replace(src, "(fatal 1)", "(panicv 1 v)", 1)
			}
			fl := baseFlags()
			fl.Checks = 1000
			fl.Seed = r.u64() | 1
			run := runCheckTB(mustSX(src), fl, "c12", nil)
			kind, _, _ := verdictMsg(run.verdict)
			m.tag("int-" + k.name)
			if kind != "failed" && kind != "panic" {
				m.tag("int-not-falsified")
				m.eval(src+fmt.Sprint(fl.Seed), false)
				continue
			}
			_, last := run.lastBuf()
			m.eval(src+fmt.Sprint(fl.Seed), true)
			if last == nil || len(last.vals) != 1 || last.vals[0] != th.String() {
				p := flagsStr(fl)
				p["prog"], p["want"] = src, th.String()
				got := "?"
				if last != nil {
					got = strings.Join(last.vals, ";")
				}
				m.violate(violation{"C12", "boundary", fmt.Sprintf("%s with threshold %v: minimized counterexample is %s, the boundary is %v", k.name, th, got, th), p})
			}
		}
		// minimize() itself on threshold conditions: the result is the threshold, wherever the
		// starting value and the threshold lie relative to the powers of two
		for i := 0; i < 3000*scale; i++ {
			var u, th uint64
			switch r.intn(6) {
			case 0:
				u, th = r.u64(), r.u64()
			case 1:
				u = r.u64() | 1<<63
				th = uint64(1)<<63 - 1 - uint64(r.intn(1000003))
			case 2:
				j := uint(1 + r.intn(63))
				u = uint64(1)<<j + r.u64()>>(64-j)
				th = uint64(1)<<j - uint64(r.intn(4))
			case 3:
				u = r.ubound()
				th = r.ubound()
			case 4:
				u = r.u64()
				th = u>>1 + uint64(r.intn(5))
			default:
				u = ^uint64(0) - uint64(r.intn(3))
				th = r.u64() >> uint(r.intn(3))
			}
			if th > u {
				u, th = th, u
			}
			var got uint64
			probes := 0
			p := runTB(func() {
				got = rapid.VerifMinimize(u, func(x uint64, _ string) bool {
					probes++
					if probes > 100000 {
						panic("minimize: more than 100000 probes")
					}
					return x >= th
				})
			})
			m.eval(fmt.Sprintf("minimize %d %d", u, th), u != th)
			m.tag("minimize-threshold")
			if p != nil || got != th {
				what := fmt.Sprintf("minimize(%d, x >= %d) = %d, the boundary is %d", u, th, got, th)
				if p != nil {
					what = fmt.Sprintf("minimize(%d, x >= %d): %v", u, th, p)
				}
				m.violate(violation{"C12", "minimize", what, map[string]string{"u": fmt.Sprint(u), "th": fmt.Sprint(th)}})
			}
		}
		// collections: at least k elements ⇒ exactly k, all zero for full-range integers
		for i := 0; i < 15*scale; i++ {
			n := r.intn(33)
			var gen, want string
			switch r.intn(4) {
			case 0:
				gen = "(slice (i -9223372036854775808 9223372036854775807) -1 -1)"
				want = "[" + strings.TrimSpace(strings.Repeat("0 ", n)) + "]"
			case 1:
				gen = "(slice (u 0 255) -1 -1)"
				want = "[" + strings.TrimSpace(strings.Repeat("0 ", n)) + "]"
			case 2:
				gen = "(string (runes 97 98 99 233 8364) -1 -1 -1)"
				want = "len"
			default:
				gen = "(mapof (i -9223372036854775808 9223372036854775807) (bool) -1 -1)"
				want = "len"
			}
			src := fmt.Sprintf("((draw s %s) (if (lenge s %d) (fatal 1)))", gen, n)
			fl := baseFlags()
			fl.Checks = 1000
			fl.Seed = r.u64() | 1
			run := runCheckTB(mustSX(src), fl, "c12", nil)
			kind, _, _ := verdictMsg(run.verdict)
			m.tag(fmt.Sprintf("collection-k%d", n))
			if kind != "failed" {
				m.eval(src+fmt.Sprint(fl.Seed), false)
				continue
			}
			_, last := run.lastBuf()
			m.eval(src+fmt.Sprint(fl.Seed), true)
			bad := ""
			if last == nil || len(last.vals) != 1 {
				bad = "no final draw"
			} else if want == "len" {
				cnt := 0
				v := last.vals[0]
				if v != "[]" && v != "{}" {
					cnt = len(strings.Fields(v))
				}
				if cnt != n {
					bad = fmt.Sprintf("%d elements (%s), the boundary is %d", cnt, v, n)
				}
			} else if last.vals[0] != want {
				bad = fmt.Sprintf("%s, expected %s", last.vals[0], want)
			}
			if bad != "" {
				p := flagsStr(fl)
				p["prog"] = src
				m.violate(violation{"C12", "boundary", "collection with at least " + fmt.Sprint(n) + " elements minimizes to " + bad, p})
			}
		}
	}
	replayers["gotest-fresh"] = func(v violation, tmp string) (bool, string) {
		what, ran := c18GoTest(tmp)
		return ran && what != "", what
	}
	replayers["floatnarrow"] = func(v violation, tmp string) (bool, string) {
		w, _ := strconv.Atoi(v.Params["w"])
		k, _ := strconv.Atoi(v.Params["k"])
		lo, _ := strconv.ParseUint(v.Params["lo"], 10, 64)
		for seed := uint64(1); seed <= 3; seed++ {
			if what := floatNarrow(seed, w, lo, k); what != "" {
				return true, what
			}
		}
		return false, "every float of the range is produced"
	}
	replayers["floatbits"] = func(v violation, tmp string) (bool, string) {
		w, _ := strconv.Atoi(v.Params["w"])
		e, _ := strconv.Atoi(v.Params["e"])
		for seed := uint64(1); seed <= 3; seed++ {
			if what := floatBinade(seed, w, e); what != "" {
				return true, what
			}
		}
		return false, "every significand bit of that binade takes both values, both ends are produced"
	}
	replayers["minimize"] = func(v violation, tmp string) (bool, string) {
		u, _ := strconv.ParseUint(v.Params["u"], 10, 64)
		th, _ := strconv.ParseUint(v.Params["th"], 10, 64)
		var got uint64
		probes := 0
		p := runTB(func() {
			got = rapid.VerifMinimize(u, func(x uint64, _ string) bool {
				probes++
				if probes > 100000 {
					panic("minimize: more than 100000 probes")
				}
				return x >= th
			})
		})
		if p != nil {
			return true, fmt.Sprint(p)
		}
		return got != th, fmt.Sprintf("minimize(%d, x >= %d) = %d", u, th, got)
	}
	replayers["boundary"] = func(v violation, tmp string) (bool, string) {
		run := runCheckTB(mustSX(v.Params["prog"]), parseFlags(v.Params), "replay", nil)
		_, last := run.lastBuf()
		if last == nil {
			return true, "no failure: " + run.verdict
		}
		got := strings.Join(last.vals, ";")
		if w, ok := v.Params["want"]; ok {
			return got != w, "minimized to " + got + ", boundary " + w
		}
		return true, "minimized to " + got
	}
}

// floats of the binade [2^e, 2^(e+1)] drawn from the PRNG: every fractional significand bit must be
// seen as 0 and as 1, and both ends of the range must be produced; "" if so
func floatBinade(seed uint64, w int, e int) string {
	S, bias := 52, 1023
	if w == 32 {
		S, bias = 23, 127
	}
	lo := uint64(e+bias) << uint(S)
	hi := uint64(e+1+bias) << uint(S)
	var or, and uint64 = 0, ^uint64(0)
	sawLo, sawHi := false, false
	s := rapid.VerifRandStream(seed, false)
	const draws = 4000
	for k := 0; k < draws; k++ {
		var b uint64
		if w == 64 {
			sg, ee, si, sf := rapid.VerifGenFloatRange(s, math.Float64frombits(lo), math.Float64frombits(hi), 52)
			b = math.Float64bits(rapid.VerifFloat64FromParts(sg, ee, si, sf))
		} else {
			sg, ee, si, sf := rapid.VerifGenFloatRange(s, float64(math.Float32frombits(uint32(lo))), float64(math.Float32frombits(uint32(hi))), 23)
			b = uint64(math.Float32bits(rapid.VerifFloat32FromParts(sg, ee, si, sf)))
		}
		sawLo = sawLo || b == lo
		sawHi = sawHi || b == hi
		if b != hi {
			or |= b
			and &= b
		}
	}
	mask := uint64(1)<<uint(S) - 1
	missing1 := ^or & mask // bits never seen as 1
	missing0 := and & mask // bits never seen as 0
	if missing1 != 0 || missing0 != 0 || !sawLo || !sawHi {
		return fmt.Sprintf("Float%dRange(2^%d, 2^%d): in %d draws significand bits %#x were never 1, bits %#x never 0, min seen=%v, max seen=%v",
			w, e, e+1, draws, missing1, missing0, sawLo, sawHi)
	}
	return ""
}

// the k+1 floats from the one with bit pattern lo upwards: every one of them is produced within 6000 draws
func floatNarrow(seed uint64, w int, lo uint64, k int) string {
	hi := lo + uint64(k)
	seen := map[uint64]bool{}
	s := rapid.VerifRandStream(seed, false)
	const draws = 6000
	for n := 0; n < draws; n++ {
		var b uint64
		if w == 64 {
			sg, ee, si, sf := rapid.VerifGenFloatRange(s, math.Float64frombits(lo), math.Float64frombits(hi), 52)
			b = math.Float64bits(rapid.VerifFloat64FromParts(sg, ee, si, sf))
		} else {
			sg, ee, si, sf := rapid.VerifGenFloatRange(s, float64(math.Float32frombits(uint32(lo))), float64(math.Float32frombits(uint32(hi))), 23)
			b = uint64(math.Float32bits(rapid.VerifFloat32FromParts(sg, ee, si, sf)))
		}
		seen[b] = true
	}
	var missing []string
	for b := lo; b <= hi; b++ {
		if !seen[b] {
			missing = append(missing, fmt.Sprintf("%#x", b))
		}
	}
	if len(missing) > 0 {
		return fmt.Sprintf("Float%dRange(%#x, %#x) (%d floats): in %d draws never produced %v", w, lo, hi, k+1, draws, missing)
	}
	return ""
}

// ---------------------------------------------------------------- C13: MakeFuzz

func fuzzOutcome(prog *SX, bs []byte) (string, *interp) {
	in := newInterp(prog, false)
	tb := newRecTB("fz")
	var p any
	withFlags(baseFlags(), func() { p = runTB(func() { rapid.VerifCheckFuzz(tb, in.prop, bs) }) })
	switch {
	case p != nil:
		return "crash:" + fmt.Sprint(p), in
	case tb.exited == "SkipNow":
		return "skip", in
	case tb.failed:
		return "fail:" + strings.SplitN(tb.errors[0], "\n", 2)[0], in
	}
	return "pass", in
}

func init() {
	monitors["C13"] = func(r *rng, scale int, m *monOut, tmp string) {
		// one MakeFuzz function, many inputs in a row (the way the fuzzing engine calls it)
		if what, ran := c13GoTest(tmp); ran {
			m.tag("go-test-one-fuzz-function-many-inputs")
			m.eval("go-test-fuzz-shared", true)
			if what != "" {
				m.violate(violation{"C13", "gotest-fuzz", what, map[string]string{"how": "a scratch test package against /repo: 70 inputs run by one function returned by MakeFuzz and by one function each"}})
			}
		} else {
			m.tag("go-test-unavailable:" + what)
		}
		// a failure recorded on T (Fatal*, FailNow, Error*) falsifies the fuzz input even when a deferred function of the
		// property then skips or draws past the end of the input
		for _, src := range []string{
			"((draw a (bool)) (defer (skip)) (fatal 1))", "((draw a (bool)) (defer (draw z (bool))) (fatal 1))",
			"((draw a (bool)) (defer (skip)) (failnow 1))", "((draw a (bool)) (defer (draw z (bool))) (error 1))",
			"((draw a (bool)) (cleanup (skip)) (fatal 1))", "((draw a (bool)) (draw cv (custom (draw c (bool)) (defer (skip)) (fatal 2) (ret c))))",
		} {
			for _, bs := range [][]byte{{1, 0, 0, 0, 0, 0, 0, 0}, {0, 0, 0, 0, 0, 0, 0, 0, 1}, {1, 0, 0, 0, 0, 0, 0, 0, 0, 0, 0, 0, 0, 0, 0, 0}} {
				out, fin := fuzzOutcome(mustSX(src), bs)
				signalled := false
				for _, inv := range fin.invs {
					signalled = signalled || inv.signalled
				}
				m.tag("recorded-failure-then-deferred-invalid")
				m.eval(src+fmt.Sprint(bs), signalled)
				if signalled && !strings.HasPrefix(out, "fail") {
					m.violate(violation{"C13", "fuzz", fmt.Sprintf("a recorded failure followed by a deferred skip/overrun gave %q, want fail", out), map[string]string{"prog": src, "bytes": fmt.Sprint(bs)}})
				}
			}
		}
		// every way to falsify a property gives "fail" on the input that reaches it, and "pass" on the input that does not:
		// Fatal/FailNow/Error/Fail, a panic with a string, with an error, with a runtime error, with a number
		for _, kind := range append(append([]string(nil), c02Kinds...), "(panicv 7 a)") {
			src := fmt.Sprintf("((draw a (u 0 255)) (if (ge a 128) %s))", kind)
			for _, tc := range []struct {
				bs   []byte
				want string
			}{{[]byte{255, 255, 255, 255, 255, 255, 255, 255, 200, 0, 0, 0, 0, 0, 0, 0}, "fail"}, {[]byte{0, 0, 0, 0, 0, 0, 0x70, 0, 200, 0, 0, 0, 0, 0, 0, 0}, "fail"},
				{[]byte{0, 0, 0, 0, 0, 0, 0, 0, 200, 0, 0, 0, 0, 0, 0, 0}, "fail"}, {[]byte{0, 0, 0, 0, 0, 0, 0, 0, 5, 0, 0, 0, 0, 0, 0, 0}, "pass"}, {[]byte{0, 0, 0, 0}, "skip"}} {
				out, fin := fuzzOutcome(mustSX(src), tc.bs)
				drew := ""
				if len(fin.invs) > 0 {
					drew = strings.Join(fin.invs[0].vals, ",")
				}
				// (the bias word decides how many bits the value word contributes: what counts is what was drawn)
				want := tc.want
				if tc.want != "skip" && len(fin.invs) > 0 && len(fin.invs[0].vals) == 1 {
					if v, err := strconv.Atoi(fin.invs[0].vals[0]); err == nil {
						want = map[bool]string{true: "fail", false: "pass"}[v >= 128]
					}
				}
				m.tag("falsifying-kinds")
				m.eval(src+fmt.Sprint(tc.bs), true)
				m.tag("falsifying-kinds-want-" + want)
				if !strings.HasPrefix(out, want) {
					m.violate(violation{"C13", "fuzz", fmt.Sprintf("the input drew a = %s: outcome %q, want %s", drew, out, want), map[string]string{"prog": src, "bytes": fmt.Sprint(tc.bs)}})
				}
			}
		}
		// properties that never fail, with draws of zero bits in them (a one-element choice, the forced stop of a loop
		// after rejections, a constant regexp): whatever prefix of an input is given — also one that ends exactly before
		// such a draw — the outcome is skip or pass
		for _, src := range []string{
			"((draw a (u 0 255)) (draw j (sampled 1)) (draw b (u 0 255)) (draw k (sampled 1)))",
			"((draw j (sampled 1)) (draw a (bool)) (draw k (sampled 1)))",
			"((draw a (distinct (i 0 1) 0 -1 (id))) (draw b (bool)))",
			"((repeat (act (draw x (u 0 3)) (skip)) (act (draw y (bool)))))",
			"((draw a (slice (sampled 1) 0 4)) (draw b (distinct (i 0 2) -1 -1 (id))))",
		} {
			prog := mustSX(src)
			for round := 0; round < 2*scale; round++ {
				full := make([]byte, 160)
				ws := rapid.VerifJsf(r.u64(), len(full)/8)
				for j := range full {
					full[j] = byte(ws[j/8] >> (8 * uint(j%8)))
				}
				if round%2 == 1 {
					for j := range full {
						if j%8 != 0 {
							full[j] = 0 // small words: many short draws, many loop iterations
						}
					}
				}
				for l := 0; l <= len(full); l++ {
					out, _ := fuzzOutcome(prog, full[:l])
					m.tag("zero-width-prefix")
					m.eval(fmt.Sprintf("zw %s %d %d", src, round, l), true)
					if !strings.HasPrefix(out, "skip") && !strings.HasPrefix(out, "pass") {
						m.violate(violation{"C13", "fuzz", fmt.Sprintf("a property that never fails, on the first %d bytes of an input: outcome %q", l, out),
							map[string]string{"prog": src, "bytes": fmt.Sprint(full[:l])}})
						break
					}
				}
			}
		}
		for i := 0; i < 300*scale; i++ {
			prog := r.engineProgram()
			l := r.intn(100)
			bs := make([]byte, l)
			for j := range bs {
				bs[j] = byte(r.u64())
			}
			if r.chance(1, 2) {
				ws := rapid.VerifJsf(r.u64(), l/8+1)
				for j := range bs {
					bs[j] = byte(ws[j/8] >> (8 * uint(j%8)))
				}
			}
			out1, in1 := fuzzOutcome(prog, bs)
			out2, _ := fuzzOutcome(prog, bs)
			m.tag("outcome-" + strings.SplitN(out1, ":", 2)[0])
			m.tag(fmt.Sprintf("len%%8=%d", l%8))
			m.eval(prog.String()+fmt.Sprint(bs), true)
			what := ""
			switch {
			case strings.HasPrefix(out1, "crash"):
				what = "fuzz target crashed: " + out1
			case out1 != out2:
				what = fmt.Sprintf("same input, different outcomes: %s / %s", out1, out2)
			}
			// words: little-endian, zero padded
			if what == "" && len(in1.invs) == 1 {
				ws := in1.invs[0].words
				if len(ws) != (l+7)/8 {
					what = fmt.Sprintf("%d bytes gave %d words", l, len(ws))
				}
				for j, w := range ws {
					var want uint64
					for b := 0; b < 8 && j*8+b < l; b++ {
						want |= uint64(bs[j*8+b]) << (8 * uint(b))
					}
					if w != want {
						what = fmt.Sprintf("word %d is %#x, little-endian bytes give %#x", j, w, want)
					}
				}
			}
			// appending bytes beyond what was consumed does not change the outcome
			if what == "" && out1 != "skip" && len(in1.invs) == 1 {
				s := rapid.VerifBufStream(in1.invs[0].words, true)
				in3 := newInterp(prog, false)
				runTB(func() { rapid.VerifCheckOnce(rapid.VerifNewT(newRecTB("x"), s, false), in3.prop) })
				consumed := len(s.Rec().Data)
				if consumed*8 <= l {
					extra := make([]byte, 1+r.intn(20))
					for j := range extra {
						extra[j] = byte(r.u64())
					}
					out3, _ := fuzzOutcome(prog, append(append([]byte(nil), bs...), extra...))
					if out3 != out1 {
						what = fmt.Sprintf("appending %d unconsumed bytes changed the outcome from %s to %s", len(extra), out1, out3)
					}
					m.tag("append-checked")
				}
			}
			if what != "" {
				m.violate(violation{"C13", "fuzz", what, map[string]string{"prog": prog.String(), "bytes": fmt.Sprint(bs)}})
			}
		}
	}
}

// ---------------------------------------------------------------- C16: kill at every system call

func init() {
	monitors["C16"] = func(r *rng, scale int, m *monOut, tmp string) {
		if _, err := exec.LookPath("strace"); err != nil {
			m.eval("strace missing", false)
			m.tag("strace-missing")
			// without strace: check at least that no partial content is ever visible under the final name
			return
		}
		self, _ := os.Executable()
		sizes := []int{0, 3, 40}
		if scale > 1 {
			sizes = append(sizes, 400)
		}
		for _, lines := range sizes {
			name := "TestKill"
			// reference: an uninterrupted save
			ref, _ := os.MkdirTemp(tmp, "c16ref-")
			if out, err := exec.Command(self, "savechild", ref, name, strconv.Itoa(lines)).CombinedOutput(); err != nil {
				m.violate(violation{"C16", "child", fmt.Sprintf("reference save failed: %v %s", err, out), map[string]string{}})
				return
			}
			refFiles := listFailFiles(ref, name)
			if len(refFiles) != 1 {
				m.violate(violation{"C16", "child", fmt.Sprintf("reference save left %d files", len(refFiles)), map[string]string{}})
				return
			}
			want, _ := os.ReadFile(refFiles[0])
			// strace counts `when=K` per system call: enumerate the crash points call by call
			total := 0
			for _, call := range []string{"mkdirat", "openat", "write", "close", "renameat", "renameat2", "unlinkat", "copy_file_range", "sendfile", "pwrite64", "fsync", "fdatasync", "ftruncate", "linkat", "fchmod"} {
				for k := 1; k < 2000; k++ {
					dir, _ := os.MkdirTemp(tmp, "c16-")
					cmd := exec.Command("strace", "-f", "-o", "/dev/null", "-e", "trace="+call,
						"-e", fmt.Sprintf("inject=%s:signal=SIGKILL:when=%d", call, k), self, "savechild", dir, name, strconv.Itoa(lines))
					_, err := cmd.CombinedOutput()
					killed := err != nil
					files := listFailFiles(dir, name)
					for _, f := range files {
						got, _ := os.ReadFile(f)
						if string(got) != string(want) {
							m.violate(violation{"C16", "partial", fmt.Sprintf("killed at %s #%d of a %d-line save: a file matching the fail-file pattern holds %d of %d bytes", call, k, lines, len(got), len(want)),
								map[string]string{"lines": fmt.Sprint(lines), "call": call, "k": fmt.Sprint(k), "file": filepath.Base(f)}})
						}
					}
					// temporary files may remain; they must not match the pattern (checked above via listFailFiles)
					os.RemoveAll(dir)
					if !killed {
						break
					}
					total++
					m.eval(fmt.Sprintf("lines=%d kill-at=%s#%d", lines, call, k), true)
					m.tag("killed-at-" + call)
					if len(files) == 1 {
						m.tag("killed-with-final-file-present")
					}
				}
			}
			// the same with system calls that *fail* (disk full, I/O error) instead of a crash: whatever saveFailFile
			// reports, no file matching the pattern may hold partial content
			for _, call := range []string{"write", "close", "renameat", "renameat2", "fsync"} {
				for _, errno := range []string{"ENOSPC", "EIO"} {
					for k := 1; k < 400; k++ {
						dir, _ := os.MkdirTemp(tmp, "c16e-")
						cmd := exec.Command("strace", "-f", "-o", "/dev/null", "-e", "trace="+call,
							"-e", fmt.Sprintf("inject=%s:error=%s:when=%d", call, errno, k), self, "savechild", dir, name, strconv.Itoa(lines))
						out, _ := cmd.CombinedOutput()
						files := listFailFiles(dir, name)
						for _, f := range files {
							got, _ := os.ReadFile(f)
							if string(got) != string(want) {
								m.violate(violation{"C16", "partial", fmt.Sprintf("%s #%d of a %d-line save failed with %s: a file matching the fail-file pattern holds %d of %d bytes (saveFailFile said: %q)",
									call, k, lines, errno, len(got), len(want), strings.TrimSpace(string(out))),
									map[string]string{"lines": fmt.Sprint(lines), "call": call, "k": fmt.Sprint(k), "errno": errno, "file": filepath.Base(f)}})
							}
						}
						os.RemoveAll(dir)
						m.eval(fmt.Sprintf("lines=%d fail-at=%s#%d %s", lines, call, k, errno), true)
						m.tag("failed-at-" + call)
						// stop when the call count is exhausted: the run was not disturbed and left the complete file
						if len(files) == 1 && !strings.Contains(string(out), "rror") && k > 1 {
							break
						}
						if len(files) == 1 && k > 40 {
							break
						}
					}
				}
			}
			// a rename that fails (the temporary file on another device: EXDEV) followed by a crash: whatever saveFailFile
			// does after the failed rename, a kill at any of its later system calls leaves no partial file under a
			// name the next run would pick up
			// (every call a copy of the file could be made with counts, not only write: copy_file_range, sendfile, read …)
			for _, call := range []string{"openat", "write", "close", "copy_file_range", "sendfile", "read", "pread64", "pwrite64", "fstat", "newfstatat", "ftruncate", "fsync", "fdatasync", "lseek", "fchmod", "fchmodat", "linkat", "unlinkat"} {
				for k := 1; k < 400; k++ {
					dir, _ := os.MkdirTemp(tmp, "c16x-")
					cmd := exec.Command("strace", "-f", "-o", "/dev/null", "-e", "trace=renameat,renameat2,"+call,
						"-e", "inject=renameat,renameat2:error=EXDEV",
						"-e", fmt.Sprintf("inject=%s:signal=SIGKILL:when=%d", call, k), self, "savechild", dir, name, strconv.Itoa(lines))
					_, err := cmd.CombinedOutput()
					killed := false
					if ee, ok := err.(*exec.ExitError); ok && !ee.Exited() {
						killed = true // ended by the signal (a save that reports the failed rename exits by itself)
					}
					for _, f := range listFailFiles(dir, name) {
						got, _ := os.ReadFile(f)
						if string(got) != string(want) {
							m.violate(violation{"C16", "partial", fmt.Sprintf("rename failed with EXDEV, then killed at %s #%d of a %d-line save: a file matching the fail-file pattern holds %d of %d bytes", call, k, lines, len(got), len(want)),
								map[string]string{"lines": fmt.Sprint(lines), "call": call, "k": fmt.Sprint(k), "errno": "EXDEV+kill", "file": filepath.Base(f)}})
						}
					}
					os.RemoveAll(dir)
					if !killed {
						break
					}
					m.eval(fmt.Sprintf("lines=%d exdev-then-kill-at=%s#%d", lines, call, k), true)
					m.tag("exdev-then-killed-at-" + call)
				}
			}
			m.tag(fmt.Sprintf("crash-points-lines%d=%d", lines, total))
			os.RemoveAll(ref)
		}
		// histories: a save killed at any system call, followed in the same directory by a complete save of the
		// same test with other (shorter / longer) content: what the killed run left behind must not leak into a
		// file the next run would pick up
		wantOf := func(lines int) string {
			ref, _ := os.MkdirTemp(tmp, "c16ref-")
			defer os.RemoveAll(ref)
			exec.Command(self, "savechild", ref, "TestKill", strconv.Itoa(lines)).Run()
			fs := listFailFiles(ref, "TestKill")
			if len(fs) != 1 {
				return ""
			}
			b, _ := os.ReadFile(fs[0])
			return string(b)
		}
		for _, pair := range [][2]int{{40, 0}, {40, 3}, {3, 40}} {
			first, second := pair[0], pair[1]
			w1, w2 := wantOf(first), wantOf(second)
			for _, call := range []string{"openat", "write", "close", "renameat", "renameat2"} {
				for k := 1; k < 400; k++ {
					dir, _ := os.MkdirTemp(tmp, "c16h-")
					cmd := exec.Command("strace", "-f", "-o", "/dev/null", "-e", "trace="+call,
						"-e", fmt.Sprintf("inject=%s:signal=SIGKILL:when=%d", call, k), self, "savechild", dir, "TestKill", strconv.Itoa(first))
					_, err := cmd.CombinedOutput()
					if err == nil {
						os.RemoveAll(dir)
						break
					}
					out2, err2 := exec.Command(self, "savechild", dir, "TestKill", strconv.Itoa(second)).CombinedOutput()
					files := listFailFiles(dir, "TestKill")
					m.eval(fmt.Sprintf("history kill(%d)@%s#%d then save(%d)", first, call, k, second), true)
					m.tag("history-kill-then-save")
					if err2 != nil {
						m.violate(violation{"C16", "history", fmt.Sprintf("after a %d-line save killed at %s #%d, the next save failed: %s", first, call, k, strings.TrimSpace(string(out2))),
							map[string]string{"first": fmt.Sprint(first), "second": fmt.Sprint(second), "call": call, "k": fmt.Sprint(k)}})
					}
					sawSecond := false
					for _, f := range files {
						got, _ := os.ReadFile(f)
						if string(got) == w2 {
							sawSecond = true
						}
						if string(got) != w1 && string(got) != w2 {
							m.violate(violation{"C16", "history", fmt.Sprintf("a %d-line save killed at %s #%d, then a complete %d-line save: a file matching the fail-file pattern holds %d bytes that are neither save (%d / %d bytes)",
								first, call, k, second, len(got), len(w1), len(w2)),
								map[string]string{"first": fmt.Sprint(first), "second": fmt.Sprint(second), "call": call, "k": fmt.Sprint(k), "file": filepath.Base(f)}})
						}
					}
					if err2 == nil && !sawSecond {
						m.violate(violation{"C16", "history", fmt.Sprintf("a %d-line save killed at %s #%d, then a complete %d-line save: no file holds the second save", first, call, k, second),
							map[string]string{"first": fmt.Sprint(first), "second": fmt.Sprint(second), "call": call, "k": fmt.Sprint(k)}})
					}
					os.RemoveAll(dir)
				}
			}
		}
	}
}

// one value of a string generator from a seed; false: the draw ended with invalid data or panicked
func c18Example(g *rapid.Generator[string], seed int) (v string, ok bool) {
	defer func() {
		if recover() != nil {
			ok = false
		}
	}()
	t := rapid.VerifNewT(newRecTB("c18s"), rapid.VerifRandStream(uint64(seed)*2654435761+1, false), false)
	return rapid.VerifValue(g, t), true
}

// child process of the C16 monitor: one saveFailFile
func saveChild(dir, name string, lines int) int {
	if err := os.Chdir(dir); err != nil {
		return 3
	}
	_, file := rapid.VerifFailFileName(name)
	var out strings.Builder
	for i := 0; i < lines; i++ {
		fmt.Fprintf(&out, "line %d of the captured output %s\n", i, strings.Repeat("x", i%50))
	}
	buf := make([]uint64, 1+lines%7)
	for i := range buf {
		buf[i] = uint64(i) * 0x9E3779B97F4A7C15
	}
	if err := rapid.VerifSave(file, rapid.VerifVersion, []byte(out.String()), 12345, buf); err != nil {
		fmt.Println(err)
		return 4
	}
	return 0
}

// ---------------------------------------------------------------- C18: reachability, edges, fresh seeds

func init() {
	monitors["C18"] = func(r *rng, scale int, m *monOut, tmp string) {
		// floats: in every binade every fractional significand bit takes both values (so that no
		// class of representable values is out of reach), and both ends of the range are produced
		for _, w := range []int{64, 32} {
			S := 52
			if w == 32 {
				S = 23
			}
			for e := -3; e <= S+2; e++ {
				what := floatBinade(r.u64(), w, e)
				m.eval(fmt.Sprintf("floatbits %d %d", w, e), true)
				m.tag(fmt.Sprintf("float%d-binade", w))
				if what != "" {
					m.violate(violation{"C18", "floatbits", what, map[string]string{"w": fmt.Sprint(w), "e": fmt.Sprint(e)}})
				}
			}
		}
		// narrow float ranges (a few ulps wide, anywhere: next to 1, next to 0, in the middle of a binade): every float of the
		// range comes out
		for i := 0; i < 12*scale; i++ {
			w := []int{64, 32}[i%2]
			k := 2 + r.intn(14)
			var lo uint64
			switch i % 4 {
			case 0, 1:
				lo = map[int]uint64{64: math.Float64bits(1), 32: uint64(math.Float32bits(1))}[w]
			case 2:
				lo = 0
			default:
				if w == 64 {
					lo = math.Float64bits(0.3 + float64(r.intn(1000))/7919)
				} else {
					lo = uint64(math.Float32bits(float32(0.3 + float64(r.intn(1000))/7919)))
				}
			}
			what := floatNarrow(r.u64(), w, lo, k)
			m.eval(fmt.Sprintf("floatnarrow %d %d %d", w, lo, k), true)
			m.tag(fmt.Sprintf("float%d-narrow-range", w))
			if what != "" {
				m.violate(violation{"C18", "floatnarrow", what, map[string]string{"w": fmt.Sprint(w), "lo": fmt.Sprint(lo), "k": fmt.Sprint(k)}})
			}
		}
		// strings: the upper edge of the byte-length range is produced, and a generator whose only values sit on
		// the edge produces them
		for maxLen := 1; maxLen <= 6; maxLen++ {
			gEdge := rapid.StringOfN(rapid.RuneFrom([]rune{'a', 'b'}), 0, -1, maxLen)
			gExact := rapid.StringOfN(rapid.RuneFrom([]rune{'a', 'b'}), maxLen, maxLen, maxLen)
			sawEdge, exactOK := false, 0
			for seed := 0; seed < 300; seed++ {
				if v, ok := c18Example(gEdge, seed); ok && len(v) == maxLen {
					sawEdge = true
				}
				if v, ok := c18Example(gExact, seed); ok && len(v) == maxLen {
					exactOK++
				}
			}
			m.tag("string-maxlen-edge")
			m.eval(fmt.Sprintf("string-maxlen %d", maxLen), true)
			if !sawEdge {
				m.violate(violation{"C18", "strlen", fmt.Sprintf("StringOfN(ab, 0, -1, %d): no string of %d bytes in 300 examples", maxLen, maxLen), map[string]string{"maxLen": fmt.Sprint(maxLen)}})
			}
			if exactOK == 0 {
				m.violate(violation{"C18", "strlen", fmt.Sprintf("StringOfN(ab, %d, %d, %d) produced no value in 300 examples", maxLen, maxLen, maxLen), map[string]string{"maxLen": fmt.Sprint(maxLen)}})
			}
		}
		// every value of 8-bit ranges is produced (PRNG sampling)
		for i := 0; i < 6*scale; i++ {
			lo, hi := int64(r.intn(256))-128, int64(r.intn(256))-128
			if lo > hi {
				lo, hi = hi, lo
			}
			seen := map[int64]bool{}
			s := rapid.VerifRandStream(r.u64(), false)
			for k := 0; k < 200000 && len(seen) < int(hi-lo+1); k++ {
				v, _, _ := rapid.VerifGenIntRange(s, lo, hi, true)
				seen[v] = true
			}
			m.eval(fmt.Sprintf("int8range %d %d", lo, hi), true)
			if len(seen) != int(hi-lo+1) {
				m.violate(violation{"C18", "reach8", fmt.Sprintf("Int8Range(%d,%d): only %d of %d values seen in 200000 draws", lo, hi, len(seen), hi-lo+1), map[string]string{"lo": fmt.Sprint(lo), "hi": fmt.Sprint(hi)}})
			}
		}
		// wide kinds: every target is reachable — construct the bits: bias word giving the target's
		// bit length, then the value
		for i := 0; i < 400*scale; i++ {
			max := r.ubound()
			if max == 0 {
				continue
			}
			target := r.ubound()
			if r.chance(1, 3) {
				target = max - uint64(r.intn(3))
			}
			if r.chance(1, 3) && max > 8 {
				target = uint64(1)<<uint(bitsLen(max)-1) + uint64(r.intn(3))
			}
			if target > max {
				target = max
			}
			ok := false
			need := bitsLen(target)
			p := biasP(bitsLen(max))
			// candidate bias words: one per geometric value 0..66
			for g := uint64(0); g <= 66 && !ok; g++ {
				w := leastWord(func(w uint64) bool { return geomOf(w, p) >= g })
				if w == uint64(1)<<53 {
					break
				}
				s := rapid.VerifBufStream([]uint64{w, target, target, target}, false)
				v, _, _ := rapid.VerifGenUintN(s, max, true)
				ok = v == target
			}
			_ = need
			m.tag(fmt.Sprintf("bitlen-%d", bitsLen(max)))
			m.eval(fmt.Sprintf("reach %d in [0,%d]", target, max), true)
			if !ok {
				m.violate(violation{"C18", "reach", fmt.Sprintf("no bias word makes genUintN(max=%d) produce %d (bit length %d of %d)", max, target, bitsLen(target), bitsLen(max)),
					map[string]string{"max": fmt.Sprint(max), "target": fmt.Sprint(target)}})
			}
		}
		// edges within a few thousand draws
		for i := 0; i < 40*scale; i++ {
			lo, hi := r.ibound(), r.ibound()
			if lo > hi {
				lo, hi = hi, lo
			}
			s := rapid.VerifRandStream(r.u64(), false)
			sawLo, sawHi, sawZero := false, false, !(lo <= 0 && 0 <= hi)
			for k := 0; k < 5000 && !(sawLo && sawHi && sawZero); k++ {
				v, _, _ := rapid.VerifGenIntRange(s, lo, hi, true)
				sawLo = sawLo || v == lo
				sawHi = sawHi || v == hi
				sawZero = sawZero || v == 0
			}
			m.eval(fmt.Sprintf("edges %d %d", lo, hi), true)
			if !(sawLo && sawHi && sawZero) {
				m.violate(violation{"C18", "edges", fmt.Sprintf("Int64Range(%d,%d): min seen=%v max seen=%v zero seen=%v in 5000 draws", lo, hi, sawLo, sawHi, sawZero), map[string]string{"lo": fmt.Sprint(lo), "hi": fmt.Sprint(hi)}})
			}
		}
		for i := 0; i < 20*scale; i++ {
			lo, hi := f64Interesting(r), f64Interesting(r)
			if lo > hi {
				lo, hi = hi, lo
			}
			if lo != lo || hi != hi {
				continue
			}
			g := rapid.Float64Range(lo, hi)
			s := rapid.VerifRandStream(r.u64(), false)
			t := rapid.VerifNewT(newRecTB("f"), s, false)
			sawLo, sawHi := false, false
			for k := 0; k < 5000 && !(sawLo && sawHi); k++ {
				v := rapid.VerifValue(g, t)
				sawLo = sawLo || v == lo
				sawHi = sawHi || v == hi
			}
			m.eval(fmt.Sprintf("fedges %v %v", lo, hi), true)
			if !(sawLo && sawHi) {
				m.violate(violation{"C18", "float-edges", fmt.Sprintf("Float64Range(%v,%v): min seen=%v max seen=%v in 5000 draws", lo, hi, sawLo, sawHi), map[string]string{}})
			}
		}
		// no hole next to a bound with a fraction: in the binade of the bound nearest to zero, values with a larger
		// integer part take fractions below the bound's fraction too (Float64Range(10.5, 42) produces 11.25)
		for i := 0; i < 8*scale; i++ {
			e := 1 + r.intn(8)
			k := float64(uint64(1)<<uint(e) + uint64(r.intn(1<<uint(e)-1)))
			lo, hi := k+0.5, (k+0.5)*4
			neg := i%2 == 1
			name := fmt.Sprintf("Float64Range(%v, %v)", lo, hi)
			var g *rapid.Generator[float64]
			if neg {
				g = rapid.Float64Range(-hi, -lo)
				name = fmt.Sprintf("Float64Range(%v, %v)", -hi, -lo)
			} else {
				g = rapid.Float64Range(lo, hi)
			}
			if i%4 >= 2 {
				name = strings.Replace(name, "Float64", "Float32", 1)
				g32 := rapid.Float32Range(float32(lo), float32(hi))
				if neg {
					g32 = rapid.Float32Range(float32(-hi), float32(-lo))
				}
				g = rapid.Map(g32, func(f float32) float64 { return float64(f) })
			}
			s := rapid.VerifRandStream(r.u64(), false)
			t := rapid.VerifNewT(newRecTB("fh"), s, false)
			top := float64(uint64(1) << uint(e+1))
			saw := false
			const n = 20000
			for j := 0; j < n && !saw; j++ {
				v := math.Abs(rapid.VerifValue(g, t))
				saw = math.Floor(v) > k && v < top && v-math.Floor(v) < 0.5
			}
			m.tag("float-hole")
			m.eval("float-hole "+name, true)
			if !saw {
				m.violate(violation{"C18", "float-hole", fmt.Sprintf("%s: in %d draws no value between %v and %v with a fraction below .5", name, n, k+1, top), map[string]string{"gen": name}})
			}
		}
		// every rune of a table given to RuneFrom is produced: small tables with 16-bit and 32-bit ranges at the ends of
		// their domains, strides, and the standard table of non-characters
		for _, tc := range []struct {
			name string
			tab  *unicode.RangeTable
		}{
			{"R16 fff0..ffff", &unicode.RangeTable{R16: []unicode.Range16{{Lo: 0xfff0, Hi: 0xffff, Stride: 1}}}},
			{"R16 0..40 stride 8 + fffe..ffff", &unicode.RangeTable{R16: []unicode.Range16{{Lo: 0, Hi: 0x40, Stride: 8}, {Lo: 0xfffe, Hi: 0xffff, Stride: 1}}, LatinOffset: 1}},
			{"R16 ff00..ffff stride 0x33", &unicode.RangeTable{R16: []unicode.Range16{{Lo: 0xff00, Hi: 0xffff, Stride: 0x33}}}},
			{"R32 10fff0..10ffff", &unicode.RangeTable{R32: []unicode.Range32{{Lo: 0x10fff0, Hi: 0x10ffff, Stride: 1}}}},
			{"R16 41..5a + R32 1f600..1f60f", &unicode.RangeTable{R16: []unicode.Range16{{Lo: 0x41, Hi: 0x5a, Stride: 5}}, R32: []unicode.Range32{{Lo: 0x1f600, Hi: 0x1f60f, Stride: 3}}, LatinOffset: 1}},
			{"Noncharacter_Code_Point", unicode.Noncharacter_Code_Point},
			// tables with the same bounds and different strides (also: 16-bit against 32-bit ranges), in both orders
			{"R16 2500..257e stride 1", &unicode.RangeTable{R16: []unicode.Range16{{Lo: 0x2500, Hi: 0x257e, Stride: 1}}}},
			{"R16 2500..257e stride 2", &unicode.RangeTable{R16: []unicode.Range16{{Lo: 0x2500, Hi: 0x257e, Stride: 2}}}},
			{"R16 3000..303c stride 6", &unicode.RangeTable{R16: []unicode.Range16{{Lo: 0x3000, Hi: 0x303c, Stride: 6}}}},
			{"R16 3000..303c stride 1", &unicode.RangeTable{R16: []unicode.Range16{{Lo: 0x3000, Hi: 0x303c, Stride: 1}}}},
			{"R32 2500..257e stride 3", &unicode.RangeTable{R32: []unicode.Range32{{Lo: 0x2500, Hi: 0x257e, Stride: 3}}}},
			{"R16 41..5a stride 1", &unicode.RangeTable{R16: []unicode.Range16{{Lo: 0x41, Hi: 0x5a, Stride: 1}}, LatinOffset: 1}},
		} {
			var want []rune
			for c := rune(0); c <= unicode.MaxRune; c++ {
				if unicode.Is(tc.tab, c) {
					want = append(want, c)
				}
			}
			seen := map[rune]bool{}
			what := ""
			func() {
				defer func() {
					if p := recover(); p != nil {
						what = fmt.Sprintf("RuneFrom(nil, %s): panic %v", tc.name, p)
					}
				}()
				g := rapid.RuneFrom(nil, tc.tab)
				t := rapid.VerifNewT(newRecTB("rt"), rapid.VerifRandStream(r.u64(), false), false)
				for k := 0; k < 200*len(want) && len(seen) < len(want); k++ {
					c := rapid.VerifValue(g, t)
					if !unicode.Is(tc.tab, c) {
						what = fmt.Sprintf("RuneFrom(nil, %s) produced %U, which is not in the table", tc.name, c)
						return
					}
					seen[c] = true
				}
			}()
			m.tag("rune-table-reach")
			m.eval("rune-table "+tc.name, true)
			if what == "" && len(seen) < len(want) {
				for _, c := range want {
					if !seen[c] {
						what = fmt.Sprintf("RuneFrom(nil, %s): %U is in the table but was not produced in %d draws (%d of %d runes seen)", tc.name, c, 200*len(want), len(seen), len(want))
						break
					}
				}
			}
			if what != "" {
				m.violate(violation{"C18", "rune-table", what, map[string]string{"table": tc.name}})
			}
		}
		// RuneFrom over many tables (more than a byte can number): a rune of every table is produced
		for _, nt := range []int{255, 256, 257, 300} {
			tabs := make([]*unicode.RangeTable, nt)
			for k := range tabs {
				tabs[k] = &unicode.RangeTable{R16: []unicode.Range16{{Lo: uint16(0x4e00 + k), Hi: uint16(0x4e00 + k), Stride: 1}}}
			}
			seen := map[rune]bool{}
			what := ""
			func() {
				defer func() {
					if p := recover(); p != nil {
						what = fmt.Sprintf("RuneFrom(nil, %d tables): panic %v", nt, p)
					}
				}()
				g := rapid.RuneFrom(nil, tabs...)
				t := rapid.VerifNewT(newRecTB("rt"), rapid.VerifRandStream(r.u64(), false), false)
				for k := 0; k < 100*nt && len(seen) < nt; k++ {
					c := rapid.VerifValue(g, t)
					if c < 0x4e00 || c >= rune(0x4e00+nt) {
						what = fmt.Sprintf("RuneFrom(nil, %d tables) produced %U, which is in none of the tables", nt, c)
						return
					}
					seen[c] = true
				}
			}()
			m.tag("rune-many-tables")
			m.eval(fmt.Sprint("rune-many-tables ", nt), true)
			if what == "" && len(seen) < nt {
				for k := 0; k < nt; k++ {
					if !seen[rune(0x4e00+k)] {
						what = fmt.Sprintf("RuneFrom(nil, %d one-rune tables): %U (table %d) was not produced in %d draws (%d of %d runes seen)", nt, 0x4e00+k, k, 100*nt, len(seen), nt)
						break
					}
				}
			}
			if what != "" {
				m.violate(violation{"C18", "rune-table", what, map[string]string{"tables": fmt.Sprint(nt)}})
			}
		}
		// fresh seeds for every run of a check, through `go test`: a MakeCheck value run twice, Check called twice
		if what, ran := c18GoTest(tmp); ran {
			m.tag("go-test-fresh-seeds")
			m.eval("go-test-fresh-seeds", true)
			if what != "" {
				m.violate(violation{"C18", "gotest-fresh", what, map[string]string{"how": "go test without -rapid.seed in a scratch module: a package-level MakeCheck value used by two subtests, Check called twice"}})
			}
		} else {
			m.tag("go-test-unavailable:" + what)
		}
		// the public full-range generator of every integer kind hits both ends of its Go type
		kindEdges(r, m)
		// fresh seeds: two Check calls without -rapid.seed explore different test cases
		fl := baseFlags()
		fl.Seed = 0
		var firsts []string
		for i := 0; i < 4; i++ {
			run := runCheckTB(mustSX("((draw a (u 0 18446744073709551615)) (draw b (u 0 18446744073709551615)))"), fl, "c18", nil)
			if len(run.in.invs) > 1 {
				firsts = append(firsts, strings.Join(run.in.invs[0].vals, ",")+"|"+strings.Join(run.in.invs[1].vals, ","))
				if strings.Join(run.in.invs[0].vals, ",") == strings.Join(run.in.invs[1].vals, ",") {
					m.violate(violation{"C18", "fresh", "two test cases of one run drew the same values: " + firsts[len(firsts)-1], map[string]string{}})
				}
			}
		}
		m.eval("freshness", true)
		for i := 1; i < len(firsts); i++ {
			if firsts[i] == firsts[0] {
				m.violate(violation{"C18", "fresh", "two Check calls without -rapid.seed started with the same test cases", map[string]string{}})
			}
		}
		// … and not a shifted or reordered copy either: the test cases of any two Check calls of this process, as sets,
		// have next to nothing in common (two full-range 64-bit draws per case; the small-value bias of the
		// generators makes a few coincidences possible), and the cases of one run are mostly distinct
		var sets []map[string]bool
		for i := 0; i < 4; i++ {
			run := runCheckTB(mustSX("((draw a (u 0 18446744073709551615)) (draw b (u 0 18446744073709551615)))"), fl, "c18", nil)
			set := map[string]bool{}
			for _, inv := range run.in.invs {
				set[strings.Join(inv.vals, ",")] = true
			}
			if n := len(run.in.invs); n >= 10 && len(set)*10 < n*8 {
				m.violate(violation{"C18", "fresh", fmt.Sprintf("a run of %d test cases has only %d distinct ones", n, len(set)), map[string]string{}})
			}
			for j, other := range sets {
				common := 0
				for k := range set {
					if other[k] {
						common++
					}
				}
				m.eval(fmt.Sprintf("freshness-sets %d %d", j, i), true)
				m.tag("freshness-set-comparison")
				if len(set) >= 10 && common*5 > len(set) {
					m.violate(violation{"C18", "fresh", fmt.Sprintf("Check calls %d and %d of this process without -rapid.seed have %d of %d test cases in common", j+1, i+1, common, len(set)), map[string]string{}})
				}
			}
			sets = append(sets, set)
		}
	}
}

func edgesOf[V comparable](r *rng, m *monOut, name string, g *rapid.Generator[V], lo, hi V) {
	s := rapid.VerifRandStream(r.u64(), false)
	t := rapid.VerifNewT(newRecTB("k"), s, false)
	sawLo, sawHi := false, false
	const n = 20000
	for k := 0; k < n && !(sawLo && sawHi); k++ {
		v := rapid.VerifValue(g, t)
		sawLo = sawLo || v == lo
		sawHi = sawHi || v == hi
	}
	m.tag("kind-edges")
	m.eval("kind-edges "+name, true)
	if !(sawLo && sawHi) {
		m.violate(violation{"C18", "kind-edges", fmt.Sprintf("%s: minimum %v seen=%v, maximum %v seen=%v in %d draws", name, lo, sawLo, hi, sawHi, n), map[string]string{"gen": name}})
	}
}

func kindEdges(r *rng, m *monOut) {
	edgesOf(r, m, "Int8()", rapid.Int8(), int8(math.MinInt8), int8(math.MaxInt8))
	edgesOf(r, m, "Int16()", rapid.Int16(), int16(math.MinInt16), int16(math.MaxInt16))
	edgesOf(r, m, "Int32()", rapid.Int32(), int32(math.MinInt32), int32(math.MaxInt32))
	edgesOf(r, m, "Int64()", rapid.Int64(), int64(math.MinInt64), int64(math.MaxInt64))
	edgesOf(r, m, "Int()", rapid.Int(), math.MinInt, math.MaxInt)
	edgesOf(r, m, "Uint8()", rapid.Uint8(), uint8(0), uint8(math.MaxUint8))
	edgesOf(r, m, "Uint16()", rapid.Uint16(), uint16(0), uint16(math.MaxUint16))
	edgesOf(r, m, "Uint32()", rapid.Uint32(), uint32(0), uint32(math.MaxUint32))
	edgesOf(r, m, "Uint64()", rapid.Uint64(), uint64(0), uint64(math.MaxUint64))
	edgesOf(r, m, "Uint()", rapid.Uint(), uint(0), uint(math.MaxUint))
	edgesOf(r, m, "Uintptr()", rapid.Uintptr(), uintptr(0), ^uintptr(0))
	edgesOf(r, m, "Byte()", rapid.Byte(), byte(0), byte(255))
}

func bitsLen(u uint64) int {
	n := 0
	for u != 0 {
		n++
		u >>= 1
	}
	return n
}

// ---------------------------------------------------------------- C14 / C15: race detector runs (child process)

// gateTB: a TB whose Context() (consulted by T.Context when it creates the context of a test
// case) holds a caller until a second one is inside as well, or 25ms have passed: if T.Context
// lets two goroutines create a context at the same time, they will.
type gateTB struct {
	*recTB
	mu     sync.Mutex
	inside int
	closed bool
	both   chan struct{}
}

func (g *gateTB) Context() context.Context {
	g.mu.Lock()
	g.inside++
	if g.inside >= 2 && !g.closed {
		g.closed = true
		close(g.both)
	}
	ch := g.both
	g.mu.Unlock()
	select {
	case <-ch:
	case <-time.After(25 * time.Millisecond):
	}
	g.mu.Lock()
	g.inside--
	if g.inside == 0 {
		g.both = make(chan struct{})
		g.closed = false
	}
	g.mu.Unlock()
	return context.Background()
}

func raceScenario(which string) {
	switch which {
	case "C14":
		// T never runs the caller's code (the String method of a logged argument) while it holds its own lock: one
		// goroutine formats a value whose String method needs a mutex, another one holds that mutex and asks T
		// something in the meantime
		for _, verbose := range []bool{false, true} {
			fl := baseFlags()
			fl.Checks = 3
			fl.Seed = 5
			fl.Verbose = verbose
			done := make(chan struct{})
			go func() {
				defer close(done)
				withFlags(fl, func() {
					runTB(func() {
						rapid.VerifCheckTB(newRecTB("lockorder"), farDeadline(), func(t *rapid.T) {
							acct := &c14Account{inString: make(chan struct{})}
							acct.mu.Lock()
							finished := make(chan struct{})
							go func() {
								defer close(finished)
								defer func() { recover() }() // (Errorf does not stop the goroutine; a stop would be fine too)
								t.Errorf("balance: %v", acct)
							}()
							<-acct.inString // the other goroutine is inside Errorf, formatting
							_ = t.Failed()
							_ = t.Name()
							t.Cleanup(func() {})
							acct.mu.Unlock()
							<-finished
						})
					})
				})
			}()
			select {
			case <-done:
			case <-time.After(60 * time.Second):
				fmt.Println("LOST: deadlock: t.Errorf formatting a value whose String method needs a mutex, while the goroutine holding that mutex calls t.Failed / t.Name / t.Cleanup: none of them returned in 60s")
				os.Exit(67)
			}
		}
		// a state machine whose actions run while background goroutines of the test case keep calling T's methods (readers and
		// writers of its lock): `Repeat` asks T after every action and check — nothing may get stuck, every cleanup runs
		{
			done := make(chan string, 1)
			go func() {
				for round := 0; round < 12; round++ {
					var registered, ran int64
					fl := baseFlags()
					fl.Checks = 4
					fl.Seed = uint64(100 + round)
					tb := newRecTB("repeat-bg")
					withFlags(fl, func() {
						runTB(func() {
							rapid.VerifCheckTB(tb, farDeadline(), func(t *rapid.T) {
								stop := make(chan struct{})
								var wg sync.WaitGroup
								for g := 0; g < 8; g++ {
									wg.Add(1)
									go func(g int) {
										defer wg.Done()
										for {
											select {
											case <-stop:
												return
											default:
											}
											_ = t.Failed()
											if g%2 == 0 {
												atomic.AddInt64(&registered, 1)
												t.Cleanup(func() { atomic.AddInt64(&ran, 1) })
											} else {
												t.Logf("bg %d", g)
												_ = t.Name()
											}
										}
									}(g)
								}
								n := 0
								t.Repeat(map[string]func(*rapid.T){
									"inc": func(t *rapid.T) { n++ },
									"dec": func(t *rapid.T) { n-- },
									"":    func(t *rapid.T) { _ = t.Failed() },
								})
								close(stop)
								wg.Wait()
							})
						})
					})
					if tb.failed {
						done <- "a state machine that never fails, run next to goroutines that call Failed/Cleanup/Logf/Name: Check reports " + tbVerdict(tb)
						return
					}
					if registered != ran {
						done <- fmt.Sprintf("%d cleanups registered from goroutines during Repeat, %d ran", registered, ran)
						return
					}
				}
				done <- ""
			}()
			select {
			case what := <-done:
				if what != "" {
					fmt.Println("LOST: " + what)
					os.Exit(67)
				}
			case <-time.After(45 * time.Second):
				fmt.Println("LOST: deadlock: T.Repeat next to goroutines that call t.Failed / t.Cleanup / t.Logf / t.Name did not finish in 45s")
				os.Exit(67)
			}
		}
		// a cleanup registered from another goroutine while the cleanups are already running (a worker that is told to stop by
		// one cleanup registers its own on the way out): every registered cleanup runs exactly once
		{
			var n1, n2, n3, invs int64
			fl := baseFlags()
			fl.Checks = 40
			fl.Seed = 21
			withFlags(fl, func() {
				runTB(func() {
					rapid.VerifCheckTB(newRecTB("late-cleanup"), farDeadline(), func(t *rapid.T) {
						atomic.AddInt64(&invs, 1)
						stop, done := make(chan struct{}), make(chan struct{})
						go func() {
							<-stop
							t.Cleanup(func() { atomic.AddInt64(&n3, 1) })
							close(done)
						}()
						t.Cleanup(func() { atomic.AddInt64(&n1, 1) })
						t.Cleanup(func() { atomic.AddInt64(&n2, 1); close(stop); <-done })
					})
				})
			})
			if n1 != invs || n2 != invs || n3 != invs {
				fmt.Printf("LOST: %d invocations each registered a cleanup, then one that lets a goroutine register a third while the cleanups run: they ran %d, %d and %d times\n", invs, n1, n2, n3)
				os.Exit(67)
			}
		}
		// all goroutines observe one and the same context, also when their first calls overlap
		{
			gtb := &gateTB{recTB: newRecTB("gate"), both: make(chan struct{})}
			fl := baseFlags()
			fl.Checks = 5
			fl.Seed = 11
			withFlags(fl, func() {
				runTB(func() {
					rapid.VerifCheckTB(gtb, farDeadline(), func(t *rapid.T) {
						var wg sync.WaitGroup
						ctxs := make([]context.Context, 3)
						for i := range ctxs {
							wg.Add(1)
							go func(i int) {
								defer wg.Done()
								ctxs[i] = t.Context()
							}(i)
						}
						wg.Wait()
						for i := range ctxs {
							if ctxs[i] != ctxs[0] {
								fmt.Println("LOST: goroutines of one test case observed different contexts")
								os.Exit(67)
							}
						}
						t.Cleanup(func() {
							for i := range ctxs {
								if ctxs[i].Err() == nil {
									fmt.Println("LOST: a context handed out during the test case was not cancelled before the cleanups")
									os.Exit(67)
								}
							}
						})
					})
				})
			})
		}
		prop := func(t *rapid.T) {
			n := rapid.IntRange(2, 8).Draw(t, "n")
			var wg sync.WaitGroup
			ctxs := make([]context.Context, n)
			var ran sync.Map
			for i := 0; i < n; i++ {
				wg.Add(1)
				go func(i int) {
					defer wg.Done()
					t.Helper()
					_ = t.Name()
					t.Logf("goroutine %d", i)
					t.Log("x")
					ctxs[i] = t.Context()
					t.Cleanup(func() { ran.Store(i, true) })
					_ = t.Failed()
					if i == 1 {
						t.Errorf("from goroutine")
					}
					if i == 2 {
						t.Fail()
					}
				}(i)
			}
			wg.Wait()
			for i := 1; i < n; i++ {
				if ctxs[i] != ctxs[0] {
					panic("goroutines observed different contexts")
				}
			}
		}
		// a failure signalled on the T of a Custom generator function by a goroutine that outlives the function (the
		// property joins it before it returns) falsifies the test case, too
		{
			fl := baseFlags()
			fl.Checks = 20
			fl.Seed = 13
			withFlags(fl, func() {
				tb := newRecTB("late")
				runTB(func() {
					rapid.VerifCheckTB(tb, farDeadline(), func(t *rapid.T) {
						var wg sync.WaitGroup
						release := make(chan struct{})
						g := rapid.Custom(func(ct *rapid.T) int {
							v := rapid.IntRange(0, 9).Draw(ct, "v")
							wg.Add(1)
							go func() {
								defer wg.Done()
								<-release
								_ = ct.Name()
								ct.Logf("late %d", v)
								ct.Errorf("late failure %d", v)
							}()
							return v
						})
						_ = g.Draw(t, "g")
						_ = rapid.Bool().Draw(t, "more")
						close(release)
						wg.Wait()
					})
				})
				if !tb.failed {
					fmt.Println("LOST: a failure signalled from a goroutine on the T of a Custom generator function, after the function returned, did not fail the test")
					os.Exit(67)
				}
			})
		}
		for _, verbose := range []bool{false, true} {
			fl := baseFlags()
			fl.Verbose = verbose
			fl.Checks = 50
			fl.Seed = 7
			withFlags(fl, func() {
				tb := newRecTB("race")
				runTB(func() { rapid.VerifCheckTB(tb, farDeadline(), prop) })
				if !tb.failed {
					fmt.Println("LOST: a failure signalled from a goroutine did not fail the test")
					os.Exit(67)
				}
			})
		}
	case "C15":
		type rec3 struct {
			A int8
			B []uint16
			C map[bool]string
		}
		var rec *rapid.Generator[any]
		rec = rapid.Deferred(func() *rapid.Generator[any] {
			return rapid.OneOf(rapid.Just[any](0), rapid.Map(rapid.SliceOfN(rec, 0, 2), func(s []any) any { return s }))
		})
		gens := []*rapid.Generator[any]{
			rec,
			rapid.Custom(func(t *rapid.T) any { return rapid.IntRange(0, 9).Draw(t, "x") }),
			rapid.IntRange(0, 100).Filter(func(v int) bool { return v%2 == 0 }).AsAny(),
			rapid.Map(rapid.StringMatching(`[a-z]{1,3}\d?`), func(s string) any { return s }),
			rapid.SliceOfDistinct(rapid.String(), rapid.ID[string]).AsAny(),
			rapid.Make[rec3]().AsAny(),
			rapid.SliceOfBytesMatching(`[a-z]{2,12}`).AsAny(),
			rapid.Map(rapid.StringMatching(`(ab|cd)+x?`), func(s string) any { return s }),
			rapid.SliceOfN(rapid.Byte(), 1, 6).AsAny(),
			// strings of every constructor: bounded in runes, bounded in bytes, over a rune table, unbounded
			rapid.StringN(1, 8, 8).AsAny(),
			rapid.StringN(2, 6, 64).AsAny(),
			rapid.StringOfN(rapid.RuneFrom([]rune{'a', 'é', '€', '😀'}), 0, 6, 12).AsAny(),
			rapid.StringOf(rapid.RuneFrom(nil, unicode.Greek)).AsAny(),
			rapid.String().AsAny(),
			rapid.MapOfN(rapid.StringN(0, 3, 3), rapid.Float64Range(-1, 1), 0, 3).AsAny(),
			rapid.OneOf(rapid.StringN(1, 4, 4), rapid.SampledFrom([]string{"x", "yy"})).AsAny(),
			rapid.Permutation([]string{"p", "q", "r"}).AsAny(),
		}
		var wg sync.WaitGroup
		results := make([]string, 8)
		for i := 0; i < 8; i++ {
			wg.Add(1)
			go func(i int) {
				defer wg.Done()
				var b strings.Builder
				tb := newRecTB(fmt.Sprintf("par%d", i))
				n := 0
				fl := 60
				_ = fl
				runTB(func() {
					rapid.VerifDoCheck(tb, farDeadline(), 60, 4242, "", false, func(t *rapid.T) {
						// a value, once drawn, belongs to the test case: it is rendered when drawn and again
						// after all later draws (of this check and, concurrently, of the others)
						held := make([]any, len(gens))
						first := make([]string, len(gens))
						for j, g := range gens {
							if (i+n)%2 == 0 {
								_ = g.String()
							}
							held[j] = g.Draw(t, "v")
							first[j] = fmt.Sprintf("%d:%v;", j, held[j])
							b.WriteString(first[j])
						}
						for j := range gens {
							if again := fmt.Sprintf("%d:%v;", j, held[j]); again != first[j] {
								fmt.Printf("DIFF: a drawn value changed after later draws: %s became %s\n", first[j], again)
								os.Exit(67)
							}
						}
						n++
					})
				})
				results[i] = b.String()
			}(i)
		}
		wg.Wait()
		for i := 1; i < 8; i++ {
			if results[i] != results[0] {
				fmt.Println("DIFF: concurrent checks with the same seed drew different values")
				os.Exit(67)
			}
		}
		// a drawn value belongs to the check that drew it: checks that overwrite the slices, maps and pointers they drew
		// (sorting in place, reusing a buffer) neither disturb each other nor their own later draws — every check draws
		// what a check with generators of its own, which leaves its values alone, draws
		{
			build := func() []*rapid.Generator[any] {
				return []*rapid.Generator[any]{
					rapid.Permutation([]int{1, 2, 3, 4}).AsAny(),
					rapid.Permutation([]int{7}).AsAny(),
					rapid.Permutation([]int{5, 6}).AsAny(),
					rapid.SliceOfN(rapid.IntRange(0, 9), 0, 4).AsAny(),
					rapid.SliceOfNDistinct(rapid.IntRange(0, 9), 0, 4, rapid.ID[int]).AsAny(),
					rapid.MapOfN(rapid.IntRange(0, 9), rapid.IntRange(0, 9), 0, 3).AsAny(),
					rapid.Ptr(rapid.IntRange(0, 9), true).AsAny(),
					rapid.SliceOfBytesMatching(`[a-c]{0,5}`).AsAny(),
					rapid.SampledFrom([][]int{{1, 2}, {3}}).AsAny(),
				}
			}
			scribble := func(v any) {
				switch x := v.(type) {
				case []int:
					for k := range x {
						x[k] = -1 - k
					}
				case map[int]int:
					for k := range x {
						x[k] = -7
					}
					x[-1] = -1
				case *int:
					if x != nil {
						*x = -9
					}
				case []byte:
					for k := range x {
						x[k] = '!'
					}
				}
			}
			run := func(gens []*rapid.Generator[any], name string, overwrite bool) string {
				var b strings.Builder
				tb := newRecTB(name)
				runTB(func() {
					rapid.VerifDoCheck(tb, farDeadline(), 80, 777, "", false, func(t *rapid.T) {
						held := make([]any, len(gens))
						for j, g := range gens {
							held[j] = g.Draw(t, "v")
							if p, ok := held[j].(*int); ok && p != nil {
								fmt.Fprintf(&b, "%d:&%d;", j, *p)
							} else {
								fmt.Fprintf(&b, "%d:%v;", j, held[j])
							}
						}
						if overwrite {
							for j := range held {
								if _, sampled := held[j].([]int); sampled && j == len(held)-1 {
									continue // SampledFrom hands out the caller's own elements: they are the caller's to keep intact
								}
								scribble(held[j])
							}
						}
					})
				})
				return b.String()
			}
			ref := run(build(), "own", false)
			shared := build()
			var wg3 sync.WaitGroup
			got := make([]string, 6)
			for i := range got {
				wg3.Add(1)
				go func(i int) {
					defer wg3.Done()
					got[i] = run(shared, fmt.Sprintf("shared%d", i), true)
				}(i)
			}
			wg3.Wait()
			for i := range got {
				if got[i] != ref {
					fmt.Printf("DIFF: check %d of 6 that share generators and overwrite the values they drew did not draw what a check alone draws: %s\n", i, firstDiff(strings.ReplaceAll(ref, ";", "\n"), strings.ReplaceAll(got[i], ";", "\n")))
					os.Exit(67)
				}
			}
		}
		// an unresolved Deferred met by several checks at once, while its function is still running for the first of
		// them: every check draws what it draws alone (the generator the function returned to the first caller)
		for round := 0; round < 3; round++ {
			var calls int32
			slow := rapid.Deferred(func() *rapid.Generator[int] {
				n := atomic.AddInt32(&calls, 1)
				time.Sleep(30 * time.Millisecond)
				return rapid.Just(int(n))
			})
			start := make(chan struct{})
			var wg2 sync.WaitGroup
			drawn := make([]string, 6)
			for i := 0; i < 6; i++ {
				wg2.Add(1)
				go func(i int) {
					defer wg2.Done()
					<-start
					var b strings.Builder
					tb := newRecTB(fmt.Sprintf("def%d", i))
					runTB(func() {
						rapid.VerifDoCheck(tb, farDeadline(), 3, 99, "", false, func(t *rapid.T) {
							fmt.Fprintf(&b, "%d,", slow.Draw(t, "d"))
						})
					})
					drawn[i] = b.String()
				}(i)
			}
			close(start)
			wg2.Wait()
			for i := range drawn {
				if drawn[i] != "1,1,1," {
					fmt.Printf("DIFF: check %d sharing an unresolved Deferred with 5 others drew %s; alone it draws 1,1,1, (the function ran %d times)\n", i, drawn[i], atomic.LoadInt32(&calls))
					os.Exit(67)
				}
			}
		}
	}
}

func raceMonitor(prop string) monitorFn {
	return func(r *rng, scale int, m *monOut, tmp string) {
		self, _ := os.Executable()
		for i := 0; i < 2*scale; i++ {
			cmd := exec.Command(self, "racechild", prop)
			cmd.Env = append(os.Environ(), "GORACE=halt_on_error=1 exitcode=66")
			out, err := cmd.CombinedOutput()
			m.eval(fmt.Sprintf("race-run-%s-%d", prop, i), true)
			if err != nil {
				text := string(out)
				if len(text) > 1500 {
					text = text[:1500]
				}
				kind := "race"
				if !strings.Contains(text, "DATA RACE") {
					kind = "race-child"
				}
				m.violate(violation{prop, kind, "concurrent use under the race detector: " + text, map[string]string{"prop": prop}})
				return
			}
		}
	}
}

func init() {
	monitors["C14-race"] = raceMonitor("C14")
	monitors["C15-race"] = raceMonitor("C15")
	replayers["race"] = func(v violation, tmp string) (bool, string) {
		self, _ := os.Executable()
		cmd := exec.Command(self, "racechild", v.Params["prop"])
		cmd.Env = append(os.Environ(), "GORACE=halt_on_error=1 exitcode=66")
		out, err := cmd.CombinedOutput()
		if err != nil {
			return true, string(out)
		}
		return false, "no race reported in this run"
	}
}
